/-
  C12 — Match templates rewrite exactly the matching elements; hints only optimise.
  Property theorems only; the model is `Genshi/Model/Match*.lean` (`run`: the eager filter,
  every content buffered whatever the hint; `runL`: the generator pipeline as an automaton, which
  honours `buffer="false"`; `lazy_eq_eager` proves them equal on well-nested streams), helper
  lemmas are in `Genshi/Lemmas/Match*.lean`.

  All theorems are parametric in the matcher of each template: any state type `σ` and any
  `step : σ → Event → Bool → σ × Bool`; `Lawful` (an END undoes its START) is assumed only
  where stated.  `lawful_single`, `lawful_simple` show the law for the concrete matchers of the
  driver, `positional_not_lawful` that a position counter breaks it.

  OBLIGATIONS (checked by the harness):
    hints_table nonmatching_passthrough nonmatching_template_irrelevant
    declaration_order_pipeline pipeline_stages single_template_is_tree_rewrite filter_is_chain_of_rewrites
    select_returns_parts
    first_match_wins
    identity_body_is_identity
    identity_templates_passthrough filter_terminates render_declarations_first
    once_hint_irrelevant buffer_hint_irrelevant lazy_eq_eager window_footprint
    matcher_state_in_sync output_wellnested select_keeps_nesting
    lawful_single lawful_simple lawful_generic positional_not_lawful root_context_not_matched
    matcher_simulation real_matcher_flagfree real_matcher_lawful_abstraction nonpositional_paths_ok
    real_templates_okt real_filter_is_chain_of_rewrites real_template_rewrites_marked_elements
    marked_elements_are_xpath_matches real_positional_not_lawful real_positional_counts_per_closure
    once_on_trees stage_counts_matches late_registration_applies_from_there_on lazy_eq_eager_late
    select_is_path_select real_once_on_trees
    xpath_spec_eq_marks_spec marks_are_xpath_matches_every_strategy real_template_rewrites_xpath_matches
    xpath_criterion_is_nonpositional buffer_hint_irrelevant_late
    once_replaces_first_match real_once_replaces_first_match union_attribute_operand_masks_match
    filter_is_chain_of_rewrites_with_once real_filter_is_chain_of_rewrites_with_once
    real_once_replaces_first_xpath_match
-/
import Genshi.Lemmas.MatchSync
import Genshi.Lemmas.MatchPipe
import Genshi.Lemmas.MatchIns
import Genshi.Lemmas.MatchPath
import Genshi.Lemmas.MatchOnce
import Genshi.Lemmas.MatchEquiv
import Genshi.Lemmas.MatchPipeline2
import Genshi.Lemmas.MatchIdentity
import Genshi.Lemmas.MatchTotal
import Genshi.Lemmas.MatchSpec
import Genshi.Lemmas.MatchChain
import Genshi.Model.MatchPath
import Genshi.Model.MatchLazy
import Genshi.Gen.MatchHints
import Genshi.Lemmas.MatchRealSpec
import Genshi.Lemmas.MatchOnceSpec
import Genshi.Lemmas.MatchLate
import Genshi.Lemmas.MatchSelect
import Genshi.Lemmas.MatchRealOnce
import Genshi.Lemmas.MatchXpInst
import Genshi.Lemmas.MatchLateHints
import Genshi.Lemmas.MatchRealOnceTree
import Genshi.Lemmas.MatchChainOnce
import Genshi.Lemmas.MatchOnceXp
import Genshi.Props.C05
namespace Genshi.Props.C12
open Genshi Genshi.Match

/-- The hint parser of the model agrees with `MatchDirective.attach` of the code under test on
    every probed spelling (table regenerated from the code on every run), and `attach` produces no
    hint the model does not know. -/
theorem hints_table :
    (Genshi.Gen.MatchHints.rows.all fun (b, o, r, nb, mo, nr) =>
      parseHints b o r == { notBuffered := nb, matchOnce := mo, notRecursive := nr }) = true
    ∧ Genshi.Gen.MatchHints.unknownHints = [] := by
  decide

/-! ### elements that do not match pass through unchanged -/

/-- When no registered template ever answers True (whatever its state), the filter yields the
    flattened template unchanged: for every stream (well nested or not), every window, all hints. -/
theorem nonmatching_passthrough {σ : Type} (f start : Nat) (end_ : Option Nat) (items : List (Item σ))
    (mts : List (MT σ)) (r : List (MT σ) × List Event)
    (hm : ∀ t ∈ mts, NeverFires t) (hi : ∀ t, Item.reg t ∈ items → NeverFires t)
    (h : run f start end_ items mts = some r) : r.2 = evs items :=
  (run_neverFires f start end_ items mts r hm hi h).1

/-- A template whose path matches nothing is irrelevant wherever it is declared: inserting it at
    any position `k` of the template list (the windows shifted accordingly) gives the same output
    and leaves the other templates in the same states, whatever the other templates do. -/
theorem nonmatching_template_irrelevant {σ : Type} (f : Nat) (items : List (Item σ)) (mts : List (MT σ))
    (r : List (MT σ) × List Event) (k : Nat) (tn : MT σ) (hn : NeverFires tn) (hk : k ≤ mts.length)
    (h : run f 0 none items mts = some r) :
    ∃ tn', Shape tn tn' ∧ run f 0 none items (ins tn k mts) = some (ins tn' k r.1, r.2) :=
  run_ins f 0 none items mts r k tn 0 none hn hk
    (by intro p; simp) (Or.inl ⟨rfl, rfl⟩) h

/-! ### replacement, select(), declaration order -/

/-- **The firing equation** (the pipeline as the code runs it).  If template `idx` is the one the
    scan of the window selects for the START `e` of an element with closed content `inner`, then
    the filter's result for `e · inner · tail · rest'` is: `inner` matched against the window
    `[start, pre_end)`; the body instantiated with `select()` over `e · innerOut · tail`; *that
    output matched from index `idx+1`* to the end of the window; the END shown (updateonly) to the
    templates `start … idx` that tested the START; then the rest of the stream. -/
theorem declaration_order_pipeline {σ : Type} {f start : Nat} {end_ : Option Nat} {e tail : Event}
    {inner rest' : List (Item σ)} {mts mts1 : List (MT σ)} {idx : Nat} {t : MT σ}
    (hS : isStart e = true) (hsc : scan e start end_ 0 mts = (mts1, some idx)) (ht : mts1[idx]? = some t)
    (hcl : Closed (evs inner)) (htail : isEnd tail = true) :
    run (f + 1) start end_ (.ev e :: (inner ++ .ev tail :: rest')) mts =
      (run f start (some (preEnd t idx)) inner (fired t idx mts1)).bind fun q3 =>
      (run f (idx + 1) end_ (evItems (instantiate t.body (e :: q3.2 ++ [tail]))) q3.1).bind fun q4 =>
      (run f start end_ rest' (updRange tail start (idx + 1) 0 q4.1)).map fun p => (p.1, q4.2 ++ p.2) :=
  run_fire hS hsc ht hcl htail

/-- **The templates form a pipeline** (the documented reading: "a match template defined after another
    match template is applied to the output generated by the first").  Over a well-nested stream, for
    every split point `m` of the template list: running the filter with all templates `[s, e)` gives
    the same output and leaves the same template list as running it with the templates `[s, m)` and
    then, on that output, with the templates `[m, e)`.  Iterating `m` gives one stage per template.
    (Matchers that do not look at `updateonly` — none of the path strategies does; bodies well nested.) -/
theorem pipeline_stages {σ : Type} (f s : Nat) (e : Option Nat) (items : List (Item σ)) (M M' : List (MT σ))
    (out : List Event) (m : Nat) (hnr : NoReg items) (hneu : Neutral (evs items)) (hok : ∀ t ∈ M, OKt t)
    (hsm : s ≤ m) (hme : ∀ n, e = some n → m ≤ n) (h : run f s e items M = some (M', out)) :
    ∃ f' out1 L, run f' s (some m) items M = some (L, out1) ∧ run f' m e (evItems out1) L = some (M', out) :=
  pipeline_seq f s e items M M' out m hnr hneu hok hsm hme h

/-- **Exactly the matching elements.**  The stage of the pipeline that owns one template (slot `i`,
    window `[i, i+1)`; no `once`; lawful matcher) is this tree rewrite of the document, for every forest:
    an element is replaced iff the template's matcher fires on its START in the state reached by
    testing the STARTs of its ancestors (`openSt`); it is replaced by the body with every
    `${select(p)}` evaluated on START · rewritten content · END (plain content for `recursive="false"`);
    every other event passes unchanged; and the matcher ends in the state it started in.
    With `pipeline_stages` the whole filter is the composition of these rewrites in declaration order. -/
theorem single_template_is_tree_rewrite {σ : Type} (t : MT σ) (b : σ) (i : Nat) (hl : Lawful t) (ho : t.once = false)
    (f : Nat) (ns : List Node) (anc : List Open) (M : List (MT σ)) (r : List (MT σ) × List Event)
    (hns : okList ns = true) (hslot : SlotAt i t b anc M)
    (h : run f i (some (i + 1)) (evItems (flattenList ns)) M = some r) :
    r.2 = specList t b anc ns ∧ SlotAt i t b anc r.1 :=
  stage_is_spec t b i hl ho f ns anc M r hns hslot h

/-- **The filter is a chain of tree rewrites**, one per template, in declaration order — the property's
    first sentence in one statement.  For every forest and every template list whose templates of the
    window `[s, s+k)` are live, without `once`, lawful and do not read `updateonly`: what the filter
    yields on the flattened forest is obtained by rewriting the whole document with the first template
    (`specList`: every element at which its matcher fires is replaced by its body, `select()` giving the
    element's parts; every other event unchanged), re-reading the result as a forest, rewriting it with
    the second template, and so on (`Chain`). -/
theorem filter_is_chain_of_rewrites {σ : Type} (k s f : Nat) (ns : List Node) (M : List (MT σ))
    (r : List (MT σ) × List Event) (hns : okList ns = true)
    (hst : ∀ j t, s ≤ j → j < s + k → M[j]? = some t → StageOK t) (hlen : s + k ≤ M.length)
    (hok : ∀ t ∈ M, OKt t) (h : run f s (some (s + k)) (evItems (flattenList ns)) M = some r) :
    Chain M s k ns r.2 :=
  run_is_chain k s f ns M r hns hst hlen hok h

/-- **select() returns the matched element's parts.**  On the content `<tg …>kids</tg>` of a matched
    element, `select('.')` is the whole element and each child path (`node()`, `*`, `text()`,
    `*|text()`, `name`) yields the flattening of exactly the children its node test accepts, in
    document order — the XPath reading of these paths on the element as context node. -/
theorem select_returns_parts (s : Sel) (tg : QName) (at_ : AttrList) (kids : List Node) (hk : okList kids = true) :
    select s (Event.start tg at_ :: flattenList kids ++ [Event.end_ tg]) =
      if s.depth = 0 then Event.start tg at_ :: flattenList kids ++ [Event.end_ tg]
      else flattenList (kids.filter s.keeps) :=
  select_on_tree s tg at_ kids hk

/-- The template that fires is the first of the window, in declaration order, whose test accepts
    the START; every earlier one of the window was asked and declined. -/
theorem first_match_wins {σ : Type} (e : Event) (s : Nat) (en : Option Nat) (mts : List (MT σ)) (idx : Nat)
    (h : (scan e s en 0 mts).2 = some idx) :
    inWindow s en idx = true ∧ (∃ t, mts[idx]? = some t ∧ (t.test e false).2 = true) ∧
    ∀ i x, i < idx → mts[i]? = some x → inWindow s en i = true → (x.test e false).2 = false :=
  scan_first e s en mts idx h

/-- **identity_body_is_identity.**  Insert at any position `k` of any template list a template whose
    body is `${select('.')}` (it reproduces the element it matched) — whatever its path, matcher state
    and hints.  On every well-nested stream the filter with it terminates and yields the same output as
    without it.  (Matchers ignore `updateonly`, bodies are well nested.)  Proved from the pipeline
    theorem: the identity template is a stage of its own, and that stage is the identity. -/
theorem identity_body_is_identity {σ : Type} (f : Nat) (items : List (Item σ)) (L0 : List (MT σ)) (tid : MT σ)
    (k : Nat) (r : List (MT σ) × List Event) (hnr : NoReg items) (hneu : Neutral (evs items))
    (hok : ∀ t ∈ L0, OKt t) (hid : IdentityBody tid) (hff : FlagFree tid) (hk : k ≤ L0.length)
    (h : run f 0 none items L0 = some r) :
    ∃ f' r', run f' 0 none items (ins tid k L0) = some r' ∧ r'.2 = r.2 := by
  have hidb : BodyOK tid.body := by intro st; rw [hid]; simp [trackB]
  obtain ⟨f', r', h'⟩ := run_terminates 0 none (ins tid k L0) items hnr hneu
    (ins_forall (P := fun t => BodyOK t.body) tid hidb k L0 (fun t ht => (hok t ht).1))
  exact ⟨f', r', h', run_identity_insert f f' items L0 tid k r r' hnr hneu hok hid hff hk h h'⟩

/-- **Termination.**  On every well-nested, registration-free stream the filter yields a result when
    given enough fuel: the body of a match is matched against strictly later templates only. -/
theorem filter_terminates {σ : Type} (s : Nat) (e : Option Nat) (M : List (MT σ)) (items : List (Item σ))
    (hnr : NoReg items) (hneu : Neutral (evs items)) (hok : ∀ t ∈ M, BodyOK t.body) :
    ∃ f r, run f s e items M = some r :=
  run_terminates s e M items hnr hneu hok

/-- Identity templates among templates that never fire: the filter returns the stream unchanged, for
    *every* stream (well nested or not, registrations anywhere), every window and any matchers. -/
theorem identity_templates_passthrough {σ : Type} (f start : Nat) (end_ : Option Nat)
    (items : List (Item σ)) (mts : List (MT σ)) (r : List (MT σ) × List Event)
    (hm : ∀ t ∈ mts, NeverFires t ∨ IdentityBody t)
    (hi : ∀ t, Item.reg t ∈ items → NeverFires t ∨ IdentityBody t)
    (h : run f start end_ items mts = some r) : r.2 = evs items :=
  run_identity f start end_ items mts r hm hi h

/-- **A whole render.**  For a template whose `py:match` declarations are the first children of its root
    element: the root START passes untested (nothing is registered yet — this is the known finding
    C12-root-context), the declarations register in order, the content is filtered with that list,
    the root END passes.  So the theorems about registration-free streams with an initial template
    list are theorems about `generate()` of such templates. -/
theorem render_declarations_first {σ : Type} (f : Nat) (tg : QName) (at_ : AttrList) (regs : List (MT σ))
    (content : List (Item σ)) (hnr : NoReg content) (hcl : Closed (evs content)) (M' : List (MT σ)) (out : List Event)
    (h : run f 0 none content regs = some (M', out)) :
    render (f + regs.length + 3) (.ev (.start tg at_) :: (regs.map Item.reg ++ (content ++ [.ev (.end_ tg)]))) =
      some (.start tg at_ :: (out ++ [.end_ tg])) :=
  Genshi.Match.render_declarations_first f tg at_ regs content hnr hcl M' out h

/-! ### the once hint -/

/-- **once_hint_irrelevant.**  Take any template list, any slot `i` whose template does not carry the
    hint, any stream (which may register further templates) and run the filter; if that template
    replaced at most one element (its ghost counter rose by at most one), then the run with
    `once="true"` set on it yields the same output.  (The hinted run retires the template after its
    first match; in the content of that match the windows of the two runs differ at slot `i`.) -/
theorem once_hint_irrelevant {σ : Type} (f : Nat) (items : List (Item σ)) (mts : List (MT σ))
    (r : List (MT σ) × List Event) (i : Nat) (t : MT σ)
    (ht : mts[i]? = some t) (ho : t.once = false) (hr : t.retired = false)
    (h : run f 0 none items mts = some r) (hfew : hitsAt i r.1 ≤ hitsAt i mts + 1) :
    ∃ c', run f 0 none items (mts.set i (onceAt t)) = some (c', r.2) := by
  have hi : i < mts.length := (List.getElem?_eq_some_iff.mp ht).1
  have hrel := prel_set mts 0 i t ht ho hr
  simp only [Nat.zero_add] at hrel
  obtain ⟨c', b', h1, _, _⟩ := run_once i f 0 none none items mts _ r false hrel hi (fun _ _ => rfl) h
    (by simpa using hfew)
  exact ⟨c', h1⟩

/-! ### the buffer hint -/

/-- **The two models agree.**  On every well-nested, registration-free stream the generator
    pipeline read as an automaton (`runL`, which honours `buffer="false"`) yields what the eager
    filter (`run`, every content buffered) yields and leaves the template list in the same state,
    provided the bodies are well nested and unbuffered bodies call `select()` at most once. -/
theorem lazy_eq_eager {σ : Type} (f : Nat) (items : List (Item σ)) (mts : List (MT σ))
    (r : List (MT σ) × List Event) (hnr : NoReg items) (hn : Neutral (evs items))
    (hok : ∀ t ∈ mts, LazyOK t) (h : run f 0 none items mts = some r) (F : Nat) (hF : f ≤ F) :
    runL F .idle items mts = some (.idle, r.1, r.2) := by
  rw [runL_noReg F items .idle mts hnr]
  exact auto_eq_run f 0 none items mts r hnr hn hok h F hF

/-- **buffer_hint_irrelevant.**  Take two template lists that differ only in their `buffer` hints
    (`mts'` any assignment of the hint whose unbuffered bodies call `select()` at most once — the
    documented condition).  On every well-nested stream the filter that honours the hints of `mts'`
    yields exactly the output of the filter that buffers everything.  No restriction on the paths:
    with the repaired code positional predicates are covered too (DESIGN.md §6 #49 is fixed). -/
theorem buffer_hint_irrelevant {σ : Type} (f : Nat) (items : List (Item σ)) (mts mts' : List (MT σ))
    (r : List (MT σ) × List Event) (hnr : NoReg items) (hn : Neutral (evs items))
    (hsame : mts'.map bufOn = mts.map bufOn) (hok : ∀ t ∈ mts', LazyOK t)
    (h : run f 0 none items mts = some r) (F : Nat) (hF : f ≤ F) :
    ∃ m', runL F .idle items mts' = some (.idle, m', r.2) := by
  have h1 := run_bufOn f 0 none items mts hnr
  have h2 := run_bufOn f 0 none items mts' hnr
  rw [hsame, h1, h] at h2
  simp only [Option.map_some] at h2
  cases h' : run f 0 none items mts' with
  | none => rw [h'] at h2; simp at h2
  | some r' =>
    rw [h'] at h2
    simp only [Option.map_some, Option.some.injEq, Prod.mk.injEq] at h2
    have := lazy_eq_eager f items mts' r' hnr hn hok h' F hF
    rw [h2.2]
    exact ⟨r'.1, this⟩

/-- **Window footprint** (why the hint is irrelevant): a `_match(start, end)` generator reads and
    writes only the slots of its window; the content of a match is matched against `[start, pre_end)`
    and the body against `[idx+1, end)`, which are disjoint (`pre_end ≤ idx+1`). -/
theorem window_footprint {σ : Type} (F s : Nat) (en : Option Nat) (A : Auto) (ev : Event) (hA : WF s en A)
    (m y : List (MT σ)) (A' : Auto) (m' : List (MT σ)) (o : List Event) (hy : y.length = m.length)
    (h : feed F s en A ev m = some (A', m', o)) :
    m'.length = m.length ∧ feed F s en A ev (splice (win s en) m y) = some (A', splice (win s en) m' y, o) :=
  feed_frames F s en A ev hA m y A' m' o hy h

/-! ### matcher state and nesting -/

/-- **matcher_state_in_sync.**  Over a well-nested stream (no registrations inside), with matchers
    in which the END of an element undoes its START, every template of the window that is not
    retired ends in the state it started in; templates outside the window are not touched.
    (This is the invariant behind the `updateonly` calls: every matcher sees a well-nested
    sequence of STARTs and ENDs.  On the unrepaired code the templates declared before the
    matching one never saw the END — fix a0b8e40.) -/
theorem matcher_state_in_sync {σ : Type} (f start : Nat) (end_ : Option Nat) (items : List (Item σ))
    (mts : List (MT σ)) (r : List (MT σ) × List Event)
    (hnr : NoReg items) (hl : ∀ t ∈ mts, Lawful t) (hb : ∀ t ∈ mts, BodyOK t.body)
    (hn : Neutral (evs items)) (h : run f start end_ items mts = some r) :
    r.1.length = mts.length ∧
    ∀ i t, mts[i]? = some t → ∃ t', r.1[i]? = some t' ∧ Shape t t' ∧
      (t'.retired = true ∨ t'.st = t.st) ∧
      (inWindow start end_ i = false → t'.st = t.st ∧ t'.retired = t.retired) := by
  obtain ⟨hlen, hs⟩ := run_sync f start end_ items mts r hnr hl hb h [] [] (hn [])
  refine ⟨hlen, ?_⟩
  intro i t ht
  obtain ⟨t', ht', hsh, hout, hin⟩ := hs i t ht
  refine ⟨t', ht', hsh, ?_, hout⟩
  cases hw : inWindow start end_ i with
  | false => exact Or.inr (hout hw).1
  | true =>
    have := hin hw t.st (Or.inr rfl)
    rcases this with h1 | h1
    · exact Or.inl h1
    · exact Or.inr (by simpa [openSt] using h1)

/-- **The output is well nested** whenever the flattened template is and the bodies of the match
    templates are (they come out of the XML parser), for all template lists, windows and hints. -/
theorem output_wellnested {σ : Type} (f start : Nat) (end_ : Option Nat) (items : List (Item σ))
    (mts : List (MT σ)) (r : List (MT σ) × List Event)
    (hm : ∀ t ∈ mts, BodyOK t.body) (hi : ∀ t, Item.reg t ∈ items → BodyOK t.body)
    (hw : WellNested (evs items)) (h : run f start end_ items mts = some r) : WellNested r.2 := by
  rw [wellNested_iff_track] at hw ⊢
  exact run_track f start end_ items mts r hm hi h [] [] hw

/-- Whatever `select(p)` extracts from well-nested content is well nested (each of the six body paths). -/
theorem select_keeps_nesting (s : Sel) (content : List Event) (h : WellNested content) :
    WellNested (select s content) := by
  rw [wellNested_iff_track] at h ⊢
  have hc : Closed content := by
    obtain ⟨k, h1, h2⟩ := track_some_lvl content [] [] h
    simp at h2; subst h2; exact h1
  exact select_neutral s (neutral_of_closed hc h).2 []

/-! ### the concrete matchers of the driver and the law -/

/-- SingleStepStrategy without a positional predicate keeps no state: it is lawful. -/
theorem lawful_single (name : Option Str) (body : List BItem) (h : Hints) :
    Lawful (mkMT (.single name none) body h) := by
  intro st tg at_ u u'
  simp only [mkMT, MT.ofHints, PathSpec.step]
  split <;> rfl

/-- SimplePathStrategy pushes one stack entry per START and pops one per END: it is lawful. -/
theorem lawful_simple (frags : List (List Str)) (body : List BItem) (h : Hints) :
    Lawful (mkMT (.simple frags) body h) := by
  intro st tg at_ u u'
  simp only [mkMT, MT.ofHints, PathSpec.step, simpleStart_tail]

/-- GenericStrategy (predicate-free) pushes one position list per START and pops one per END: it is
    lawful as long as its root entry is in place (a non-empty stack, which a well-nested stream keeps). -/
theorem lawful_generic (steps : List (GAxis × GTest)) (st : PSt) (tg : QName) (at_ : AttrList) (u u' : Bool)
    (h : st.gstack ≠ []) :
    ((PathSpec.generic steps).step ((PathSpec.generic steps).step st (.start tg at_) u).1 (.end_ tg) u').1 = st := by
  simp only [PathSpec.step, genStart]
  cases hg : st.gstack with
  | nil => exact absurd hg h
  | cons top rest => simp [← hg]

/-- A positional predicate counts START events: the END does not undo it, the law fails
    (its counter is per test closure, advanced by every call). -/
theorem positional_not_lawful :
    ¬ Lawful (mkMT (.single none (some 2)) [] ⟨false, false, false⟩) := by
  intro h
  have := h {} ⟨[], ['a']⟩ [] false false
  simp [mkMT, MT.ofHints, PathSpec.step, nameTest] at this

/-! ### non-vacuity: the hypotheses are satisfiable on non-trivial inputs -/

section Examples
def S (c : Char) : Event := .start ⟨[], [c]⟩ []
def E (c : Char) : Event := .end_ ⟨[], [c]⟩
def T (c : Char) : Event := .text [c] false
def noHints : Hints := ⟨false, false, false⟩

/-- `a` → `<w>${select('*')}</w>` -/
def tWrap : MT PSt := mkMT (.single (some ['a']) none) [.ev (S 'w'), .sel .elems, .ev (E 'w')] noHints
/-- `a/b` → `<x/>` (SimplePathStrategy) -/
def tAB : MT PSt := mkMT (.simple [[['a'], ['b']]]) [.ev (S 'x'), .ev (E 'x')] noHints
/-- `b` → `${select('.')}` -/
def tId : MT PSt := mkMT (.single (some ['b']) none) [.sel .self] noHints
/-- `zz` never matches a document over a b c -/
def tNever : MT PSt := mkMT (.single (some ['z', 'z']) none) [.ev (T 'k')] noHints

def doc1 : List (Item PSt) :=
  [.ev (S 'r'), .reg tAB, .reg tWrap, .ev (S 'a'), .ev (S 'b'), .ev (E 'b'), .ev (T 'u'), .ev (E 'a'),
   .ev (S 'b'), .ev (E 'b'), .ev (E 'r')]

/-- both templates fire: `a/b` inside the content window of `a`, then `a` wraps; the `b` outside `a`
    passes through (on the unrepaired code it was replaced: the `a/b` matcher never saw `</a>`) -/
example : render 30 doc1 = some [S 'r', S 'w', S 'x', E 'x', E 'w', S 'b', E 'b', E 'r'] := by decide

/-- the automaton model gives the same, also with `a` unbuffered -/
example : renderL 30 doc1 = render 30 doc1 := by decide
example : renderL 30 (doc1.map fun | .reg t => .reg { t with buffered := false } | x => x) = render 30 doc1 := by
  decide

/-- an identity template fires and leaves the stream unchanged -/
example : render 30 [.ev (S 'r'), .reg tId, .ev (S 'b'), .ev (T 'u'), .ev (E 'b'), .ev (E 'r')]
    = some [S 'r', S 'b', T 'u', E 'b', E 'r'] := by decide

/-- inserting a never-matching template in the middle changes nothing -/
example : render 30 [.ev (S 'r'), .reg tAB, .reg tNever, .reg tWrap, .ev (S 'a'), .ev (S 'b'), .ev (E 'b'),
    .ev (T 'u'), .ev (E 'a'), .ev (S 'b'), .ev (E 'b'), .ev (E 'r')] = render 30 doc1 := by decide

/-- known finding C12-root-context: templates register after the root START has passed, so the
    matcher of `root/a` never sees `<root>` and the `<a>` child of the root is not replaced
    (the XSLT-pattern reading of the path matches it) -/
theorem root_context_not_matched :
    render 30 [.ev (.start ⟨[], ['r', 'o', 'o', 't']⟩ []),
               .reg (mkMT (.simple [[['r', 'o', 'o', 't'], ['a']]]) [.ev (S 'x'), .ev (E 'x')] noHints),
               .ev (S 'a'), .ev (E 'a'), .ev (.end_ ⟨[], ['r', 'o', 'o', 't']⟩)]
      = some [.start ⟨[], ['r', 'o', 'o', 't']⟩ [], S 'a', E 'a', .end_ ⟨[], ['r', 'o', 'o', 't']⟩] := by
  decide

/-- `b` occurs once under `a`: the hypothesis of `once_hint_irrelevant` holds (one hit) and the
    hinted run gives the same output -/
def docOnce (t : MT PSt) : List (Item PSt) :=
  [.ev (S 'a'), .ev (S 'b'), .ev (E 'b'), .ev (T 'u'), .ev (E 'a'), .ev (S 'c'), .ev (E 'c')]
example : (run 30 0 none (docOnce tAB) [tAB, tWrap]).map (fun r => (hitsAt 0 r.1, r.2))
    = some (1, [S 'w', S 'x', E 'x', E 'w', S 'c', E 'c']) := by decide
example : (run 30 0 none (docOnce tAB) [onceAt tAB, tWrap]).map (·.2)
    = (run 30 0 none (docOnce tAB) [tAB, tWrap]).map (·.2) := by decide

/-- the hypotheses of `buffer_hint_irrelevant` on a document with two firing templates, one of them
    positional (`*[2]`): same output with the first template unbuffered -/
def tPos : MT PSt := mkMT (.single none (some 2)) [.ev (S 'z'), .ev (E 'z')] noHints
def docBuf : List (Item PSt) := [.ev (S 'a'), .ev (T 'u'), .ev (S 'b'), .ev (E 'b'), .ev (E 'a'), .ev (S 'c'), .ev (E 'c')]
example : LazyOK ({ tWrap with buffered := false } : MT PSt) := by
  refine ⟨?_, fun _ => ?_⟩
  · intro st; simp [tWrap, mkMT, MT.ofHints, trackB, track, S, E]
  · simp [OneSel, tWrap, mkMT, MT.ofHints, splitBody, NoSel]
example : Neutral (evs docBuf) := by
  intro st; simp [docBuf, evs, track, S, E, T]
example : (runL 30 .idle docBuf [{ tWrap with buffered := false }, tPos]).map (·.2.2)
    = (run 30 0 none docBuf [tWrap, tPos]).map (·.2) := by decide
example : (run 30 0 none docBuf [tWrap, tPos]).map (·.2) = some [S 'w', S 'z', E 'z', E 'w', S 'c', E 'c'] := by decide

/-- the hypotheses of `identity_body_is_identity` and `pipeline_stages` on `doc1`'s templates -/
example : OKt tWrap ∧ OKt tAB ∧ FlagFree tId ∧ IdentityBody tId := by
  refine ⟨⟨?_, fun _ _ _ _ => rfl⟩, ⟨?_, fun _ _ _ _ => rfl⟩, fun _ _ _ _ => rfl, rfl⟩
  · intro st; simp [tWrap, mkMT, MT.ofHints, trackB, track, S, E]
  · intro st; simp [tAB, mkMT, MT.ofHints, trackB, track, S, E]
def docId : List (Item PSt) :=
  [.ev (S 'a'), .ev (S 'b'), .ev (E 'b'), .ev (T 'u'), .ev (E 'a'), .ev (S 'b'), .ev (E 'b')]
example : (run 40 0 none docId (ins tId 1 [tAB, tWrap])).map (·.2) = (run 40 0 none docId [tAB, tWrap]).map (·.2) := by
  decide
example : (run 40 0 none docId [tAB, tWrap]).map (·.2) = some [S 'w', S 'x', E 'x', E 'w', S 'b', E 'b'] := by decide

/-- the specification on a small forest: `<a><b/>u</a><b/>` under `a/b → <x/>` -/
def forest1 : List Node :=
  [.elem ⟨[], ['a']⟩ [] [.elem ⟨[], ['b']⟩ [] [], .leaf (T 'u')], .elem ⟨[], ['b']⟩ [] []]
example : specList tAB {} [] forest1 = [S 'a', S 'x', E 'x', T 'u', E 'a', S 'b', E 'b'] := by decide
example : (run 30 0 (some 1) (evItems (flattenList forest1)) [tAB]).map (·.2) = some (specList tAB {} [] forest1) := by
  decide
example : StageOK tAB ∧ StageOK tWrap := by
  refine ⟨⟨rfl, rfl, lawful_simple _ _ _, fun _ _ _ _ => rfl, ?_⟩, ⟨rfl, rfl, lawful_single _ _ _, fun _ _ _ _ => rfl, ?_⟩⟩
  · intro st; simp [tAB, mkMT, MT.ofHints, trackB, track, S, E]
  · intro st; simp [tWrap, mkMT, MT.ofHints, trackB, track, S, E]
/-- the two stages of `[a/b → <x/>, a → <w>*</w>]` on `forest1`, spelled out -/
example : specList tWrap {} [] [.elem ⟨[], ['a']⟩ [] [.elem ⟨[], ['x']⟩ [] [], .leaf (T 'u')], .elem ⟨[], ['b']⟩ [] []]
    = [S 'w', S 'x', E 'x', E 'w', S 'b', E 'b'] := by decide
example : (run 40 0 (some 2) (evItems (flattenList forest1)) [tAB, tWrap]).map (·.2)
    = some [S 'w', S 'x', E 'x', E 'w', S 'b', E 'b'] := by decide
example : SlotAt 0 tAB ({} : PSt) [] [tAB] := ⟨tAB, rfl, Shape.refl _, rfl, rfl⟩

example : NeverFires (σ := PSt) { step := fun st _ _ => (st, false), st := {}, body := [] } := fun _ _ _ => rfl
example : BodyOK tWrap.body := by
  intro st; simp [tWrap, mkMT, MT.ofHints, trackB, track, S, E]
example : WellNested (evs doc1) := by decide
end Examples

/-! ### the real matcher: `Path(text).test(ignore_context=True)` of the C05/C17 path model

  `mkReal paths ns vs body hints` (Model/MatchReal.lean) is the entry `MatchDirective` registers: the
  closure of the path model (`pathTest … true`: strategy per location path as `Path.__init__` picks it,
  `_multi` for unions), verdict `result is True`.  The theorems above are parametric in the matcher;
  here the parameter is discharged. -/

open Genshi.Path in
/-- **The filter does not look inside a matcher.**  Two item lists and two template lists — over
    *different* matcher state types — that are related slot by slot by a simulation (`TRel`: a relation
    between the matcher states that every step on a START/END keeps, with equal verdicts; equal body
    and hints) are treated alike: both runs fail, or both succeed with the same output and related
    template lists.  For every stream, window and fuel. -/
theorem matcher_simulation {σ τ : Type} (f s : Nat) (en : Option Nat) {X : List (Item σ)} {Y : List (Item τ)}
    {A : List (MT σ)} {B : List (MT τ)} (hX : IRel X Y) (hA : LRel A B) :
    ResRel (run f s en X A) (run f s en Y B) :=
  run_rel f s en hX hA

open Genshi.Path in
/-- The real closure never reads `updateonly` — for every path, positional or not, every strategy.
    So `pipeline_stages`, `identity_body_is_identity`, `lazy_eq_eager` and `buffer_hint_irrelevant`
    (which ask `FlagFree` only) hold for lists of real templates as they stand. -/
theorem real_matcher_flagfree (paths : List LocPath) (ns : NsMap) (vs : Vars) (body : List BItem) (h : Hints)
    (force : Option Strategy) : FlagFree (mkReal paths ns vs body h force) :=
  real_flagFree ns vs paths body h force

open Genshi.Path in
theorem real_templates_okt (ns : NsMap) (vs : Vars) (d : Decl) (hb : BodyOK d.body) : OKt (d.real ns vs) :=
  ⟨hb, real_flagFree ns vs d.paths d.body d.hints d.force⟩

open Genshi.Path in
/-- **Lawful up to simulation.**  For a union of location paths without position tests (`PathsOk`) the
    real closure is simulated by a machine (`mkAbs`: per path the position machine `aStep` of C05 for
    GenericStrategy, the strategy itself for SingleStep/SimplePath; `_multi` on top) that obeys the law
    "the END of an element undoes its START" in *every* state, ignores `updateonly`, and is not moved
    by events other than START and END. -/
theorem real_matcher_lawful_abstraction (paths : List LocPath) (ns : NsMap) (vs : Vars) (body : List BItem) (h : Hints)
    (force : Option Strategy) (hok : PathsOk ns vs paths force) :
    TRel (mkReal paths ns vs body h force) (mkAbs ns vs paths body h force) ∧
    Lawful (mkAbs ns vs paths body h force) ∧ FlagFree (mkAbs ns vs paths body h force) ∧
    LeafFree (mkAbs ns vs paths body h force) :=
  ⟨real_trel ns vs paths body h force hok, abs_lawful ns vs paths body h force hok,
   abs_flagFree ns vs paths body h force, abs_leafFree ns vs paths body h force hok⟩

open Genshi.Path in
/-- **The lawful subset is static and decidable per path**: GenericStrategy — the hypotheses of C05
    (`StepsOk`: element axes only, well-formed tests, typed predicates, none of them numeric
    `Expr.numTyped`) on the pattern-mode step list; SingleStepStrategy — no numeric predicate on the
    step; SimplePathStrategy — every path it supports. -/
theorem nonpositional_paths_ok (ns : NsMap) (vs : Vars) (paths : List LocPath) (force : Option Strategy)
    (h : ∀ p ∈ paths, PatternOk ns vs force p) : PathsOk ns vs paths force :=
  pathsOk_of_patternOk ns vs paths force h

open Genshi.Path in
/-- **filter_is_chain_of_rewrites for real templates.**  A template list made of `<py:match>`
    declarations without position tests (any union of paths, any strategy), the templates of the window
    `[s, s+k)` without `once`: on every forest the filter is the chain of tree rewrites
    (`specList` of the *real* templates: an element is replaced iff the real closure answers `True` in
    the state reached along the element's ancestors), one rewrite per template, in declaration order. -/
theorem real_filter_is_chain_of_rewrites (ns : NsMap) (vs : Vars) (ds : List Decl) (hok : ∀ d ∈ ds, d.ok ns vs)
    (hb : ∀ d ∈ ds, BodyOK d.body) (k s f : Nat) (forest : List Node) (r : List (MT RSt) × List Event)
    (hns : okList forest = true)
    (hst : ∀ j d, s ≤ j → j < s + k → ds[j]? = some d → d.hints.matchOnce = false) (hlen : s + k ≤ ds.length)
    (h : run f s (some (s + k)) (evItems (flattenList forest)) (ds.map (Decl.real ns vs)) = some r) :
    Chain (ds.map (Decl.real ns vs)) s k forest r.2 :=
  real_run_is_chain ns vs ds hok hb k s f forest r hns hst hlen h

open Genshi.Path in
/-- **Exactly the elements the pattern matcher marks.**  The stage that owns declaration `d` (slot `i`;
    no `once`, no position tests) yields the forest rewritten by marks (`mkKids`): the element whose
    START is the n-th event of a top-level tree is replaced by the body iff the pattern matcher of the
    path model — `Path(text).test(ignore_context=True)` started afresh on that tree and shown every
    event (`patternMarks`, the run C05 `pattern_matches_eq_xp` is about) — reports `True` at that
    event; all other events pass.  Top-level trees are the children of the template's root after the
    declarations: the root itself is not shown to the matcher (known finding C12-root-context). -/
theorem real_template_rewrites_marked_elements (ns : NsMap) (vs : Vars) (ds : List Decl) (hok : ∀ d ∈ ds, d.ok ns vs)
    (i : Nat) (d : Decl) (hd : ds[i]? = some d) (ho : d.hints.matchOnce = false)
    (f : Nat) (forest : List Node) (r : List (MT RSt) × List Event) (hns : okList forest = true)
    (h : run f i (some (i + 1)) (evItems (flattenList forest)) (ds.map (Decl.real ns vs)) = some r) :
    r.2 = specList (d.real ns vs) (d.real ns vs).st [] forest ∧
    r.2 = (mkKids d.body (!d.hints.notRecursive) forest (forest.flatMap (patternMarks d.paths ns vs d.force))).1 :=
  real_stage_is_marks ns vs ds hok i d hd ho f forest r hns h

open Genshi.Path in
/-- **The marked elements are the XPath matches** (C05 `pattern_matches_eq_xp` in the vocabulary of the
    previous theorem).  For a path `s0/rest` without position tests and without a leading `.` under
    GenericStrategy, and a tree `top`: the marks are the truth values of the matcher's results, and the
    event of a node `x` is marked iff `descendant-or-self::s0/rest` reaches `x` from the top of the tree
    in the reference semantics (`Ref.reach`) — the XSLT-pattern reading of the path inside `top`. -/
theorem marked_elements_are_xpath_matches (s0 : Step) (rest : LocPath) (ns : NsMap) (vs : Vars)
    (hp : StepsOk ns vs (s0 :: rest)) (hnd : stripDot (s0 :: rest) = s0 :: rest)
    (tag : QName) (attrs : AttrList) (kids : List Node)
    (hcl : (Node.elem tag attrs kids).clean = true)
    (hnodes : AllNodes (NodeFor (s0 :: rest) ns vs) (.elem tag attrs kids)) (x : Ref.LNode) :
    PatternOk ns vs (some .generic) (s0 :: rest) ∧
    patternMarks [s0 :: rest] ns vs (some .generic) (.elem tag attrs kids) =
      (runTest (pathTest [s0 :: rest] true (some .generic)).1 ns vs (pathTest [s0 :: rest] true (some .generic)).2
        (Node.elem tag attrs kids).flatten).map Val.truthy ∧
    selB (runTest (pathTest [s0 :: rest] true (some .generic)).1 ns vs
            (pathTest [s0 :: rest] true (some .generic)).2 (Node.elem tag attrs kids).flatten)
         (eventLocs (.elem tag attrs kids) []) x.loc
      = Ref.reach ns (toXVars vs) (⟨.descendantOrSelf, s0.test, s0.preds⟩ :: rest)
          ⟨[], .elem tag attrs kids⟩ x := by
  have hs := stepsOk_pattern ns vs s0 rest hp hnd
  have hok : StepsOk ns vs (gSteps (s0 :: rest) true) := by rw [hs.1]; exact hs.2
  exact ⟨hok, patternMarks_truthy ns vs _ hok _,
    Genshi.Props.C05.pattern_matches_eq_xp s0 rest ns vs hp hnd tag attrs kids hcl hnodes x⟩

/-! #### position tests: outside the law -/

section RealExamples
open Genshi.Path

/-- `*[2]` as the parser delivers it -/
def pStar2 : LocPath := [⟨.child, .principal false, [.num (.dec false 2 0)]⟩]

/-- With a position test the law fails for the real closure too: the counter of SingleStepStrategy is
    one per closure and is advanced by every START the closure is shown; the END does not undo it. -/
theorem real_positional_not_lawful : ¬ Lawful (mkReal [pStar2] [] [] [] ⟨false, false, false⟩) := by
  intro h
  have h1 := h (pathTest [pStar2] true).2 ⟨[], ['a']⟩ [] false false
  have h2 := congrArg (fun st : RSt => match st with | [MState.s s] => some s.counters | _ => none) h1
  revert h2
  decide +kernel

/-- **The per-closure counting semantics, made explicit on a witness.**  `*[2]` as a match path does not
    mean "second element child of its parent" (XPath: in `<x><a/></x>` no element is a second child):
    the closure counts the STARTs it is shown, whatever their parents, so the `<a>` — the second START
    of the document below the root — is replaced.  Position tests in match paths are therefore excluded
    from the tree-rewrite theorems by the decidable hypothesis `PatternOk`. -/
theorem real_positional_counts_per_closure :
    render 30 [.ev (S 'r'), .reg (mkReal [pStar2] [] [] [.ev (T 'k')] noHints),
               .ev (S 'x'), .ev (S 'a'), .ev (E 'a'), .ev (E 'x'), .ev (E 'r')]
      = some [S 'r', S 'x', T 'k', E 'x', E 'r'] := by
  decide +kernel

/-- `a//c[@k]`: child `a`, `descendant-or-self::node()`, child `c` with an attribute predicate
    (GenericStrategy) → `<x/>` -/
def pACk : LocPath := [⟨.child, .localName false ['a'], []⟩, ⟨.descendantOrSelf, .node, []⟩,
  ⟨.child, .localName false ['c'], [.test (.localName true ['k'])]⟩]
def dACk : Decl := { paths := [pACk], body := [.ev (S 'x'), .ev (E 'x')], hints := noHints }
/-- `b` (SingleStepStrategy) → `<w>${select('*')}</w>` -/
def dB : Decl := { paths := [[⟨.child, .localName false ['b'], []⟩]], body := [.ev (S 'w'), .sel .elems, .ev (E 'w')],
                   hints := noHints }
/-- `a/b|c` — a union served by SimplePathStrategy and SingleStepStrategy -/
def dU : Decl := { paths := [[⟨.child, .localName false ['a'], []⟩, ⟨.child, .localName false ['b'], []⟩],
                             [⟨.child, .localName false ['c'], []⟩]], body := [.sel .self], hints := noHints }

theorem stepsOk_pACk : StepsOk [] [] pACk := by
  refine ⟨by decide, ?_, ?_, ?_, ?_⟩ <;> intro s hs <;> simp only [pACk, List.mem_cons, List.not_mem_nil, or_false] at hs <;>
    rcases hs with rfl | rfl | rfl <;> simp [NodeTest.elemWf, Expr.typed, Expr.numTyped, NodeTest.isAttrName, NodeTest.wf, nameOk]

example : dACk.ok [] [] := by
  apply pathsOk_of_patternOk
  intro p hp
  simp only [dACk, List.mem_cons, List.not_mem_nil, or_false] at hp
  subst hp
  have hch : stratOf none pACk = .generic := by decide +kernel
  show PatternOkS [] [] (stratOf none pACk) pACk
  rw [hch]
  exact (by
    have := stepsOk_pattern [] [] _ _ stepsOk_pACk (by decide)
    show StepsOk [] [] (gSteps pACk true)
    rw [show pACk = _ :: _ from rfl, this.1]; exact this.2)

example : dB.ok [] [] ∧ dU.ok [] [] := by
  constructor <;> apply pathsOk_of_patternOk <;> intro p hp
  · simp only [dB, List.mem_cons, List.not_mem_nil, or_false] at hp
    subst hp
    have hch : stratOf none [⟨.child, .localName false ['b'], []⟩] = .single := by decide +kernel
    show PatternOkS [] [] (stratOf none [⟨.child, .localName false ['b'], []⟩]) _
    rw [hch]
    intro s0 hs q hq
    simp [sSteps] at hs; subst hs; simp at hq
  · simp only [dU, List.mem_cons, List.not_mem_nil, or_false] at hp
    rcases hp with rfl | rfl
    · have hch : stratOf none [⟨.child, .localName false ['a'], []⟩, ⟨.child, .localName false ['b'], []⟩] = .simple := by
        decide +kernel
      show PatternOkS [] [] (stratOf none [⟨.child, .localName false ['a'], []⟩, ⟨.child, .localName false ['b'], []⟩]) _
      rw [hch]; trivial
    · have hch : stratOf none [⟨.child, .localName false ['c'], []⟩] = .single := by decide +kernel
      show PatternOkS [] [] (stratOf none [⟨.child, .localName false ['c'], []⟩]) _
      rw [hch]
      intro s0 hs q hq
      simp [sSteps] at hs; subst hs; simp at hq

/-- `<a><b><c k="1"/><c/></b></a><c k="2"/>`: only the first `<c>` is below an `<a>` and has `k` -/
def forestR : List Node :=
  [.elem ⟨[], ['a']⟩ [] [.elem ⟨[], ['b']⟩ [] [.elem ⟨[], ['c']⟩ [(⟨[], ['k']⟩, ['1'])] [], .elem ⟨[], ['c']⟩ [] []]],
   .elem ⟨[], ['c']⟩ [(⟨[], ['k']⟩, ['2'])] []]

/-- the real filter on it, templates `[a//c[@k] → <x/>, b → <w>*</w>]` -/
example : (run 60 0 (some 2) (evItems (flattenList forestR)) [dACk.real [] [], dB.real [] []]).map (·.2)
    = some [S 'a', S 'w', S 'x', E 'x', .start ⟨[], ['c']⟩ [], E 'c', E 'w', E 'a',
            .start ⟨[], ['c']⟩ [(⟨[], ['k']⟩, ['2'])], E 'c'] := by decide +kernel

/-- the marks of `a//c[@k]` on the first tree: the fourth event (the START of the first `<c>`) -/
example : patternMarks dACk.paths [] [] none (forestR.headD (.leaf (T 'u')))
    = [false, false, true, false, false, false, false, false] := by decide +kernel

/-- … and the rewrite by marks is what the filter's first stage yields -/
example : (mkKids dACk.body true forestR (forestR.flatMap (patternMarks dACk.paths [] [] none))).1
    = ((run 60 0 (some 1) (evItems (flattenList forestR)) [dACk.real [] [], dB.real [] []]).map (·.2)).getD [] := by
  decide +kernel

end RealExamples

/-! ### `once` on trees -/

/-- **`once` in the tree specification** (the property's clause "the once hint does not change the
    output when at most one element matches", stated on trees).  Take a lawful template `t` without
    the hint in slot `i` and a forest in which its matcher fires at most once — counted on the tree by
    `countList`: the elements at which the matcher answers True in the state reached along their
    ancestors, below a replaced element only when the template is recursive.  Then the stage of that
    slot *with `once="true"` set* yields the tree rewrite `specList` of the unhinted template.
    (`stage_is_spec_hits`: the ghost counter of the stage rises by exactly `countList`; then
    `once_hint_irrelevant`'s simulation on the window of the stage.) -/
theorem once_on_trees {σ : Type} (t : MT σ) (i : Nat) (hl : Lawful t) (ho : t.once = false) (hr : t.retired = false)
    (f : Nat) (ns : List Node) (M : List (MT σ)) (r : List (MT σ) × List Event) (hns : okList ns = true)
    (ht : M[i]? = some t) (h : run f i (some (i + 1)) (evItems (flattenList ns)) M = some r)
    (hfew : countList t t.st [] ns ≤ 1) :
    ∃ c', run f i (some (i + 1)) (evItems (flattenList ns)) (M.set i (onceAt t)) = some (c', specList t t.st [] ns) :=
  once_stage_is_spec t i hl ho hr f ns M r hns ht h hfew

/-- the stage replaces exactly the elements the tree specification counts -/
theorem stage_counts_matches {σ : Type} (t : MT σ) (b : σ) (i : Nat) (hl : Lawful t) (ho : t.once = false)
    (f : Nat) (ns : List Node) (anc : List Open) (M : List (MT σ)) (r : List (MT σ) × List Event) (k : Nat)
    (hns : okList ns = true) (hslot : SlotAtH i t b anc k M)
    (h : run f i (some (i + 1)) (evItems (flattenList ns)) M = some r) :
    r.2 = specList t b anc ns ∧ SlotAtH i t b anc (k + countList t b anc ns) r.1 :=
  stage_is_spec_hits t b i hl ho f ns anc M r k hns hslot h

/-- non-vacuity: `a/b` fires once in `forest1`; with `once` the stage gives the same rewrite -/
example : countList tAB {} [] forest1 = 1 := by decide
example : (run 30 0 (some 1) (evItems (flattenList forest1)) [onceAt tAB]).map (·.2) = some (specList tAB {} [] forest1) := by
  decide

/-! ### registrations inside the stream -/

/-- **A template registered later applies only from that point on.**  For a closed segment `A` of the
    stream (which may itself contain registrations), a registration of `t` and any rest `B`: the filter
    over `A · reg t · B` is the filter over `A` with the list as it stands — output and resulting list
    do not depend on `t` or `B` — followed by the filter over `B` with `t` appended to that list. -/
theorem late_registration_applies_from_there_on {σ : Type} (f s : Nat) (en : Option Nat) (A : List (Item σ)) (t : MT σ)
    (B : List (Item σ)) (M : List (MT σ)) (r : List (MT σ) × List Event) (hcl : Closed (evs A))
    (h : run f s en (A ++ .reg t :: B) M = some r) :
    ∃ r1 r2, run f s en A M = some r1 ∧ run f s en B (r1.1 ++ [t]) = some r2 ∧ r = (r2.1, r1.2 ++ r2.2) :=
  run_reg_split f s en A t B M r hcl h

/-- **lazy_eq_eager with registrations inside the stream** (`Segmented`: the registrations sit between
    closed, well-nested, registration-free segments — `py:match` declarations that are children of the
    root, before or between the content).  The automaton honouring `buffer="false"` yields what the
    eager filter yields, for templates registered before the stream and inside it alike. -/
theorem lazy_eq_eager_late {σ : Type} (items : List (Item σ)) (hseg : Segmented items) (f : Nat) (mts : List (MT σ))
    (r : List (MT σ) × List Event) (hok : ∀ t ∈ mts, LazyOK t) (hreg : ∀ t, Item.reg t ∈ items → LazyOK t)
    (h : run f 0 none items mts = some r) (F : Nat) (hF : f ≤ F) :
    runL F .idle items mts = some (.idle, r.1, r.2) :=
  lazy_eq_eager_segmented items hseg f mts r hok hreg h F hF

/-- non-vacuity: a declaration after some content (`<a/>` passes, the `<a/>` after the declaration is wrapped) -/
def docLate : List (Item PSt) := [.ev (S 'a'), .ev (E 'a'), .reg tWrap, .ev (S 'a'), .ev (S 'b'), .ev (E 'b'), .ev (E 'a')]
example : Segmented docLate := by
  refine Segmented.cons [.ev (S 'a'), .ev (E 'a')] tWrap _ ?_ ?_ ?_ (Segmented.last _ ?_ ?_)
  · intro t ht; simp at ht
  · intro st; simp [evs, track, S, E]
  · simp [Closed, evs, lvl, isStart, isEnd, S, E]
  · intro t ht; simp at ht
  · intro st; simp [evs, track, S, E]
example : (run 30 0 none docLate []).map (·.2) = some [S 'a', E 'a', S 'w', S 'b', E 'b', E 'w'] := by decide

/-- **buffer_hint_irrelevant with registrations inside the stream** (`Segmented`: `py:match`
    declarations between closed segments of the template).  Take two streams that differ only in the
    `buffer` hints of the templates they register (`items'`: any assignment of the hint) and two initial
    template lists that differ only in their `buffer` hints; unbuffered bodies call `select()` at most
    once.  The automaton that honours the hints of `items'`/`mts'` yields, given enough fuel, exactly the
    output of the eager filter (every content buffered) over `items`/`mts`, and leaves the same template
    list up to the hints.  Paths are unrestricted (positional predicates included). -/
theorem buffer_hint_irrelevant_late {σ : Type} (items items' : List (Item σ)) (hseg : Segmented items)
    (hitems : items'.map Item.bufOn = items.map Item.bufOn) (f : Nat) (mts mts' : List (MT σ))
    (r : List (MT σ) × List Event) (hsame : mts'.map bufOn = mts.map bufOn)
    (hok : ∀ t ∈ mts', LazyOK t) (hreg : ∀ t, Item.reg t ∈ items' → LazyOK t)
    (h : run f 0 none items mts = some r) :
    ∃ F0 m', m'.map bufOn = r.1.map bufOn ∧ ∀ F, F0 ≤ F → runL F .idle items' mts' = some (.idle, m', r.2) :=
  buffer_hint_irrelevant_seg items items' hseg hitems f mts mts' r hsame hok hreg h

/-- non-vacuity: `docLate` with the late declaration unbuffered (`buffer="false"`, one `select`) -/
def docLateU : List (Item PSt) :=
  [.ev (S 'a'), .ev (E 'a'), .reg { tWrap with buffered := false }, .ev (S 'a'), .ev (S 'b'), .ev (E 'b'), .ev (E 'a')]
example : docLateU.map Item.bufOn = docLate.map Item.bufOn := rfl
example : (runL 30 .idle docLateU []).map (·.2.2) = some [S 'a', E 'a', S 'w', S 'b', E 'b', E 'w'] := by decide

/-! ### select() inside the body is `Path.select` of the path model -/

open Genshi.Path in
/-- **select() returns what the path model's `Path.select` returns** for the six body paths, on every
    START/END/TEXT stream that closes no more than it opened — in particular on the content
    `START · … · END` of a matched element.  By C05 `select_eq_xp_step` (single steps) and
    `select_eq_xp_union` that selection is the XPath node set of the path with the matched element as
    context node (`select_returns_parts` spells it out: the element itself / the children the node test accepts). -/
theorem select_is_path_select (s : Sel) (es : List Event) (k : Nat) (hset : ∀ e ∈ es, isSET e = true)
    (hl : lvl 0 es = some k) :
    (select s es).map Path.Item.ev = Path.select s.paths [] [] es :=
  select_eq_path_select s es k hset hl

example : (select .elems [S 'a', S 'b', E 'b', T 'u', E 'a']).map Path.Item.ev
    = Path.select (Sel.paths .elems) [] [] [S 'a', S 'b', E 'b', T 'u', E 'a'] := by decide +kernel


open Genshi.Path in
/-- **`once` on trees for real templates**: declarations without position tests, the declaration of slot
    `i` without the hint; on a forest in which its real matcher fires at most once (`countList` of the
    real template) the stage with `once="true"` set yields the tree rewrite of the unhinted template. -/
theorem real_once_on_trees (ns : NsMap) (vs : Vars) (ds : List Decl) (hok : ∀ d ∈ ds, d.ok ns vs)
    (i : Nat) (d : Decl) (hd : ds[i]? = some d) (ho : d.hints.matchOnce = false)
    (f : Nat) (forest : List Node) (r : List (MT RSt) × List Event) (hns : okList forest = true)
    (h : run f i (some (i + 1)) (evItems (flattenList forest)) (ds.map (Decl.real ns vs)) = some r)
    (hfew : countList (d.real ns vs) (d.real ns vs).st [] forest ≤ 1) :
    ∃ c', run f i (some (i + 1)) (evItems (flattenList forest)) ((ds.map (Decl.real ns vs)).set i (onceAt (d.real ns vs)))
      = some (c', specList (d.real ns vs) (d.real ns vs).st [] forest) :=
  real_once_stage_is_spec ns vs ds hok i d hd ho f forest r hns h hfew

/-- non-vacuity: `a//c[@k]` fires once in `forestR` -/
example : countList (dACk.real [] []) (dACk.real [] []).st [] forestR = 1 := by decide +kernel

/-! ### the XPath form of the specification: every strategy, unions, whole forests -/

open Genshi.Path in
/-- **The two forms of the specification are one function.**  `xpForest ∘ patternSel` — replace the
    element at LOCATION `loc` of a top-level tree iff the XPath reference semantics says that some
    location path `s0/rest` of the match path, read as the pattern `descendant-or-self::s0/rest` from the
    top of that tree, reaches it (`Ref.reach`) — is `mkKids ∘ patternMarks` — replace the element whose
    START is the n-th EVENT iff the real matcher, run over the tree, answers `True` there.  For every
    union of location paths under the strategy `Path.__init__` picks for each (or a forced one) that
    satisfies the static criterion `PatternXp` (no position tests, no attribute axis, no leading `.`),
    every body, both values of `recursive`, and every forest of leaves and clean element trees. -/
theorem xpath_spec_eq_marks_spec (ns : NsMap) (vs : Vars) (force : Option Strategy) (paths : List LocPath)
    (hp : ∀ p ∈ paths, PatternXp ns vs force p) (body : List BItem) (recursive : Bool) (forest : List Node)
    (ht : ∀ top ∈ forest, TreeFor ns vs paths top) :
    xpForest (patternSel paths ns (toXVars vs)) body recursive forest
      = (mkKids body recursive forest (forest.flatMap (patternMarks paths ns vs force))).1 :=
  (xpForest_eq_mkKids ns vs force paths body recursive forest
    (fun top hm => topOk_of_static ns vs force paths hp top (ht top hm))).symm

open Genshi.Path in
/-- **marked_elements_are_xpath_matches for the default strategy of every path** (and unions).  On a clean
    element tree the verdicts of `Path(text).test(ignore_context=True)` — SingleStepStrategy,
    SimplePathStrategy or GenericStrategy per location path as `Path.__init__` chooses, `_multi` on top —
    are exactly the marks of the XPath pattern relation: the event of the node at `loc` is answered `True`
    iff `descendant-or-self::s0/rest` reaches `loc` for one of the location paths; END events are never
    marked.  (C05 `pattern_matches_eq_xp`, `pattern_matches_eq_xp_fragments`; C17 `single_eq_generic` in
    pattern mode; C05 `operands_run` for the union.) -/
theorem marks_are_xpath_matches_every_strategy (ns : NsMap) (vs : Vars) (force : Option Strategy)
    (paths : List LocPath) (hp : ∀ p ∈ paths, PatternXp ns vs force p)
    (tag : QName) (attrs : AttrList) (kids : List Node) (ht : TreeFor ns vs paths (.elem tag attrs kids)) :
    patternMarks paths ns vs force (.elem tag attrs kids)
      = markB (patternSel paths ns (toXVars vs) (.elem tag attrs kids)) (eventLocs (.elem tag attrs kids) []) :=
  patternMarks_eq_markB ns vs force _ paths
    (fun p hpm => patOperand_of_static ns vs force p (hp p hpm) tag attrs kids ht.1 (ht.2 p hpm))

open Genshi.Path in
/-- the XPath criterion lies inside the position-test-free subset: `PatternXp` gives `Decl.ok` -/
theorem xpath_criterion_is_nonpositional (ns : NsMap) (vs : Vars) (d : Decl)
    (hp : ∀ p ∈ d.paths, PatternXp ns vs d.force p) : d.ok ns vs :=
  pathsOk_of_patternOk ns vs d.paths d.force (fun p hpm => patternOk_of_patternXp ns vs d.force p (hp p hpm))

open Genshi.Path in
/-- **A match template replaces exactly the elements its path matches in the XPath sense.**  The stage of
    the filter that owns declaration `d` (slot `i`, no `once`; the other declarations free of position
    tests), on a forest of leaves and clean element trees: its output is the forest in which precisely the
    elements reached by the XSLT-pattern reading of `d`'s path (`patternSel`: `Ref.reach` of
    `descendant-or-self::s0/rest` inside the element's top-level tree, for one of the location paths of
    the union) are replaced by the body — outermost first, inside a replaced element only when the
    template is recursive — and everything else passes unchanged.  For the strategy `Path.__init__` picks
    for every location path (SingleStep, SimplePath, Generic) as well as a forced one. -/
theorem real_template_rewrites_xpath_matches (ns : NsMap) (vs : Vars) (ds : List Decl) (hok : ∀ d ∈ ds, d.ok ns vs)
    (i : Nat) (d : Decl) (hd : ds[i]? = some d) (ho : d.hints.matchOnce = false)
    (hp : ∀ p ∈ d.paths, PatternXp ns vs d.force p)
    (f : Nat) (forest : List Node) (r : List (MT RSt) × List Event) (hns : okList forest = true)
    (ht : ∀ top ∈ forest, TreeFor ns vs d.paths top)
    (h : run f i (some (i + 1)) (evItems (flattenList forest)) (ds.map (Decl.real ns vs)) = some r) :
    r.2 = xpForest (patternSel d.paths ns (toXVars vs)) d.body (!d.hints.notRecursive) forest := by
  rw [(real_stage_is_marks ns vs ds hok i d hd ho f forest r hns h).2]
  exact (xpath_spec_eq_marks_spec ns vs d.force d.paths hp d.body _ forest ht).symm

section XpExamples
open Genshi.Path

/-- `a/b` as SimplePathStrategy sees it: one bound fragment -/
def fragsAB : List Frag := [⟨[.localName false ['a'], .localName false ['b']], [0, 0], none, false⟩]

theorem patternXp_dU : ∀ p ∈ dU.paths, PatternXp [] [] dU.force p := by
  intro p hp
  simp only [dU, List.mem_cons, List.not_mem_nil, or_false] at hp
  rcases hp with rfl | rfl
  · have hch : stratOf none [⟨.child, .localName false ['a'], []⟩, ⟨.child, .localName false ['b'], []⟩] = .simple := by
      decide +kernel
    unfold PatternXp
    rw [show dU.force = none from rfl, hch]
    exact ⟨fragsAB, Frags.fragsOk_of_B _ (by decide), by decide, by decide⟩
  · have hch : stratOf none [⟨.child, .localName false ['c'], []⟩] = .single := by decide +kernel
    unfold PatternXp
    rw [show dU.force = none from rfl, hch]
    refine ⟨_, rfl, by simp, ?_, ?_, ?_, ?_⟩ <;> intro s hs <;> simp only [List.mem_cons, List.not_mem_nil, or_false] at hs <;>
      subst hs <;> simp [NodeTest.elemWf]

theorem patternXp_dACk : ∀ p ∈ dACk.paths, PatternXp [] [] dACk.force p := by
  intro p hp
  simp only [dACk, List.mem_cons, List.not_mem_nil, or_false] at hp
  subst hp
  have hch : stratOf none pACk = .generic := by decide +kernel
  unfold PatternXp
  rw [show dACk.force = none from rfl, hch]
  exact ⟨stepsOk_pACk, by decide⟩

/-- the trees of `forestR` are clean, and `@k` can be evaluated on every node -/
theorem treeFor_forestR : ∀ top ∈ forestR, TreeFor [] [] dACk.paths top := by
  intro top ht
  simp only [forestR, List.mem_cons, List.not_mem_nil, or_false] at ht
  rcases ht with rfl | rfl <;> refine ⟨by decide, ?_⟩ <;> intro p hp <;>
    simp only [dACk, List.mem_cons, List.not_mem_nil, or_false] at hp <;> subst hp <;>
    simp [AllNodes, AllList, NodeFor, nodeOk, tagsOk, attrsOk, qnOk, pACk, Expr.absentFree, nodeEvent] <;> decide

/-- the location form on `forestR`: the first `<c>` (inside `<a>`, with `k`) is replaced -/
example : xpForest (patternSel dACk.paths [] (toXVars [])) dACk.body true forestR
    = [S 'a', S 'b', S 'x', E 'x', .start ⟨[], ['c']⟩ [], E 'c', E 'b', E 'a',
       .start ⟨[], ['c']⟩ [(⟨[], ['k']⟩, ['2'])], E 'c'] := by decide +kernel

/-- … which is what `xpath_spec_eq_marks_spec` says the mark form gives -/
example : xpForest (patternSel dACk.paths [] (toXVars [])) dACk.body true forestR
    = (mkKids dACk.body true forestR (forestR.flatMap (patternMarks dACk.paths [] [] none))).1 :=
  xpath_spec_eq_marks_spec [] [] none dACk.paths patternXp_dACk dACk.body true forestR treeFor_forestR

/-- the union `a/b|c` (SimplePathStrategy | SingleStepStrategy) marks `<b>` under `<a>` and both `<c>` -/
example : patternMarks dU.paths [] [] none (forestR.headD (.leaf (T 'u')))
    = [false, true, true, false, true, false, false, false] := by decide +kernel

end XpExamples

/-! ### `once` as a tree rewrite of its own -/

/-- **`once="true"` replaces the first match in document order — and only that** (any number of matching
    elements).  The stage of a lawful template with the hint (slot `i`, live, in sync with the open
    ancestors `anc`), on every forest: the output is `onceList` — the first element, in document order, at
    which the matcher fires in the state reached along its ancestors is replaced by the body instantiated
    with START · its content as it stands · END (the template is retired before the content is matched,
    so nothing inside is replaced, whatever `recursive` says); every event before, inside and after it
    passes unchanged.  Afterwards the slot is retired if an element matched, and otherwise back in the
    state it had.  (`once_on_trees` is the special case of at most one match, where this is `specList`.) -/
theorem once_replaces_first_match {σ : Type} (t : MT σ) (b : σ) (i : Nat) (hl : Lawful t) (ho : t.once = true)
    (f : Nat) (ns : List Node) (anc : List Open) (M : List (MT σ)) (r : List (MT σ) × List Event)
    (hns : okList ns = true) (hslot : SlotAt i t b anc M)
    (h : run f i (some (i + 1)) (evItems (flattenList ns)) M = some r) :
    r.2 = (onceList t b anc ns).1 ∧
      (if (onceList t b anc ns).2 then RetAt i r.1 else SlotAt i t b anc r.1) :=
  once_stage_is_onceList t b i hl ho f ns anc M r hns hslot h

section OnceExamples
/-- `b` → `<x/>`, once -/
def tBonce : MT PSt := mkMT (.single (some ['b']) none) [.ev (S 'x'), .ev (E 'x')] ⟨false, true, false⟩
/-- `<a><c/><b><b/></b></a><b/>`: three elements match `b` -/
def forestB : List Node :=
  [.elem ⟨[], ['a']⟩ [] [.elem ⟨[], ['c']⟩ [] [], .elem ⟨[], ['b']⟩ [] [.elem ⟨[], ['b']⟩ [] []]], .elem ⟨[], ['b']⟩ [] []]
example : countList tBonce {} [] forestB = 3 := by decide
/-- only the first `<b>` (document order) is replaced -/
example : onceList tBonce {} [] forestB = ([S 'a', S 'c', E 'c', S 'x', E 'x', E 'a', S 'b', E 'b'], true) := by decide
example : (run 30 0 (some 1) (evItems (flattenList forestB)) [tBonce]).map (·.2) = some (onceList tBonce {} [] forestB).1 := by
  decide
example : SlotAt 0 tBonce ({} : PSt) [] [tBonce] := ⟨tBonce, rfl, Shape.refl _, rfl, rfl⟩
end OnceExamples

open Genshi.Path in
/-- **The same for real templates** (`<py:match path=… once="true">`, paths without position tests, any
    union, any strategy): the stage yields the forest with the first element — document order — at which
    `Path(text).test(ignore_context=True)` answers `True` replaced by the body, nothing else. -/
theorem real_once_replaces_first_match (ns : NsMap) (vs : Vars) (ds : List Decl) (hok : ∀ d ∈ ds, d.ok ns vs)
    (i : Nat) (d : Decl) (hd : ds[i]? = some d) (ho : d.hints.matchOnce = true)
    (f : Nat) (forest : List Node) (r : List (MT RSt) × List Event) (hns : okList forest = true)
    (h : run f i (some (i + 1)) (evItems (flattenList forest)) (ds.map (Decl.real ns vs)) = some r) :
    r.2 = (onceList (d.real ns vs) (d.real ns vs).st [] forest).1 :=
  real_once_stage_is_onceList ns vs ds hok i d hd ho f forest r hns h

/-- non-vacuity: `a//c[@k]` with `once` on `forestR` doubled — two matches, the first one replaced -/
example : (onceList ({ dACk with hints := ⟨false, true, false⟩ : Decl }.real [] [])
      ({ dACk with hints := ⟨false, true, false⟩ : Decl }.real [] []).st [] (forestR ++ forestR)).1
    = ((run 90 0 (some 1) (evItems (flattenList (forestR ++ forestR)))
        [{ dACk with hints := ⟨false, true, false⟩ : Decl }.real [] []]).map (·.2)).getD [] := by decide +kernel

open Genshi.Path in
/-- **`once="true"` replaces the first XPath match in document order.**  The stage that owns a declaration
    `d` with the hint (paths under the static criterion `PatternXp`, the other declarations free of position
    tests), on a forest of leaves and clean element trees: the output is `xpOnceForest (patternSel …)` — the
    first element, in document order, that the XSLT-pattern reading of `d`'s path reaches (`Ref.reach` of
    `descendant-or-self::s0/rest` inside its top-level tree, for one of the location paths) is replaced by
    the body, its content as it stands; everything else passes unchanged. -/
theorem real_once_replaces_first_xpath_match (ns : NsMap) (vs : Vars) (ds : List Decl) (hok : ∀ d ∈ ds, d.ok ns vs)
    (i : Nat) (d : Decl) (hd : ds[i]? = some d) (ho : d.hints.matchOnce = true)
    (hp : ∀ p ∈ d.paths, PatternXp ns vs d.force p)
    (f : Nat) (forest : List Node) (r : List (MT RSt) × List Event) (hns : okList forest = true)
    (ht : ∀ top ∈ forest, TreeFor ns vs d.paths top)
    (h : run f i (some (i + 1)) (evItems (flattenList forest)) (ds.map (Decl.real ns vs)) = some r) :
    r.2 = (xpOnceForest (patternSel d.paths ns (toXVars vs)) d.body forest).1 :=
  real_once_stage_is_xpOnce ns vs ds hok i d hd ho hp f forest r hns ht h

open Genshi.Path in
/-- non-vacuity: `a//c[@k]` with `once` on `forestR ++ forestR` (two XPath matches): the first is replaced -/
example : xpOnceForest (patternSel dACk.paths [] (toXVars [])) dACk.body (forestR ++ forestR)
    = ([S 'a', S 'b', S 'x', E 'x', .start ⟨[], ['c']⟩ [], E 'c', E 'b', E 'a',
        .start ⟨[], ['c']⟩ [(⟨[], ['k']⟩, ['2'])], E 'c'] ++ flattenList forestR, true) := by decide +kernel

/-! ### the chain of rewrites with `once` templates among them -/

/-- **filter_is_chain_of_rewrites, `once` templates included.**  For every forest and every template list
    whose templates of the window `[s, s+k)` are live, lawful, do not read `updateonly` and have
    well-nested bodies — with or without `once` —: the filter's output is obtained by rewriting the whole
    document with the first template, re-reading the result as a forest, rewriting it with the second, and
    so on (`ChainO`), where the rewrite of a template is `stageOut`: `specList` (every match replaced)
    without the hint, `onceList` (the first match in document order replaced) with it. -/
theorem filter_is_chain_of_rewrites_with_once {σ : Type} (k s f : Nat) (ns : List Node) (M : List (MT σ))
    (r : List (MT σ) × List Event) (hns : okList ns = true)
    (hst : ∀ j t, s ≤ j → j < s + k → M[j]? = some t → StageOKO t) (hlen : s + k ≤ M.length)
    (hok : ∀ t ∈ M, OKt t) (h : run f s (some (s + k)) (evItems (flattenList ns)) M = some r) :
    ChainO M s k ns r.2 :=
  run_is_chainO k s f ns M r hns hst hlen hok h

open Genshi.Path in
/-- **The same for real templates**: any list of `<py:match>` declarations without position tests (any
    union, any strategy, any hints): the filter over the window `[s, s+k)` is the chain of the tree
    rewrites of the declarations in declaration order, `once` declarations rewriting their first match. -/
theorem real_filter_is_chain_of_rewrites_with_once (ns : NsMap) (vs : Vars) (ds : List Decl)
    (hok : ∀ d ∈ ds, d.ok ns vs) (hb : ∀ d ∈ ds, BodyOK d.body) (k s f : Nat) (forest : List Node)
    (r : List (MT RSt) × List Event) (hns : okList forest = true) (hlen : s + k ≤ ds.length)
    (h : run f s (some (s + k)) (evItems (flattenList forest)) (ds.map (Decl.real ns vs)) = some r) :
    ChainO (ds.map (Decl.real ns vs)) s k forest r.2 :=
  real_run_is_chainO ns vs ds hok hb k s f forest r hns hlen h

section ChainOnceExamples
/-- `[b → <x/> once, a → <w>*</w>]` on `forestB`: the first `<b>` becomes `<x/>`, then `<a>` is wrapped -/
example : (run 40 0 (some 2) (evItems (flattenList forestB)) [tBonce, tWrap]).map (·.2)
    = some [S 'w', S 'c', E 'c', S 'x', E 'x', E 'w', S 'b', E 'b'] := by decide
example : stageOut tBonce forestB = [S 'a', S 'c', E 'c', S 'x', E 'x', E 'a', S 'b', E 'b'] := by decide
example : StageOKO tBonce :=
  ⟨rfl, lawful_single _ _ _, fun _ _ _ _ => rfl, by intro st; simp [tBonce, mkMT, MT.ofHints, trackB, track, S, E]⟩
end ChainOnceExamples

/-! ### an attribute step in a union: outside `PatternXp`, and why -/

section UnionAttr
open Genshi.Path
/-- `b/@n` and `b` as the parser delivers them -/
def pBn : LocPath := [⟨.child, .localName false ['b'], []⟩, ⟨.attribute, .localName true ['n'], []⟩]
def pBonly : LocPath := [⟨.child, .localName false ['b'], []⟩]
example : parse "b/@n|b".toList = .ok [pBn, pBonly] := by decide +kernel

/-- **Witness of the known finding C12-union-attribute-operand.**  The union dispatcher `_multi` reports
    one operand per event — the first result that is not `None` —, and `_match` fires on `True` only.  On
    `<b n="1"/>` the operand `b/@n` answers an `Attrs` value, which hides the `True` of the operand `b`:
    with `path="b/@n|b"` the element is NOT replaced although the path matches it (second conjunct: with
    the operands in the other order it is).  So the tree-rewrite-by-XPath theorems exclude the attribute
    axis (`PatternXp`, `StepsOk.na`); the same root as C05-union-attribute-and-owner. -/
theorem union_attribute_operand_masks_match :
    render 30 [.ev (S 'r'), .reg (mkReal [pBn, pBonly] [] [] [.ev (T 'k')] noHints),
               .ev (.start ⟨[], ['b']⟩ [(⟨[], ['n']⟩, ['1'])]), .ev (E 'b'), .ev (E 'r')]
      = some [S 'r', .start ⟨[], ['b']⟩ [(⟨[], ['n']⟩, ['1'])], E 'b', E 'r'] ∧
    render 30 [.ev (S 'r'), .reg (mkReal [pBonly, pBn] [] [] [.ev (T 'k')] noHints),
               .ev (.start ⟨[], ['b']⟩ [(⟨[], ['n']⟩, ['1'])]), .ev (E 'b'), .ev (E 'r')]
      = some [S 'r', T 'k', E 'r'] := by
  constructor <;> decide +kernel
end UnionAttr

end Genshi.Props.C12

/-
  C18 — Safe strings and attribute lists obey their algebra in both
  implementations.  Property theorems only; helper lemmas live in
  `Genshi/Lemmas/Escape.lean`.

  OBLIGATIONS (checked against `Genshi/Audit.lean` by the harness):
    escapePy_eq_spec escapeC_eq_spec escapeC_eq_escapePy escapeC_len_exact
    escC_identity_iff escape_safe_id escape_append unescape_escape
    escape_no_raw add_safe_once radd_safe_once join_safe_once mod_safe_once
    mul_spec attrs_or_keeps_order attrs_or_none_removed attrs_or_nodup_partial
    attrs_or_dup_witness attrs_sub_spec attrs_or_replaces
-/
import Genshi.Lemmas.Escape
namespace Genshi.Props.C18
open Genshi.Escape Genshi.Str

/-- The pure-Python `replace` chain computes the character-wise escape. -/
theorem escapePy_eq_spec (q : Bool) (s : List Char) : escapePy q s = escapeSpec q s :=
  Genshi.Escape.escapePy_eq_spec q s

/-- The C byte scan on the UTF-8 encoding computes the encoding of the
    character-wise escape, for every string of Unicode scalars. -/
theorem escapeC_eq_spec (q : Bool) (s : List Char) :
    (escapeCBytes q (utf8 s)).1 = utf8 (escapeSpec q s) := by
  rw [escapeCBytes_spec, utf8_escapeSpec]

/-- Both implementations agree on all scalar strings. -/
theorem escapeC_eq_escapePy (q : Bool) (s : List Char) :
    (escapeCBytes q (utf8 s)).1 = utf8 (escapePy q s) := by
  rw [escapeC_eq_spec, escapePy_eq_spec]

/-- The pre-computed buffer length is exactly the number of bytes written. -/
theorem escapeC_len_exact (q : Bool) (bs : List Nat) :
    (escapeCBytes q bs).2 = (escapeCBytes q bs).1.length := by
  rw [escapeCBytes_spec]

/-- Exactly `& < >` (and `"` with quotes) are changed. -/
theorem escC_identity_iff (q : Bool) (c : Char) :
    escC q c = [c] ↔ ¬ (c = '&' ∨ c = '<' ∨ c = '>' ∨ (c = '"' ∧ q = true)) := by
  unfold escC
  by_cases h1 : c = '&'
  · subst h1; simp [amp]
  by_cases h2 : c = '<'
  · subst h2; simp [lt]
  by_cases h3 : c = '>'
  · subst h3; simp [gt]
  by_cases h4 : c = '"'
  · subst h4; cases q <;> simp [qt]
  simp [h1, h2, h3, h4]

/-- `escape` leaves safe strings (and `__html__` results) untouched. -/
theorem escape_safe_id (esc : Bool → List Char → List Char) (q : Bool) (s : List Char) :
    escOpnd esc q (.safe s) = s ∧ escOpnd esc q (.html s) = s := ⟨rfl, rfl⟩

/-- Escaping distributes over concatenation (Python implementation). -/
theorem escape_append (q : Bool) (a b : List Char) :
    escapePy q (a ++ b) = escapePy q a ++ escapePy q b := by
  simp [Genshi.Escape.escapePy_eq_spec, escapeSpec]

/-- `unescape` inverts `escape` for every string and both `quotes` settings. -/
theorem unescape_escape (q : Bool) (s : List Char) : unescape (escapePy q s) = s := by
  rw [Genshi.Escape.escapePy_eq_spec]; exact unescape_escapeSpec q s

/-- Escaped text contains no raw `<` or `>` (nor `"` when quotes are escaped). -/
theorem escape_no_raw (q : Bool) (s : List Char) :
    '<' ∉ escapePy q s ∧ '>' ∉ escapePy q s ∧ (q = true → '"' ∉ escapePy q s) := by
  rw [Genshi.Escape.escapePy_eq_spec]
  unfold escapeSpec
  have key : ∀ c : Char, '<' ∉ escC q c ∧ '>' ∉ escC q c ∧ (q = true → '"' ∉ escC q c) := by
    intro c
    unfold escC
    by_cases h1 : c = '&'
    · subst h1; simp [amp]
    by_cases h2 : c = '<'
    · subst h2; simp [lt]
    by_cases h3 : c = '>'
    · subst h3; simp [gt]
    by_cases h4 : c = '"'
    · subst h4; cases q <;> simp [qt]
    simp [h1, h2, h3, h4]
    exact ⟨fun h => h2 h.symm, fun h => h3 h.symm, fun _ h => h4 h.symm⟩
  refine ⟨?_, ?_, ?_⟩
  · simp only [List.mem_flatMap, not_exists, not_and]; intro c _; exact (key c).1
  · simp only [List.mem_flatMap, not_exists, not_and]; intro c _; exact (key c).2.1
  · intro hq; simp only [List.mem_flatMap, not_exists, not_and]; intro c _; exact (key c).2.2 hq

/-- what the algebra says an operand contributes: escaped once iff not safe -/
def once (q : Bool) : Opnd → List Char
  | .plain s => escapeSpec q s
  | .safe s => s
  | .html s => s

theorem escOpnd_py (q : Bool) (o : Opnd) : escOpnd escapePy q o = once q o := by
  cases o <;> simp [escOpnd, once, Genshi.Escape.escapePy_eq_spec]

/-- `Markup + x` : the left operand untouched, the right one escaped exactly once. -/
theorem add_safe_once (self : List Char) (o : Opnd) :
    mAdd escapePy self o = self ++ once true o := by
  simp [mAdd, escOpnd_py]

theorem radd_safe_once (self : List Char) (o : Opnd) :
    mRadd escapePy self o = once true o ++ self := by
  simp [mRadd, escOpnd_py]

theorem join_safe_once (sep : List Char) (q : Bool) (xs : List Opnd) :
    mJoin escapePy sep q xs = Str.join sep (xs.map (once q)) := by
  unfold mJoin; congr 1; apply List.map_congr_left; intro o _; exact escOpnd_py q o

theorem escOpnd_py_fun : escOpnd escapePy true = once true := by
  funext o; exact escOpnd_py true o

/-- `Markup % args`: formatting sees each operand escaped exactly once
    (the result is the same as formatting with the pre-escaped, safe operands). -/
theorem mod_safe_once (fmt : List Char) (o : Opnd) (os : List Opnd)
    (kvs : List (List Char × Opnd)) :
    mMod escapePy fmt (.one o) = mMod (fun _ s => s) fmt (.one (.safe (once true o))) ∧
    mMod escapePy fmt (.tup os) = mMod (fun _ s => s) fmt (.tup (os.map fun o => .safe (once true o))) ∧
    mMod escapePy fmt (.map kvs) =
      mMod (fun _ s => s) fmt (.map (kvs.map fun p => (p.1, .safe (once true p.2)))) := by
  refine ⟨?_, ?_, ?_⟩
  · unfold mMod; split
    · rfl
    · simp only [escOpnd_py_fun]; rfl
  · unfold mMod; split
    · rfl
    · simp only [escOpnd_py_fun, List.map_map]; rfl
  · unfold mMod; split
    · rfl
    · cases kvs with
      | nil => rfl
      | cons kv kvs =>
        simp only [List.isEmpty_cons, Bool.false_eq_true, ↓reduceIte, escOpnd_py_fun,
          List.map_cons, List.map_map]
        rfl

theorem mul_spec (self : List Char) (n : Nat) :
    mMul self n = (List.replicate n self).flatten := by
  induction n with
  | zero => rfl
  | succ n ih => simp [mMul, ih, List.replicate_succ]

/-! ### Attrs -/

private theorem fst_sublist {α β : Type} (f : Name × α → Option (Name × β))
    (hf : ∀ p q, f p = some q → q.1 = p.1) (l : List (Name × α)) :
    ((l.filterMap f).map (·.1)).Sublist (l.map (·.1)) := by
  induction l with
  | nil => simp
  | cons x xs ih =>
    simp only [List.filterMap_cons, List.map_cons]
    cases h : f x with
    | none => exact List.Sublist.cons _ ih
    | some q => simp only [List.map_cons]; rw [hf x q h]; exact List.Sublist.cons_cons _ ih

theorem orKept_sublist (self : Attrs) (attrs : List (Name × Option (List Char))) :
    ((orKept self attrs).map (·.1)).Sublist (self.map (·.1)) := by
  apply fst_sublist
  intro p q h
  split at h
  · simp at h
  · simp at h; rw [← h]

theorem orNew_sublist (self : Attrs) (attrs : List (Name × Option (List Char))) :
    ((orNew self attrs).map (·.1)).Sublist (attrs.map (·.1)) := by
  apply fst_sublist
  intro p q h
  split at h
  · split at h
    · simp at h; rw [← h]
    · simp at h
  · simp at h

theorem orNew_fresh (self : Attrs) (attrs : List (Name × Option (List Char))) (x : Name × List Char)
    (hx : x ∈ orNew self attrs) : self.has x.1 = false ∧ (orRemove attrs).contains x.1 = false := by
  simp only [orNew, List.mem_filterMap] at hx
  obtain ⟨p, _, h⟩ := hx
  split at h
  · split at h
    · rename_i hc
      simp at h; subst h
      simpa using hc
    · simp at h
  · simp at h

/-- names kept from the left operand stay in their order; new names follow in
    the order of the right operand, and none of them was already present -/
theorem attrs_or_keeps_order (self : Attrs) (attrs : List (Name × Option (List Char))) :
    (Attrs.or self attrs).map (·.1) = (orKept self attrs).map (·.1) ++ (orNew self attrs).map (·.1) ∧
    ((orKept self attrs).map (·.1)).Sublist (self.map (·.1)) ∧
    ((orNew self attrs).map (·.1)).Sublist (attrs.map (·.1)) ∧
    (∀ x ∈ orNew self attrs, self.has x.1 = false) :=
  ⟨by simp [Attrs.or], orKept_sublist self attrs, orNew_sublist self attrs,
   fun x hx => (orNew_fresh self attrs x hx).1⟩

/-- a name given the value `None` on the right is absent from the result -/
theorem attrs_or_none_removed (self : Attrs) (attrs : List (Name × Option (List Char)))
    (n : Name) (h : (n, none) ∈ attrs) : (Attrs.or self attrs).has n = false := by
  have hrm : (orRemove attrs).contains n = true := by
    simp only [orRemove, List.contains_iff_mem, List.mem_filterMap]
    exact ⟨(n, none), h, by simp⟩
  simp only [Attrs.or, Attrs.has, List.any_append, Bool.or_eq_false_iff, List.any_eq_false]
  constructor
  · intro x hx
    simp only [orKept, List.mem_filterMap] at hx
    obtain ⟨p, _, hp⟩ := hx
    split at hp
    · simp at hp
    · rename_i hc
      simp at hp; subst hp
      intro hnn; simp at hnn; subst hnn; exact hc hrm
  · intro x hx
    have := (orNew_fresh self attrs x hx).2
    intro hnn; simp at hnn; subst hnn; rw [hrm] at this; exact absurd this (by simp)

/-- a value given on the right replaces the value of a name already present -/
theorem attrs_or_replaces (self : Attrs) (attrs : List (Name × Option (List Char)))
    (n : Name) (v : List Char) (h : (n, v) ∈ orKept self attrs) :
    (∃ sv, (n, sv) ∈ self ∧ v = (lastVal n (orRepl self attrs)).getD sv) := by
  simp only [orKept, List.mem_filterMap] at h
  obtain ⟨p, hp, hq⟩ := h
  split at hq
  · simp at hq
  · simp at hq; obtain ⟨rfl, rfl⟩ := hq; exact ⟨p.2, hp, rfl⟩

/-- no duplicate names, provided neither operand has any (`_partial`: the
    hypothesis on the right operand is needed, see `attrs_or_dup_witness`) -/
theorem attrs_or_nodup_partial (self : Attrs) (attrs : List (Name × Option (List Char)))
    (h1 : (self.map (·.1)).Nodup) (h2 : (attrs.map (·.1)).Nodup) :
    ((Attrs.or self attrs).map (·.1)).Nodup := by
  obtain ⟨he, hk, hn, hd⟩ := attrs_or_keeps_order self attrs
  rw [he, List.nodup_append]
  refine ⟨hk.nodup h1, hn.nodup h2, ?_⟩
  intro a ha b hb hab
  subst hab
  simp only [List.mem_map] at hb
  obtain ⟨x, hx, rfl⟩ := hb
  have := hd x hx
  have hm : x.1 ∈ self.map (·.1) := hk.subset ha
  simp only [Attrs.has, List.any_eq_false] at this
  simp only [List.mem_map] at hm
  obtain ⟨p, hp, hpe⟩ := hm
  exact this p hp (by simp [hpe])

/-- the full statement ("never hold duplicates") is false of the code:
    `Attrs() | [('a','1'),('a','2')]` keeps both pairs -/
theorem attrs_or_dup_witness :
    ¬ ((Attrs.or [] [(['a'], some ['1']), (['a'], some ['2'])]).map (·.1)).Nodup := by
  decide

theorem attrs_sub_spec (self : Attrs) (names : List Name) (n : Name) (v : List Char) :
    (n, v) ∈ Attrs.sub self names ↔ (n, v) ∈ self ∧ n ∉ names := by
  simp [Attrs.sub, List.mem_filter]

/-! ### non-vacuity -/
example : escapePy true ['a', '<', '"', '&'] =
    ['a', '&', 'l', 't', ';', '&', '#', '3', '4', ';', '&', 'a', 'm', 'p', ';'] := by decide
example : unescape (escapePy true ['&', 'l', 't', ';', '<']) = ['&', 'l', 't', ';', '<'] := by decide
example : (escapeCBytes true (utf8 ['é', '<'])).1 = utf8 ['é', '&', 'l', 't', ';'] := by decide
example : Attrs.or [(['h'], ['#']), (['t'], ['x'])] [(['h'], none), (['n'], some ['1'])]
    = [(['t'], ['x']), (['n'], ['1'])] := by decide

end Genshi.Props.C18

/-
  C18 — Safe strings and attribute lists obey their algebra in both
  implementations.  Property theorems only; helper lemmas live in
  `Genshi/Lemmas/Escape.lean`.

  OBLIGATIONS (checked against `Genshi/Audit.lean` by the harness):
    escapePy_eq_spec escapeC_eq_spec escapeC_eq_escapePy escapeC_len_exact
    escC_identity_iff escape_safe_id escape_append unescape_escape
    escape_no_raw escape_output_wf add_safe_once radd_safe_once join_safe_once mod_safe_once
    mul_spec attrs_or_keeps_order attrs_or_none_removed attrs_or_nodup
    attrs_or_dup_repaired attrs_sub_spec attrs_or_replaces
    utf8_decode_roundtrip escapeC_chars_eq_spec impl_escape_agree escape_cls_spec escape_cls_idempotent
    add2_safe_once radd2_safe_once mul2_spec join2_safe_once mod2_safe_once ops_impl_agree
    unescape_plain_and_inverts unescapeFn_spec stripentities_escape striptags_escape plaintext_escape
    attrs_has_iff_get attrs_slice_spec attrs_sub_nodup attrs_or_sub_nodup attrs_totuple_append
    qname_pickle_roundtrip qname_parse ns_getitem_in
    stripentities_keepxml_escape striptags_no_tag attrs_get_or escape2_append unescape_no_entity
    mod2_percent_s striptags_keeps_plain_text striptags_removes_simple_tag mod2_percent_key striptags_re_as_modelled
-/
import Genshi.Lemmas.Escape
import Genshi.Lemmas.MarkupOps
import Genshi.Lemmas.MarkupFmt
import Genshi.Gen.MarkupRe
namespace Genshi.Props.C18
open Genshi.Escape Genshi.Str

/-- The pure-Python `replace` chain computes the character-wise escape. -/
theorem escapePy_eq_spec (q : Bool) (s : List Char) : escapePy q s = escapeSpec q s :=
  Genshi.Escape.escapePy_eq_spec q s

/-- The C byte scan on the UTF-8 encoding computes the encoding of the
    character-wise escape, for every string of Unicode scalars. -/
theorem escapeC_eq_spec (q : Bool) (s : List Char) :
    (escapeCBytes q (utf8 s)).1 = utf8 (escapeSpec q s) := by
  rw [escapeCBytes_spec, utf8_escapeSpec]

/-- Both implementations agree on all scalar strings. -/
theorem escapeC_eq_escapePy (q : Bool) (s : List Char) :
    (escapeCBytes q (utf8 s)).1 = utf8 (escapePy q s) := by
  rw [escapeC_eq_spec, escapePy_eq_spec]

/-- The pre-computed buffer length is exactly the number of bytes written. -/
theorem escapeC_len_exact (q : Bool) (bs : List Nat) :
    (escapeCBytes q bs).2 = (escapeCBytes q bs).1.length := by
  rw [escapeCBytes_spec]

/-- Exactly `& < >` (and `"` with quotes) are changed. -/
theorem escC_identity_iff (q : Bool) (c : Char) :
    escC q c = [c] ↔ ¬ (c = '&' ∨ c = '<' ∨ c = '>' ∨ (c = '"' ∧ q = true)) := by
  unfold escC
  by_cases h1 : c = '&'
  · subst h1; simp [amp]
  by_cases h2 : c = '<'
  · subst h2; simp [lt]
  by_cases h3 : c = '>'
  · subst h3; simp [gt]
  by_cases h4 : c = '"'
  · subst h4; cases q <;> simp [qt]
  simp [h1, h2, h3, h4]

/-- `escape` leaves safe strings (and `__html__` results) untouched. -/
theorem escape_safe_id (esc : Bool → List Char → List Char) (q : Bool) (s : List Char) :
    escOpnd esc q (.safe s) = s ∧ escOpnd esc q (.html s) = s := ⟨rfl, rfl⟩

/-- Escaping distributes over concatenation (Python implementation). -/
theorem escape_append (q : Bool) (a b : List Char) :
    escapePy q (a ++ b) = escapePy q a ++ escapePy q b := by
  simp [Genshi.Escape.escapePy_eq_spec, escapeSpec]

/-- `unescape` inverts `escape` for every string and both `quotes` settings. -/
theorem unescape_escape (q : Bool) (s : List Char) : unescape (escapePy q s) = s := by
  rw [Genshi.Escape.escapePy_eq_spec]; exact unescape_escapeSpec q s

/-- Escaped text contains no raw `<` or `>` (nor `"` when quotes are escaped). -/
theorem escape_no_raw (q : Bool) (s : List Char) :
    '<' ∉ escapePy q s ∧ '>' ∉ escapePy q s ∧ (q = true → '"' ∉ escapePy q s) := by
  rw [Genshi.Escape.escapePy_eq_spec]
  unfold escapeSpec
  have key : ∀ c : Char, '<' ∉ escC q c ∧ '>' ∉ escC q c ∧ (q = true → '"' ∉ escC q c) := by
    intro c
    unfold escC
    by_cases h1 : c = '&'
    · subst h1; simp [amp]
    by_cases h2 : c = '<'
    · subst h2; simp [lt]
    by_cases h3 : c = '>'
    · subst h3; simp [gt]
    by_cases h4 : c = '"'
    · subst h4; cases q <;> simp [qt]
    simp [h1, h2, h3, h4]
    exact ⟨fun h => h2 h.symm, fun h => h3 h.symm, fun _ h => h4 h.symm⟩
  refine ⟨?_, ?_, ?_⟩
  · simp only [List.mem_flatMap, not_exists, not_and]; intro c _; exact (key c).1
  · simp only [List.mem_flatMap, not_exists, not_and]; intro c _; exact (key c).2.1
  · intro hq; simp only [List.mem_flatMap, not_exists, not_and]; intro c _; exact (key c).2.2 hq

/-- Escaped text is well formed for a reader: no raw `<`/`>`, and every `&` begins one of
    the four entities written by `escape`. -/
theorem escape_output_wf (q : Bool) (s : List Char) : entWf 0 (escapePy q s) = true := by
  rw [Genshi.Escape.escapePy_eq_spec]
  unfold escapeSpec
  induction s with
  | nil => simp [entWf]
  | cons c cs ih =>
    simp only [List.flatMap_cons]
    by_cases h1 : c = '&'
    · subst h1; simp [escC, amp, entWf, List.isPrefixOf, ih]
    by_cases h2 : c = '<'
    · subst h2; simp [escC, lt, amp, entWf, List.isPrefixOf, ih]
    by_cases h3 : c = '>'
    · subst h3; simp [escC, gt, lt, amp, entWf, List.isPrefixOf, ih]
    by_cases h4 : c = '"'
    · subst h4; cases q
      · simp [escC, entWf, ih]
      · simp [escC, qt, gt, lt, amp, entWf, List.isPrefixOf, ih]
    · simp [escC, h1, h2, h3, h4, entWf, ih]

/-- what the algebra says an operand contributes: escaped once iff not safe -/
def once (q : Bool) : Opnd → List Char
  | .plain s => escapeSpec q s
  | .safe s => s
  | .html s => s

theorem escOpnd_py (q : Bool) (o : Opnd) : escOpnd escapePy q o = once q o := by
  cases o <;> simp [escOpnd, once, Genshi.Escape.escapePy_eq_spec]

/-- `Markup + x` : the left operand untouched, the right one escaped exactly once. -/
theorem add_safe_once (self : List Char) (o : Opnd) :
    mAdd escapePy self o = self ++ once true o := by
  simp [mAdd, escOpnd_py]

theorem radd_safe_once (self : List Char) (o : Opnd) :
    mRadd escapePy self o = once true o ++ self := by
  simp [mRadd, escOpnd_py]

theorem join_safe_once (sep : List Char) (q : Bool) (xs : List Opnd) :
    mJoin escapePy sep q xs = Str.join sep (xs.map (once q)) := by
  unfold mJoin; congr 1; apply List.map_congr_left; intro o _; exact escOpnd_py q o

theorem escOpnd_py_fun : escOpnd escapePy true = once true := by
  funext o; exact escOpnd_py true o

/-- `Markup % args`: formatting sees each operand escaped exactly once
    (the result is the same as formatting with the pre-escaped, safe operands). -/
theorem mod_safe_once (fmt : List Char) (o : Opnd) (os : List Opnd)
    (kvs : List (List Char × Opnd)) :
    mMod escapePy fmt (.one o) = mMod (fun _ s => s) fmt (.one (.safe (once true o))) ∧
    mMod escapePy fmt (.tup os) = mMod (fun _ s => s) fmt (.tup (os.map fun o => .safe (once true o))) ∧
    mMod escapePy fmt (.map kvs) =
      mMod (fun _ s => s) fmt (.map (kvs.map fun p => (p.1, .safe (once true p.2)))) := by
  refine ⟨?_, ?_, ?_⟩
  · unfold mMod; split
    · rfl
    · simp only [escOpnd_py_fun]; rfl
  · unfold mMod; split
    · rfl
    · simp only [escOpnd_py_fun, List.map_map]; rfl
  · unfold mMod; split
    · rfl
    · simp only [escOpnd_py_fun, List.map_map]; rfl

theorem mul_spec (self : List Char) (n : Nat) :
    mMul self n = (List.replicate n self).flatten := by
  induction n with
  | zero => rfl
  | succ n ih => simp [mMul, ih, List.replicate_succ]

/-! ### Attrs -/

private theorem fst_sublist {α β : Type} (f : Name × α → Option (Name × β))
    (hf : ∀ p q, f p = some q → q.1 = p.1) (l : List (Name × α)) :
    ((l.filterMap f).map (·.1)).Sublist (l.map (·.1)) := by
  induction l with
  | nil => simp
  | cons x xs ih =>
    simp only [List.filterMap_cons, List.map_cons]
    cases h : f x with
    | none => exact List.Sublist.cons _ ih
    | some q => simp only [List.map_cons]; rw [hf x q h]; exact List.Sublist.cons_cons _ ih

theorem orKept_sublist (self : Attrs) (attrs : List (Name × Option (List Char))) :
    ((orKept self attrs).map (·.1)).Sublist (self.map (·.1)) := by
  apply fst_sublist
  intro p q h
  split at h
  · simp at h
  · simp at h; rw [← h]

theorem upsert_names (n : Name) (v : List Char) (acc : Attrs) :
    (upsert n v acc).map (·.1) = if acc.has n then acc.map (·.1) else acc.map (·.1) ++ [n] := by
  induction acc with
  | nil => simp [upsert, Attrs.has]
  | cons x xs ih =>
    obtain ⟨k, w⟩ := x
    by_cases h : k = n
    · subst h; simp [upsert, Attrs.has]
    · simp only [upsert, h, ↓reduceIte, List.map_cons, ih, Attrs.has, List.any_cons]
      have : (k == n) = false := by simpa using h
      simp only [this, Bool.false_or]
      by_cases hx : (xs.any fun p => p.fst == n) = true <;> simp [hx]

/-- invariant of the `new` loop: distinct names, none present on the left, none removed,
    all taken from the right operand -/
def NewInv (self : Attrs) (remove : List Name) (src : List Name) (acc : Attrs) : Prop :=
  (acc.map (·.1)).Nodup ∧
  ∀ x ∈ acc, self.has x.1 = false ∧ remove.contains x.1 = false ∧ x.1 ∈ src

theorem mem_upsert (n : Name) (v : List Char) (acc : Attrs) (x : Name × List Char)
    (hx : x ∈ upsert n v acc) : x ∈ acc ∨ x = (n, v) := by
  induction acc with
  | nil => simp [upsert] at hx; exact Or.inr hx
  | cons y ys ih =>
    obtain ⟨k, w⟩ := y
    by_cases h : k = n
    · simp only [upsert, h, ↓reduceIte, List.mem_cons] at hx
      rcases hx with hx | hx
      · exact Or.inr hx
      · exact Or.inl (List.mem_cons_of_mem _ hx)
    · simp only [upsert, h, ↓reduceIte, List.mem_cons] at hx
      rcases hx with hx | hx
      · exact Or.inl (by simp [hx])
      · rcases ih hx with h' | h'
        · exact Or.inl (List.mem_cons_of_mem _ h')
        · exact Or.inr h'

theorem newInv_step (self : Attrs) (remove : List Name) (src : List Name) (acc : Attrs)
    (p : Name × Option (List Char)) (hp : p.1 ∈ src) (h : NewInv self remove src acc) :
    NewInv self remove src (orNewStep self remove acc p) := by
  unfold orNewStep
  cases hv : p.2 with
  | none => exact h
  | some v =>
    simp only
    split
    · exact h
    · rename_i hc
      simp only [Bool.or_eq_true, not_or, Bool.not_eq_true] at hc
      refine ⟨?_, ?_⟩
      · rw [upsert_names]
        split
        · exact h.1
        · rename_i hn
          rw [List.nodup_append]
          refine ⟨h.1, by simp, ?_⟩
          intro a ha b hb hab
          simp at hb; subst hb; subst hab
          apply hn
          simp only [List.mem_map] at ha
          obtain ⟨y, hy, hye⟩ := ha
          simp only [Attrs.has, List.any_eq_true]
          exact ⟨y, hy, by simp [hye]⟩
      · intro x hx
        rcases mem_upsert _ _ _ _ hx with hx | hx
        · exact h.2 x hx
        · subst hx; exact ⟨hc.1, hc.2, hp⟩

theorem newInv_fold (self : Attrs) (remove : List Name) (src : List Name)
    (ps : List (Name × Option (List Char))) (hsrc : ∀ p ∈ ps, p.1 ∈ src) :
    ∀ acc, NewInv self remove src acc → NewInv self remove src (ps.foldl (orNewStep self remove) acc) := by
  induction ps with
  | nil => intro acc h; exact h
  | cons p ps ih =>
    intro acc h
    simp only [List.foldl_cons]
    exact ih (fun q hq => hsrc q (List.mem_cons_of_mem _ hq)) _
      (newInv_step self remove src acc p (hsrc p (by simp)) h)

theorem orNew_inv (self : Attrs) (attrs : List (Name × Option (List Char))) :
    NewInv self (orRemove attrs) (attrs.map (·.1)) (orNew self attrs) := by
  unfold orNew
  apply newInv_fold
  · intro p hp; exact List.mem_map_of_mem hp
  · exact ⟨by simp, by simp⟩

theorem orNew_fresh (self : Attrs) (attrs : List (Name × Option (List Char))) (x : Name × List Char)
    (hx : x ∈ orNew self attrs) : self.has x.1 = false ∧ (orRemove attrs).contains x.1 = false :=
  ⟨((orNew_inv self attrs).2 x hx).1, ((orNew_inv self attrs).2 x hx).2.1⟩

/-- names kept from the left operand stay in their order; new names follow, each
    once, all taken from the right operand, none of them already present -/
theorem attrs_or_keeps_order (self : Attrs) (attrs : List (Name × Option (List Char))) :
    (Attrs.or self attrs).map (·.1) = (orKept self attrs).map (·.1) ++ (orNew self attrs).map (·.1) ∧
    ((orKept self attrs).map (·.1)).Sublist (self.map (·.1)) ∧
    ((orNew self attrs).map (·.1)).Nodup ∧
    (∀ x ∈ orNew self attrs, x.1 ∈ attrs.map (·.1) ∧ self.has x.1 = false) :=
  ⟨by simp [Attrs.or], orKept_sublist self attrs, (orNew_inv self attrs).1,
   fun x hx => ⟨((orNew_inv self attrs).2 x hx).2.2, (orNew_fresh self attrs x hx).1⟩⟩

/-- a name given the value `None` on the right is absent from the result -/
theorem attrs_or_none_removed (self : Attrs) (attrs : List (Name × Option (List Char)))
    (n : Name) (h : (n, none) ∈ attrs) : (Attrs.or self attrs).has n = false := by
  have hrm : (orRemove attrs).contains n = true := by
    simp only [orRemove, List.contains_iff_mem, List.mem_filterMap]
    exact ⟨(n, none), h, by simp⟩
  simp only [Attrs.or, Attrs.has, List.any_append, Bool.or_eq_false_iff, List.any_eq_false]
  constructor
  · intro x hx
    simp only [orKept, List.mem_filterMap] at hx
    obtain ⟨p, _, hp⟩ := hx
    split at hp
    · simp at hp
    · rename_i hc
      simp at hp; subst hp
      intro hnn; simp at hnn; subst hnn; exact hc hrm
  · intro x hx
    have := (orNew_fresh self attrs x hx).2
    intro hnn; simp at hnn; subst hnn; rw [hrm] at this; exact absurd this (by simp)

/-- a value given on the right replaces the value of a name already present -/
theorem attrs_or_replaces (self : Attrs) (attrs : List (Name × Option (List Char)))
    (n : Name) (v : List Char) (h : (n, v) ∈ orKept self attrs) :
    (∃ sv, (n, sv) ∈ self ∧ v = (lastVal n (orRepl self attrs)).getD sv) := by
  simp only [orKept, List.mem_filterMap] at h
  obtain ⟨p, hp, hq⟩ := h
  split at hq
  · simp at hq
  · simp at hq; obtain ⟨rfl, rfl⟩ := hq; exact ⟨p.2, hp, rfl⟩

/-- the result never holds a name twice (the left operand is an `Attrs` without
    duplicates; nothing is asked of the right operand) -/
theorem attrs_or_nodup (self : Attrs) (attrs : List (Name × Option (List Char)))
    (h1 : (self.map (·.1)).Nodup) : ((Attrs.or self attrs).map (·.1)).Nodup := by
  obtain ⟨he, hk, hn, hd⟩ := attrs_or_keeps_order self attrs
  rw [he, List.nodup_append]
  refine ⟨hk.nodup h1, hn, ?_⟩
  intro a ha b hb hab
  subst hab
  simp only [List.mem_map] at hb
  obtain ⟨x, hx, rfl⟩ := hb
  have := (hd x hx).2
  have hm : x.1 ∈ self.map (·.1) := hk.subset ha
  simp only [Attrs.has, List.any_eq_false] at this
  simp only [List.mem_map] at hm
  obtain ⟨p, hp, hpe⟩ := hm
  exact this p hp (by simp [hpe])

/-- regression witness for the repaired defect (`Attrs() | [('a','1'),('a','2')]` used to
    keep both pairs): one pair, last value -/
theorem attrs_or_dup_repaired :
    Attrs.or [] [(['a'], some ['1']), (['a'], some ['2'])] = [(['a'], ['2'])] := by
  decide

theorem attrs_sub_spec (self : Attrs) (names : List Name) (n : Name) (v : List Char) :
    (n, v) ∈ Attrs.sub self names ↔ (n, v) ∈ self ∧ n ∉ names := by
  simp [Attrs.sub, List.mem_filter]


/-! ## Wave 4: the wider algebra, both implementations (`Genshi.MarkupOps`) -/
section Wave4
open Genshi.MarkupOps

/-- `PyUnicode_FromStringAndSize` reads back what `PyUnicode_AsUTF8AndSize` wrote, for every
    string of Unicode scalars. -/
theorem utf8_decode_roundtrip (s : List Char) : utf8Decode (utf8 s).length (utf8 s) = s :=
  utf8Decode_utf8 s

/-- The C `escape()` end to end — encode, two-pass byte scan, decode — is the character-wise
    escape (on characters, not only on bytes as `escapeC_eq_spec`). -/
theorem escapeC_chars_eq_spec (q : Bool) (s : List Char) : escapeC q s = escapeSpec q s :=
  MarkupOps.escapeC_eq_spec q s

/-- The compiled and the pure-Python escaper give identical results for all strings. -/
theorem impl_escape_agree (q : Bool) (s : List Char) : escOf .c q s = escOf .py q s := by
  rw [escOf_eq_spec, escOf_eq_spec]

/-- `Markup.escape(x, quotes)` on every string operand kind, in both implementations: a safe
    string (never a plain `str`) whose text is the operand escaped once2 iff it was not safe. -/
theorem escape_cls_spec (i : Impl) (q : Bool) (a : Arg) (h : a.stringy = true) :
    ∃ t, escapeCls i (escOf i) q a = .ok (t, once2 q a) ∧ t ≠ .str :=
  escapeCls_string i q a h

/-- escaping the result of `escape` again changes nothing (idempotent on Markup) -/
theorem escape_cls_idempotent (i : Impl) (q q' : Bool) (a : Arg) :
    escapeCls i (escOf i) q' (.markup (once2 q a)) = .ok (.markup, once2 q a) := by
  cases h : once2 q a with
  | nil => simp [escapeCls, Arg.falsy]
  | cons c cs => cases i <;> simp [escapeCls, Arg.falsy]

/-- `Markup + x` in both implementations -/
theorem add2_safe_once (i : Impl) (self : List Char) (a : Arg) (h : a.stringy = true) :
    add i (escOf i) self a = .ok (.markup, self ++ once2 true a) := by
  simp [add, escapeOp_string i true a h, Except.map]

/-- `x + Markup` in both implementations -/
theorem radd2_safe_once (i : Impl) (self : List Char) (a : Arg) (h : a.stringy = true) :
    radd i (escOf i) self a = .ok (.markup, once2 true a ++ self) := by
  simp [radd, escapeOp_string i true a h, Except.map]

/-- `Markup * n` / `n * Markup`: a Markup, `n` copies (none for a negative count) -/
theorem mul2_spec (self : List Char) (n : Int) :
    mul self (.int n) = .ok (.markup, (List.replicate n.toNat self).flatten) := by
  simp [mul, mul_spec]

/-- `sep.join(seq, escape_quotes)` in both implementations -/
theorem join2_safe_once (i : Impl) (sep : List Char) (q : Bool) (xs : List Arg)
    (h : ∀ x ∈ xs, x.stringy = true) :
    join i (escOf i) sep q xs = .ok (.markup, Str.join sep (xs.map (once2 q))) := by
  unfold MarkupOps.join
  rw [mapM_ok _ (once2 q) xs (fun x hx => escapeOp_string i q x (h x hx))]
  rfl

/-- `Markup % args` (single value, tuple, mapping) in both implementations: formatting sees each
    operand escaped exactly once2 — the result is that of formatting the pre-escaped, safe operands. -/
theorem mod2_safe_once (i : Impl) (fmt : List Char) (a : Arg) (os : List Arg) (kvs : List (List Char × Arg))
    (ha : a.stringy = true) (hos : ∀ x ∈ os, x.stringy = true) (hkv : ∀ p ∈ kvs, p.2.stringy = true) :
    MarkupOps.mod i (escOf i) fmt (.one a) = MarkupOps.mod i (fun _ s => s) fmt (.one (.markup (once2 true a))) ∧
    MarkupOps.mod i (escOf i) fmt (.tup os) =
      MarkupOps.mod i (fun _ s => s) fmt (.tup (os.map fun o => .markup (once2 true o))) ∧
    MarkupOps.mod i (escOf i) fmt (.map kvs) =
      MarkupOps.mod i (fun _ s => s) fmt (.map (kvs.map fun p => (p.1, .markup (once2 true p.2)))) := by
  refine ⟨?_, ?_, ?_⟩
  · unfold MarkupOps.mod; split
    · rfl
    · simp only [escapeOp_string i true a ha, escapeOp_markup]
  · unfold MarkupOps.mod; split
    · rfl
    · dsimp only
      rw [mapM_escapeOp i true os hos, mapM_escapeOp_pre]
  · unfold MarkupOps.mod; split
    · rfl
    · dsimp only
      rw [mapM_escapeKV i kvs hkv, mapM_escapeKV_pre]

/-- The two implementations agree on every operator for all string operands. -/
theorem ops_impl_agree (self sep : List Char) (q : Bool) (a : Arg) (xs : List Arg)
    (ha : a.stringy = true) (hxs : ∀ x ∈ xs, x.stringy = true) :
    add .c (escOf .c) self a = add .py (escOf .py) self a ∧
    radd .c (escOf .c) self a = radd .py (escOf .py) self a ∧
    join .c (escOf .c) sep q xs = join .py (escOf .py) sep q xs ∧
    (escapeCls .c (escOf .c) q a).map (·.2) = (escapeCls .py (escOf .py) q a).map (·.2) := by
  refine ⟨?_, ?_, ?_, ?_⟩
  · rw [add2_safe_once _ _ _ ha, add2_safe_once _ _ _ ha]
  · rw [radd2_safe_once _ _ _ ha, radd2_safe_once _ _ _ ha]
  · rw [join2_safe_once _ _ _ _ hxs, join2_safe_once _ _ _ _ hxs]
  · obtain ⟨t1, h1, _⟩ := escapeCls_string .c q a ha
    obtain ⟨t2, h2, _⟩ := escapeCls_string .py q a ha
    simp [h1, h2, Except.map]

/-- `Markup.unescape()` returns a plain `str` and inverts `escape` of either implementation. -/
theorem unescape_plain_and_inverts (i : Impl) (q : Bool) (s : List Char) :
    unescapeM (escOf i q s) = (.str, s) := by
  simp [unescapeM, escOf_eq_spec, unescape_escapeSpec]

/-- `genshi.core.unescape`: a string that is no Markup comes back unchanged, a Markup (or an
    instance of a subclass) as the plain unescaped `str`. -/
theorem unescapeFn_spec (s : List Char) :
    unescapeFn (.str s) = some (.str, s) ∧ unescapeFn (.markup s) = some (.str, unescape s) ∧
    unescapeFn (.msub s) = some (.str, unescape s) := ⟨rfl, rfl, rfl⟩

/-- `stripentities` of escaped text returns the text (both implementations, both `quotes`). -/
theorem stripentities_escape (i : Impl) (q : Bool) (s : List Char) :
    MarkupOps.stripentities false (escOf i q s) = .ok s := by
  simp [MarkupOps.stripentities, escOf_eq_spec, San.stripentities_escape]

/-- escaped text holds no tag: `striptags` leaves it unchanged. -/
theorem striptags_escape (i : Impl) (q : Bool) (s : List Char) :
    striptags (escOf i q s) = escOf i q s := by
  rw [escOf_eq_spec]; exact striptags_escapeSpec q s

/-- `plaintext` of escaped text is the text. -/
theorem plaintext_escape (i : Impl) (q : Bool) (s : List Char) :
    plaintext true (escOf i q s) = .ok s := by
  rw [escOf_eq_spec]
  simp only [plaintext, striptags_escapeSpec]
  simp [MarkupOps.stripentities, San.stripentities_escape]

/-- `name in attrs` iff `attrs.get(name)` finds a value -/
theorem attrs_has_iff_get (a : Attrs) (n : Name) : Attrs.has a n = (Attrs.get a n).isSome :=
  has_eq_get_isSome a n

/-- a slice of an attribute list is a sub-list in order (so it holds no duplicates when the
    list holds none); the full slice is the list -/
theorem attrs_slice_spec (a : Attrs) (i j : Option Int) :
    (attrsSlice a i j).Sublist a ∧ ((a.map (·.1)).Nodup → ((attrsSlice a i j).map (·.1)).Nodup) ∧
    attrsSlice a none none = a :=
  ⟨attrsSlice_sublist a i j, fun h => ((attrsSlice_sublist a i j).map _).nodup h, attrsSlice_all a⟩

/-- `attrs - names` (also with a single string) keeps order and holds no duplicates when
    `attrs` holds none -/
theorem attrs_sub_nodup (a : Attrs) (names : List Name) (n : Name) (h : (a.map (·.1)).Nodup) :
    ((Attrs.sub a names).map (·.1)).Nodup ∧ ((attrsSubStr a n).map (·.1)).Nodup ∧
    Attrs.has (attrsSubStr a n) n = false := by
  refine ⟨((sub_sublist a names).map _).nodup h, ((sub_sublist a [n]).map _).nodup h, ?_⟩
  simp [attrsSubStr, Attrs.sub, Attrs.has]

/-- `(a | b) - names`: duplicate-free for a duplicate-free `a`, and none of `names` is left -/
theorem attrs_or_sub_nodup (a : Attrs) (b : List (Name × Option (List Char))) (names : List Name)
    (h : (a.map (·.1)).Nodup) :
    ((Attrs.sub (Attrs.or a b) names).map (·.1)).Nodup ∧
    ∀ n ∈ names, Attrs.has (Attrs.sub (Attrs.or a b) names) n = false := by
  refine ⟨((sub_sublist _ names).map _).nodup (attrs_or_nodup a b h), ?_⟩
  intro n hn
  simp only [Attrs.has, List.any_eq_false, Attrs.sub, List.mem_filter]
  intro p hp hpn
  simp at hpn hp
  exact hp.2 (hpn ▸ hn)

/-- the text of `totuple()` is the values in order -/
theorem attrs_totuple_append (a b : Attrs) : attrsTotuple (a ++ b) = attrsTotuple a ++ attrsTotuple b := by
  simp [attrsTotuple]

/-- pickling / copying a QName (`__getnewargs__` handed back to `__new__`) gives the same name -/
theorem qname_pickle_roundtrip (s : List Char) : qnameNew (qnameNewArgs (qnameNew s)) = qnameNew s := by
  have hb : lstripBrace ('{' :: lstripBrace s) = lstripBrace s := by
    show lstripBy _ _ = _
    simp only [lstripBy, decide_true, ↓reduceIte]
    exact lstripBrace_idem s
  cases h : splitBrace (lstripBrace s) with
  | some ab =>
    obtain ⟨a, b⟩ := ab
    simp only [qnameNew, qnameNewArgs, h, hb, lstripBrace_idem]
  | none => simp only [qnameNew, qnameNewArgs, h, lstripBrace_idem]

/-- `{ns}local` parses into its parts (the leading brace is optional) -/
theorem qname_parse (ns loc : List Char) (h1 : '}' ∉ ns) (h2 : ns.head? ≠ some '{') :
    qnameNew ('{' :: ns ++ '}' :: loc) = ⟨'{' :: ns ++ '}' :: loc, some ns, loc⟩ ∧
    qnameNew (ns ++ '}' :: loc) = ⟨'{' :: ns ++ '}' :: loc, some ns, loc⟩ := by
  have hh : (ns ++ '}' :: loc).head? ≠ some '{' := by
    cases ns with
    | nil => simp
    | cons c cs => simpa using h2
  have hl : lstripBrace (ns ++ '}' :: loc) = ns ++ '}' :: loc := lstripBrace_of_head _ hh
  have hl2 : lstripBrace ('{' :: ns ++ '}' :: loc) = ns ++ '}' :: loc := by
    show lstripBy _ _ = _
    simp only [lstripBy, decide_true, ↓reduceIte, List.cons_append]
    exact hl
  constructor
  · simp only [qnameNew, hl2, splitBrace_append ns loc h1]
    simp
  · simp only [qnameNew, hl, splitBrace_append ns loc h1]
    simp

/-- `Namespace(uri)[name]` is the QName of that namespace and local name, and belongs to it -/
theorem ns_getitem_in (uri name : List Char) (h1 : '}' ∉ uri) (h2 : uri.head? ≠ some '{') :
    (nsGetItem uri name).ns = some uri ∧ (nsGetItem uri name).loc = name ∧
    nsContains uri (nsGetItem uri name) = true := by
  have := (qname_parse uri name h1 h2).2
  simp [nsGetItem, nsContains, this]

/-- with `keepxmlentities` the entities `escape` writes for `& < >` stay and `&#34;` is read
    back: the result is the text escaped without quotes -/
theorem stripentities_keepxml_escape (i : Impl) (q : Bool) (s : List Char) :
    MarkupOps.stripentities true (escOf i q s) = .ok (escapeSpec false s) := by
  rw [escOf_eq_spec]; exact stripentitiesK_escape q s

/-- `striptags` leaves no tag: in its result no `<` is followed, anywhere later, by a `>` -/
theorem striptags_no_tag (s pre post : List Char) (h : striptags s = pre ++ '<' :: post) : '>' ∉ post :=
  striptags_noTag s pre post h

/-- `get` after `|`: a name given `None` is gone; otherwise the last value given on the right;
    otherwise the value the name had on the left (no hypothesis on either operand) -/
theorem attrs_get_or (a : Attrs) (b : List (Name × Option (List Char))) (n : Name) :
    Attrs.get (Attrs.or a b) n =
      if (orRemove b).contains n then none
      else match lastVal n (somes b) with
        | some v => some v
        | none => Attrs.get a n := by
  by_cases hr : (orRemove b).contains n = true
  · simp only [hr, ↓reduceIte]
    have hmem : (n, none) ∈ b := by
      simp only [orRemove, List.contains_iff_mem, List.mem_filterMap] at hr
      obtain ⟨p, hp, hpe⟩ := hr
      obtain ⟨k, ov⟩ := p
      cases ov with
      | none => simp at hpe; subst hpe; exact hp
      | some v => simp at hpe
    have := attrs_or_none_removed a b n hmem
    rw [has_eq_get_isSome] at this
    cases hg : Attrs.get (Attrs.or a b) n with
    | none => rfl
    | some v => rw [hg] at this; simp at this
  · have hr' : (orRemove b).contains n = false := by simpa using hr
    simp only [hr', Bool.false_eq_true, ↓reduceIte]
    unfold Attrs.or
    rw [get_append, get_orKept a b n hr']
    by_cases hh : a.has n = true
    · have hh2 := hh
      rw [has_eq_get_isSome] at hh2
      obtain ⟨sv, hsv⟩ := Option.isSome_iff_exists.mp hh2
      rw [hsv, lastVal_orRepl a b n hh]
      cases lastVal n (somes b) <;> simp
    · have hh' : a.has n = false := by simpa using hh
      have hg : Attrs.get a n = none := by
        have := hh'; rw [has_eq_get_isSome] at this
        cases hx : Attrs.get a n with
        | none => rfl
        | some v => rw [hx] at this; simp at this
      rw [hg]
      simp only [Option.map_none]
      unfold orNew
      rw [get_orNew_fold a (orRemove b) n hh' hr' b []]
      cases lastVal n (somes b) <;> simp [Attrs.get]

/-- escaping distributes over concatenation in both implementations -/
theorem escape2_append (i : Impl) (q : Bool) (a b : List Char) :
    escOf i q (a ++ b) = escOf i q a ++ escOf i q b := by
  simp [escOf_eq_spec, escapeSpec]

/-- text without `&` holds no entity: `unescape` (method and module function) returns it as it is -/
theorem unescape_no_entity (s : List Char) (h : '&' ∉ s) :
    unescapeM s = (.str, s) ∧ unescapeFn (.markup s) = some (.str, s) := by
  simp [unescapeM, unescapeFn, unescape_no_amp s h]

/-- On the concrete format string `l0 %s l1 %s … ln` (no `%` in the literals), in both
    implementations: `Markup(fmt) % (x1, …, xn)` is the Markup `l0 x1' l1 … xn' ln` where `xi'` is
    `xi` escaped once iff it was not safe; and `Markup('l0 %s l1') % x` likewise for one value. -/
theorem mod2_percent_s (i : Impl) (lits : List (List Char)) (os : List Arg)
    (hl : ∀ l ∈ lits, '%' ∉ l) (hlen : lits.length = os.length + 1) (hos : ∀ x ∈ os, x.stringy = true) :
    MarkupOps.mod i (escOf i) (fmtOf lits) (.tup os) =
      .ok (.markup, interleave lits (os.map (once2 true))) ∧
    (∀ a, os = [a] → MarkupOps.mod i (escOf i) (fmtOf lits) (.one a) =
      .ok (.markup, interleave lits [once2 true a])) := by
  constructor
  · unfold MarkupOps.mod
    rw [parseFmt_fmtOf lits _ [] hl (Nat.lt_succ_self _)]
    dsimp only
    rw [mapM_escapeOp i true os hos]
    simp only [liftErr, List.reverse_nil]
    have := fmtPos_piecesOf lits [] (os.map (once2 true)) (by simpa using hlen)
    simp only [List.nil_append] at this
    simp [this, bind, Except.bind, pure, Except.pure]
  · intro a ha
    subst ha
    unfold MarkupOps.mod
    rw [parseFmt_fmtOf lits _ [] hl (Nat.lt_succ_self _)]
    dsimp only
    rw [escapeOp_string i true a (hos a (by simp))]
    simp only [liftErr, List.reverse_nil]
    have := fmtPos_piecesOf lits [] [once2 true a] (by simpa using hlen)
    simp only [List.nil_append] at this
    simp [this, bind, Except.bind, pure, Except.pure]

/-- `striptags` keeps the text before the first `<` as it is (hence text without `<` entirely) -/
theorem striptags_keeps_plain_text (a b : List Char) (h : '<' ∉ a) :
    striptags (a ++ b) = a ++ striptags b ∧ striptags a = a := by
  refine ⟨striptags_plain_prefix a b h, ?_⟩
  have := striptags_plain_prefix a [] h
  simpa [striptags, stripTagsGo] using this

/-- `striptags` removes a tag `<t>` whose inside holds no `>` and does not begin with `!` -/
theorem striptags_removes_simple_tag (t rest : List Char) (h1 : '>' ∉ t) (h2 : t.head? ≠ some '!') :
    striptags ('<' :: t ++ '>' :: rest) = striptags rest :=
  striptags_simple_tag t rest h1 h2

/-- On the concrete format string `l0 %(k1)s l1 … %(kn)s ln` (no `%` in the literals, no
    parenthesis in the keys), in both implementations: `Markup(fmt) % mapping` is the Markup
    `l0 v1' l1 … vn' ln` where `vi'` is the value of `ki` escaped once iff it was not safe
    (every key present, every value a string operand). -/
theorem mod2_percent_key (i : Impl) (lits ks : List (List Char)) (kvs : List (List Char × Arg))
    (hl : ∀ l ∈ lits, '%' ∉ l) (hk : ∀ k ∈ ks, '(' ∉ k ∧ ')' ∉ k) (hlen : lits.length = ks.length + 1)
    (hkv : ∀ p ∈ kvs, p.2.stringy = true)
    (hin : ∀ k ∈ ks, (lookupKey k (kvs.map fun p => (p.1, once2 true p.2))).isSome) :
    MarkupOps.mod i (escOf i) (fmtOfK lits ks) (.map kvs) =
      .ok (.markup, interleave lits
        (ks.map fun k => (lookupKey k (kvs.map fun p => (p.1, once2 true p.2))).getD [])) := by
  unfold MarkupOps.mod
  rw [parseFmt_fmtOfK lits ks _ [] hl hk hlen (Nat.lt_succ_self _)]
  dsimp only
  rw [mapM_escapeKV i kvs hkv]
  simp only [liftErr, List.reverse_nil]
  have := fmtMap_piecesOfK (kvs.map fun p => (p.1, once2 true p.2)) lits [] ks hlen hin
  simp only [List.nil_append] at this
  simp [this, bind, Except.bind, pure, Except.pure]

/-- The regular expression of `genshi.util.striptags`, as the translator reads it from the code
    on every run, is the one the scanner `matchTag` was written against: `(<!--.*?-->|<[^>]*>)`
    without DOTALL (`afterCommentEnd` stops at a line feed). -/
theorem striptags_re_as_modelled :
    Genshi.Gen.MarkupRe.striptagsDotall = false ∧
    Genshi.Gen.MarkupRe.striptagsShape = ['G', '1', '(', 'L', 'I', 'T', '6', '0', ' ', 'A', 'L', 'T', '(', 'L', 'I', 'T', '3', '3', ' ', 'L', 'I', 'T', '4', '5', ' ', 'L', 'I', 'T', '4', '5', ' ', 'M', 'I', 'N', '{', '0', ',', 'I', 'N', 'F', '}', '(', 'A', 'N', 'Y', ')', ' ', 'L', 'I', 'T', '4', '5', ' ', 'L', 'I', 'T', '4', '5', ' ', 'L', 'I', 'T', '6', '2', '|', 'M', 'A', 'X', '{', '0', ',', 'I', 'N', 'F', '}', '(', 'N', 'O', 'T', 'L', 'I', 'T', '6', '2', ')', ' ', 'L', 'I', 'T', '6', '2', ')', ')'] := by
  decide

end Wave4

/-! ### non-vacuity -/
example : escapePy true ['a', '<', '"', '&'] =
    ['a', '&', 'l', 't', ';', '&', '#', '3', '4', ';', '&', 'a', 'm', 'p', ';'] := by decide
example : unescape (escapePy true ['&', 'l', 't', ';', '<']) = ['&', 'l', 't', ';', '<'] := by decide
example : (escapeCBytes true (utf8 ['é', '<'])).1 = utf8 ['é', '&', 'l', 't', ';'] := by decide
example : Attrs.or [(['h'], ['#']), (['t'], ['x'])] [(['h'], none), (['n'], some ['1'])]
    = [(['t'], ['x']), (['n'], ['1'])] := by decide

/-! ### non-vacuity (wave 4) -/
section Wave4Examples
open Genshi.MarkupOps
example : escapeC true ['é', '<', '"', '😀'] = ['é', '&', 'l', 't', ';', '&', '#', '3', '4', ';', '😀'] := by decide +kernel
example : utf8Decode 7 (utf8 ['a', 'é', '€', '😀']) = ['a', 'é', '€', '😀'] := by decide +kernel
example : add .py (escOf .py) ['<', 'b', '>'] (.msub ['<']) = .ok (.markup, ['<', 'b', '>', '<']) := by decide +kernel
example : radd .c (escOf .c) ['<', 'b', '>'] (.str ['<']) = .ok (.markup, ['&', 'l', 't', ';', '<', 'b', '>']) := by decide +kernel
example : escapeCls .c (escOf .c) true (.msub ['<']) = .ok (.msub, ['<']) ∧
    escapeCls .py (escOf .py) true (.msub ['<']) = .ok (.markup, ['<']) ∧
    escapeCls .py (escOf .py) true (.int 5) = .error .attributeError ∧
    escapeCls .c (escOf .c) true (.int 5) = .ok (.markup, ['5']) := by decide +kernel
example : MarkupOps.join .py (escOf .py) [','] false [.str ['"', '<'], .markup ['<'], .none] =
    .ok (.markup, ['"', '&', 'l', 't', ';', ',', '<', ',']) := by decide +kernel
example : MarkupOps.mod .py (escOf .py) ['%', 's', '|', '%', 'r', '|', '%', '%'] (.tup [.str ['<'], .markup ['<', '\'']]) =
    .ok (.markup, ['&', 'l', 't', ';', '|', '<', 'M', 'a', 'r', 'k', 'u', 'p', ' ', '"', '<', '\'', '"', '>', '|', '%']) := by decide +kernel
example : MarkupOps.mod .c (escOf .c) ['%', '(', 'k', ')', 's', ' ', '%', '(', 'k', ')', 'd'] (.map [(['k'], .str ['<'])]) =
    .error (.raised .typeError) := by decide +kernel
example : MarkupOps.mul ['a', 'b'] (.int (-1)) = .ok (.markup, []) ∧
    MarkupOps.mul ['a', 'b'] (.int 2) = .ok (.markup, ['a', 'b', 'a', 'b']) := by decide
example : striptags ['<', 'b', '>', 'a', '<', '/', 'b', '>', '<', '!', '-', '-', ' ', '>', ' ', '-', '-', '>', 'z', '<'] = ['a', 'z', '<'] := by decide +kernel
example : striptags (['<', '!', '-', '-'] ++ ['\n'] ++ ['>', 'x', '-', '-', '>', 'y']) = ['x', '-', '-', '>', 'y'] := by decide +kernel
example : MarkupOps.stripentities true ['&', 'l', 't', ';', '&', 'h', 'e', 'l', 'l', 'i', 'p', ';', '&', 'f', 'o', 'o', ';', '&', '#', '6', '5', ';'] = .ok ['&', 'l', 't', ';', '…', '&', 'a', 'm', 'p', ';', 'f', 'o', 'o', ';', 'A'] := by decide +kernel
example : MarkupOps.stripentities false ['&', 'l', 't', ';', '&', 'h', 'e', 'l', 'l', 'i', 'p', ';', '&', 'f', 'o', 'o', ';', '&', '#', 'x', '4', '1'] = .ok ['<', '…', 'f', 'o', 'o', 'A'] := by decide +kernel
example : plaintext false (['<', 'b', '>', '1'] ++ ['\n'] ++ ['&', 'l', 't', ';', ' ', '2', '<', '/', 'b', '>']) = .ok ['1', ' ', '<', ' ', '2'] := by decide +kernel
example : qnameNew ['{', '{', 'x', '}', 'a'] = ⟨['{', 'x', '}', 'a'], some ['x'], ['a']⟩ ∧ qnameNew ['a', '{', 'b'] = ⟨['a', '{', 'b'], none, ['a', '{', 'b']⟩ := by
  decide
example : nsContains ['u'] (nsGetItem ['u'] ['a']) = true ∧ nsContains ['a', '}', 'b'] (nsGetItem ['a', '}', 'b'] ['c']) = false := by
  decide
example : attrsSlice [(['a'], ['1']), (['b'], ['2']), (['c'], ['3'])] (some (-2)) none =
    [(['b'], ['2']), (['c'], ['3'])] ∧
    attrsIndex [(['a'], ['1'])] (-1) = .ok (['a'], ['1']) ∧ attrsIndex [(['a'], ['1'])] 1 = .error .indexError := by
  decide
example : attrsTotuple [(['a'], ['1']), (['b'], ['2', '3'])] = ['1', '2', '3'] := by decide
example : Attrs.get (Attrs.or [(['h'], ['#']), (['t'], ['x'])] [(['h'], some ['1']), (['n'], some ['1']), (['h'], some ['2']), (['t'], none)]) ['h'] = some ['2'] := by decide
example : striptags ['<', '<', 'a', '>', 'b', '<'] = ['b', '<'] := by decide
example : MarkupOps.mod .c (escOf .c) (fmtOf [['<', 'b', '>'], ['|'], []]) (.tup [.str ['<'], .msub ['<']]) =
    .ok (.markup, ['<', 'b', '>', '&', 'l', 't', ';', '|', '<']) := by decide +kernel
example : MarkupOps.mod .py (escOf .py) (fmtOfK [['a'], ['|'], []] [['k'], ['j']])
    (.map [(['k'], .str ['<']), (['j'], .markup ['<'])]) =
    .ok (.markup, ['a', '&', 'l', 't', ';', '|', '<']) := by decide +kernel
end Wave4Examples

end Genshi.Props.C18

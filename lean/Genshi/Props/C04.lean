/-
  C04 — Directives implement the documented control-flow semantics.
  Property theorems only; helper lemmas live in `Genshi/Lemmas/Tmpl*.lean`.

  OBLIGATIONS (checked by the harness: every name must be a theorem here, axioms audited):
    order_documented text_directives_are_markup_directives index_is_position
    frames_restored frames_restored_binds choice_stack_restored choose_restores_choice_stack
    outer_variables_kept lookup_after_eq_before render_restores_context
    fuel_irrelevant_impl fuel_irrelevant_doc impl_eq_doc_partial
-/
import Genshi.Lemmas.TmplSimMain
namespace Genshi.Props.C04
open Genshi Genshi.Tmpl

/-! ### the generated directive tables against the documentation -/

/-- The sort key of `_extract_directives` (position in `MarkupTemplate.directives`, regenerated
    from the code on every run) is the documented processing order. -/
theorem order_documented : implOrder = docOrder := by decide

/-- Both text template classes register a sub-list of the markup directives, in the same
    relative order and with the same classes. -/
theorem text_directives_are_markup_directives :
    Gen.Directives.newTextDirectives.Sublist Gen.Directives.markupDirectives ∧
    Gen.Directives.oldTextDirectives = Gen.Directives.newTextDirectives := by decide

/-- `get_directive_index` is the position in the list (what `implIdx` assumes). -/
theorem index_is_position :
    Gen.Directives.markupIndices = List.range Gen.Directives.markupDirectives.length := by decide

/-! ### scoping: frames and choice stack -/

/-- After any directive, sub-stream, loop or template the frame stack is the one before it:
    loop variables, `py:with` bindings and macro parameters are invisible outside.
    (All tasks of the implementation model except the internal assignment phase of `py:with`,
    for which see `frames_restored_binds`.) -/
theorem frames_restored (n : Nat) (t : ITask) (st st' : St) (o : List Event)
    (ht : ∀ bs ds body, t ≠ .binds bs ds body)
    (h : run n t st = .ok (o, st')) : st'.scopes = st.scopes := by
  have a := run_scopes n t st o st' h
  cases t with
  | binds bs ds body => exact absurd rfl (ht bs ds body)
  | flat _ => exact a
  | ev _ => exact a
  | apply _ _ => exact a
  | loop _ _ _ _ => exact a

/-- The assignment phase of `py:with` only touches the frame `py:with` pushed. -/
theorem frames_restored_binds (n : Nat) (bs ds body) (st st' : St) (o : List Event)
    (h : run n (.binds bs ds body) st = .ok (o, st')) : st'.scopes.tail = st.scopes.tail :=
  (run_scopes n _ st o st' h).1

/-- After anything is rendered the choice stack is what it was, except that the matched flag
    of the innermost enclosing `py:choose` may have been set (by a `py:when`/`py:otherwise`). -/
theorem choice_stack_restored (n : Nat) (t : ITask) (st st' : St) (o : List Event)
    (h : run n t st = .ok (o, st')) :
    st'.choice = st.choice ∨
    ∃ c cs, st.choice = c :: cs ∧ c.matched = false ∧ st'.choice = { c with matched := true } :: cs :=
  (run_inv n t st o st' h).1

/-- A `py:choose` (with whatever directives follow it on the element) restores the stack exactly. -/
theorem choose_restores_choice_stack (n : Nat) (e ds body) (st st' : St) (o : List Event)
    (h : run n (.apply (.choose e :: ds) body) st = .ok (o, st')) : st'.choice = st.choice := by
  cases n with
  | zero => simp [run] at h
  | succ n =>
    simp only [run, bind_ok, mapSt_ok] at h
    obtain ⟨v, _, s1, h2, rfl⟩ := h
    rcases (run_inv n _ _ _ _ h2).1 with h3 | ⟨c, cs, h3, _, h4⟩
    · simp only [St.popChoice, h3, List.tail_cons]
    · simp only [List.cons.injEq] at h3
      simp only [St.popChoice, h4, List.tail_cons, h3.2]

/-- A variable of the context data never changes its value, with the single documented
    exception: `py:def` stores the macro under its name (so the name now denotes a macro
    created during this rendering).  Macros are only ever added. -/
theorem outer_variables_kept (n : Nat) (t : ITask) (st st' : St) (o : List Event)
    (h : run n t st = .ok (o, st')) :
    (∃ ms, st'.macros = st.macros ++ ms) ∧
    ∀ x, st'.data.look? x = st.data.look? x ∨
         ∃ i, st.macros.length ≤ i ∧ st'.data.look? x = some (.macro i) :=
  (run_inv n t st o st' h).2

/-- What a name denotes after a directive is what it denoted before it (or a macro defined
    meanwhile): loop, binding and parameter names fall back to their outer value. -/
theorem lookup_after_eq_before (n : Nat) (t : ITask) (st st' : St) (o : List Event)
    (ht : ∀ bs ds body, t ≠ .binds bs ds body)
    (h : run n t st = .ok (o, st')) (x : Name) :
    st'.look x = st.look x ∨ ∃ i, st.macros.length ≤ i ∧ st'.look x = .macro i := by
  have hs := frames_restored n t st st' o ht h
  have hd := (outer_variables_kept n t st st' o h).2 x
  unfold St.look
  rw [hs]
  cases lookFrames st.scopes x with
  | some v => exact Or.inl rfl
  | none =>
    rcases hd with hd | ⟨i, hi, hd⟩
    · exact Or.inl (by simp [hd])
    · exact Or.inr ⟨i, hi, by simp [hd]⟩

/-- Rendering a whole template leaves an empty frame stack and an empty choice stack. -/
theorem render_restores_context (n : Nat) (ns : List TNode) (data : Env) (st' : St) (o : List Event)
    (h : run n (.flat (compileNodes ns)) (St.init data) = .ok (o, st')) :
    st'.scopes = [] ∧ st'.choice = [] := by
  refine ⟨frames_restored n _ _ _ o (by intro _ _ _ hh; cases hh) h, ?_⟩
  rcases choice_stack_restored n _ _ _ o h with h1 | ⟨c, cs, h1, _⟩
  · exact h1
  · simp [St.init] at h1

/-! ### implementation = documentation -/

/-- More fuel never changes an answer of the implementation model (fuel is not an observable). -/
theorem fuel_irrelevant_impl (n m : Nat) (t : ITask) (st : St) (r : IRes)
    (h : run n t st = r) (hr : r ≠ .error .fuel) (hm : n ≤ m) : run m t st = r :=
  run_mono h hr hm

/-- … nor of the documentation semantics. -/
theorem fuel_irrelevant_doc (n m : Nat) (t : DTask) (loc : Env) (st : DSt) (r : DRes)
    (h : doc n t loc st = r) (hr : r ≠ .error .fuel) (hm : n ≤ m) : doc m t loc st = r :=
  doc_mono h hr hm

/-
  Full statement (kept visible):
    for every well-formed template `ns` (py: attributes of one element pairwise distinct, only
    def/when/otherwise/for/if/choose/with/replace in element form) and all data,
      (∃ n, docRender n ns data = r ∧ r ≠ fuel)  ↔  (∃ m, implRender m ns data ≈ r)
    where ≈ is equality on outputs and "both fail" on errors.
  Proved: the direction and case below — whenever the documentation semantics defines an output,
  the implementation model (extraction, attach, directive chain over frames and choice stack,
  flatten) produces exactly that output.  Missing: agreement of failing renders and the converse
  direction (needs the reverse simulation); both are exercised by the correspondence check only.
-/
/-- search: markup -/
theorem impl_eq_doc_partial (ns : List TNode) (data : Env) (n : Nat) (o : List Event)
    (hwf : wfNodes ns = true) (h : docRender n ns data = .ok o) :
    ∃ m, implRender m ns data = .ok o := by
  unfold docRender at h
  simp only [bind_ok, pure, Except.pure, Except.ok.injEq] at h
  obtain ⟨⟨o', d'⟩, h1, rfl⟩ := h
  obtain ⟨st', ⟨m, hm⟩, _⟩ := sim_ok n (.nodes ns) [] ⟨data, [], none⟩ _ d' h1 hwf (St.init data) rfl
    ⟨rfl, rfl, rfl, by intro i dm m h; simp at h⟩ trivial
  refine ⟨m, ?_⟩
  unfold implRender
  simp only [taskOf] at hm
  simp [hm, bind, Except.bind, pure, Except.pure]

/-! ### non-vacuity -/

private def c (s : String) : List Char := s.toList

/-- `<a py:for="x in xs" py:if="x">${x}</a>${x}` over xs=[0,2], x='o' -/
private def ex1 : List TNode :=
  [.elem ['a'] [] [.if_ (.var ['x']), .for_ ['x'] (.var ['x', 's'])] [.expr (.pure (.var ['x']))],
   .expr (.pure (.var ['x']))]
private def ex1data : Env :=
  [(['x', 's'], .list [.int 0, .int 2]), (['x'], .atom (.str ['o']))]

example : implRender 100 ex1 ex1data =
    .ok [startEv ['a'] [], tx ['2'] true, endEv ['a'], tx ['o']] := by rfl

example : docRender 100 ex1 ex1data = implRender 100 ex1 ex1data := by rfl
example : wfNodes ex1 = true := by decide

end Genshi.Props.C04

/-
  C04 — Directives implement the documented control-flow semantics.
  Property theorems only; helper lemmas live in `Genshi/Lemmas/Tmpl*.lean`.

  OBLIGATIONS (checked by the harness: every name must be a theorem here, axioms audited):
    order_documented text_directives_are_markup_directives index_is_position
    frames_restored frames_restored_binds choice_stack_restored choose_restores_choice_stack
    outer_variables_kept lookup_after_eq_before render_restores_context
    fuel_irrelevant_impl fuel_irrelevant_doc impl_eq_doc no_output_when_doc_fails no_output_when_impl_fails impl_fails_when_doc_fails
    failing_renders_agree
    if_false_removes if_true_transparent for_eq_unrolled choose_first_match_only
    attr_form_eq_elem_form_ctl replace_eq_content_strip_ctl replace_eq_content_strip
    macro_representation_irrelevant attr_form_eq_elem_form replace_refines_content_strip_attrs
    extract_flat_eq_tree construction_pipeline_eq_compile text_parse_eq_tree text_pipeline_eq_compile
    direlem_attrs_witness
    regex_flags_documented scan_new_lossless scan_old_lossless scan_new_print_roundtrip
    text_reaches_stream_escaped text_reaches_stream_escaped_old text_reaches_output_verbatim
    expression_boundaries_text_template scan_old_line_roundtrip_partial
    tokenize_print_roundtrip reader_inverts_layout interpolate_any_number_of_pieces
    raw_print_roundtrip_tokens raw_print_roundtrip source_text_eq_doc raw_loop_commutes
    scan_old_print_roundtrip raw_print_roundtrip_tokens_old raw_print_roundtrip_old source_text_eq_doc_old
    scan_delims_default scan_delims_lossless scan_delims_print_roundtrip_partial
-/
import Genshi.Lemmas.TmplSimMain
import Genshi.Lemmas.TmplSimRev
import Genshi.Lemmas.TmplSimErr
import Genshi.Lemmas.TmplSimRevErr
import Genshi.Lemmas.TmplEquiv
import Genshi.Lemmas.TmplParam
import Genshi.Lemmas.TmplExtract
import Genshi.Lemmas.TmplText
import Genshi.Lemmas.TmplScanText
import Genshi.Lemmas.TmplScanOld
import Genshi.Lemmas.TmplInv
import Genshi.Lemmas.TmplInvOld
import Genshi.Lemmas.TmplScanD
import Genshi.Lemmas.TmplScanDPrint
import Genshi.Lemmas.TmplRawLoop
namespace Genshi.Props.C04
open Genshi Genshi.Tmpl

/-! ### the generated directive tables against the documentation -/

/-- The sort key of `_extract_directives` (position in `MarkupTemplate.directives`, regenerated
    from the code on every run) is the documented processing order. -/
theorem order_documented : implOrder = docOrder := by decide

/-- Both text template classes register a sub-list of the markup directives, in the same
    relative order and with the same classes. -/
theorem text_directives_are_markup_directives :
    Gen.Directives.newTextDirectives.Sublist Gen.Directives.markupDirectives ∧
    Gen.Directives.oldTextDirectives = Gen.Directives.newTextDirectives := by decide

/-- `get_directive_index` is the position in the list (what `implIdx` assumes). -/
theorem index_is_position :
    Gen.Directives.markupIndices = List.range Gen.Directives.markupDirectives.length := by decide

/-! ### extraction: the one-pass algorithm of `_extract_directives` -/

/-- `_extract_directives` walks the flat parsed stream once, with a depth counter and the
    dictionary `dirmap` keyed by `(depth, tag)`, and cuts the events of an element with
    directives out of the output list when its END arrives.  For the parsed stream of every
    template this yields exactly the nesting of the template tree: every SUB holds the events
    of its own element (minus the element itself for a directive element), directives sorted. -/
theorem extract_flat_eq_tree (ns : List TNode) : extractFlat (toStreams ns) = extractTrees ns :=
  extractFlat_eq_tree ns

/-- … and `Template._prepare` on that stream gives the prepared stream `compileNodes` about
    which all run-time theorems below speak. -/
theorem construction_pipeline_eq_compile (ns : List TNode) : compileFlat ns = compileNodes ns :=
  compileFlat_eq_compile ns

/-- Text templates (both syntaxes, after the scanners): the token loop with the depth-keyed
    `dirmap` nests the blocks exactly like the template tree, i.e. like the markup form of the
    same directives written as directive elements. -/
theorem text_parse_eq_tree (ns : List TNode) (h : textNodes ns = true) :
    textParse (toTokss ns) = extractTrees ns :=
  textParse_eq_tree ns h

theorem text_pipeline_eq_compile (ns : List TNode) (h : textNodes ns = true) :
    compileText ns = compileNodes ns :=
  compileText_eq_compile ns h

/-! ### scoping: frames and choice stack -/

/-- After any directive, sub-stream, loop or template the frame stack is the one before it:
    loop variables, `py:with` bindings and macro parameters are invisible outside.
    (All tasks of the implementation model except the internal assignment phase of `py:with`,
    for which see `frames_restored_binds`.) -/
theorem frames_restored (n : Nat) (t : ITask) (st st' : St) (o : List Event)
    (ht : ∀ bs ds body, t ≠ .binds bs ds body)
    (h : run n t st = .ok (o, st')) : st'.scopes = st.scopes := by
  have a := run_scopes n t st o st' h
  cases t with
  | binds bs ds body => exact absurd rfl (ht bs ds body)
  | flat _ => exact a
  | ev _ => exact a
  | apply _ _ => exact a
  | loop _ _ _ _ => exact a

/-- The assignment phase of `py:with` only touches the frame `py:with` pushed. -/
theorem frames_restored_binds (n : Nat) (bs ds body) (st st' : St) (o : List Event)
    (h : run n (.binds bs ds body) st = .ok (o, st')) : st'.scopes.tail = st.scopes.tail :=
  (run_scopes n _ st o st' h).1

/-- After anything is rendered the choice stack is what it was, except that the matched flag
    of the innermost enclosing `py:choose` may have been set (by a `py:when`/`py:otherwise`). -/
theorem choice_stack_restored (n : Nat) (t : ITask) (st st' : St) (o : List Event)
    (h : run n t st = .ok (o, st')) :
    st'.choice = st.choice ∨
    ∃ c cs, st.choice = c :: cs ∧ c.matched = false ∧ st'.choice = { c with matched := true } :: cs :=
  (run_inv n t st o st' h).1

/-- A `py:choose` (with whatever directives follow it on the element) restores the stack exactly. -/
theorem choose_restores_choice_stack (n : Nat) (e ds body) (st st' : St) (o : List Event)
    (h : run n (.apply (.choose e :: ds) body) st = .ok (o, st')) : st'.choice = st.choice := by
  cases n with
  | zero => simp [run] at h
  | succ n =>
    simp only [run, bind_ok, mapSt_ok] at h
    obtain ⟨v, _, s1, h2, rfl⟩ := h
    rcases (run_inv n _ _ _ _ h2).1 with h3 | ⟨c, cs, h3, _, h4⟩
    · simp only [St.popChoice, h3, List.tail_cons]
    · simp only [List.cons.injEq] at h3
      simp only [St.popChoice, h4, List.tail_cons, h3.2]

/-- A variable of the context data never changes its value, with the single documented
    exception: `py:def` stores the macro under its name (so the name now denotes a macro
    created during this rendering).  Macros are only ever added. -/
theorem outer_variables_kept (n : Nat) (t : ITask) (st st' : St) (o : List Event)
    (h : run n t st = .ok (o, st')) :
    (∃ ms, st'.macros = st.macros ++ ms) ∧
    ∀ x, st'.data.look? x = st.data.look? x ∨
         ∃ i, st.macros.length ≤ i ∧ st'.data.look? x = some (.macro i) :=
  (run_inv n t st o st' h).2

/-- What a name denotes after a directive is what it denoted before it (or a macro defined
    meanwhile): loop, binding and parameter names fall back to their outer value. -/
theorem lookup_after_eq_before (n : Nat) (t : ITask) (st st' : St) (o : List Event)
    (ht : ∀ bs ds body, t ≠ .binds bs ds body)
    (h : run n t st = .ok (o, st')) (x : Name) :
    st'.look x = st.look x ∨ ∃ i, st.macros.length ≤ i ∧ st'.look x = .macro i := by
  have hs := frames_restored n t st st' o ht h
  have hd := (outer_variables_kept n t st st' o h).2 x
  unfold St.look
  rw [hs]
  cases lookFrames st.scopes x with
  | some v => exact Or.inl rfl
  | none =>
    rcases hd with hd | ⟨i, hi, hd⟩
    · exact Or.inl (by simp [hd])
    · exact Or.inr ⟨i, hi, by simp [hd]⟩

/-- Rendering a whole template leaves an empty frame stack and an empty choice stack. -/
theorem render_restores_context (n : Nat) (ns : List TNode) (data : Env) (st' : St) (o : List Event)
    (h : run n (.flat (compileNodes ns)) (St.init data) = .ok (o, st')) :
    st'.scopes = [] ∧ st'.choice = [] := by
  refine ⟨frames_restored n _ _ _ o (by intro _ _ _ hh; cases hh) h, ?_⟩
  rcases choice_stack_restored n _ _ _ o h with h1 | ⟨c, cs, h1, _⟩
  · exact h1
  · simp [St.init] at h1

/-! ### implementation = documentation -/

/-- More fuel never changes an answer of the implementation model (fuel is not an observable). -/
theorem fuel_irrelevant_impl (n m : Nat) (t : ITask) (st : St) (r : IRes)
    (h : run n t st = r) (hr : r ≠ .error .fuel) (hm : n ≤ m) : run m t st = r :=
  run_mono h hr hm

/-- … nor of the documentation semantics. -/
theorem fuel_irrelevant_doc (n m : Nat) (t : DTask) (loc : Env) (st : DSt) (r : DRes)
    (h : doc n t loc st = r) (hr : r ≠ .error .fuel) (hm : n ≤ m) : doc m t loc st = r :=
  doc_mono h hr hm

/-- **Implementation = documentation.**  For every well-formed template (the `py:` attributes of
    one element pairwise distinct, as XML demands; only def/when/otherwise/for/if/choose/with/
    replace in element form, as the parsers demand) and all context data: the documentation
    semantics defines the output `o` iff the implementation model (flat extraction, attach,
    directive chain over frames and choice stack, flatten) renders exactly `o`.
    Both directions are simulations (`sim_ok`, `sim_rev`) over the state relation
    "scoped environment = concatenated frame stack, globals = bottom frame, innermost choose =
    top of the choice stack, macro tables related through `attach`". -/
theorem impl_eq_doc (ns : List TNode) (data : Env) (o : List Event) (hwf : wfNodes ns = true) :
    (∃ n, docRender n ns data = .ok o) ↔ (∃ m, implRender m ns data = .ok o) := by
  have hinit : SimG ⟨data, [], none⟩ (St.init data) :=
    ⟨rfl, rfl, rfl, by intro i dm m h; simp at h⟩
  constructor
  · rintro ⟨n, h⟩
    unfold docRender at h
    simp only [bind_ok, pure, Except.pure, Except.ok.injEq] at h
    obtain ⟨⟨o', d'⟩, h1, rfl⟩ := h
    obtain ⟨st', ⟨m, hm⟩, _⟩ := sim_ok n (.nodes ns) [] ⟨data, [], none⟩ _ d' h1 hwf (St.init data) rfl
      hinit trivial
    refine ⟨m, ?_⟩
    unfold implRender
    simp only [taskOf] at hm
    simp [hm, bind, Except.bind, pure, Except.pure]
  · rintro ⟨m, h⟩
    unfold implRender at h
    simp only [bind_ok, pure, Except.pure, Except.ok.injEq] at h
    obtain ⟨⟨o', st'⟩, h1, rfl⟩ := h
    obtain ⟨d', ⟨n, hn⟩, _⟩ := sim_rev m (.nodes ns) [] ⟨data, [], none⟩ (St.init data) _ st' h1 hwf rfl
      hinit trivial
    refine ⟨n, ?_⟩
    unfold docRender
    simp [hn, bind, Except.bind, pure, Except.pure]

/-! Failing renders: when one side fails the other produces no output for any amount of fuel
    (`no_output_when_*`), and it fails itself — it terminates with an error
    (`failing_renders_agree`).  The error *class* is not part of the statement: it differs in one
    corner (a `py:when`/`py:otherwise` with an empty body that may not render raises
    RuntimeError from a StopIteration where the message would need a position); the classes
    are compared by the correspondence check on every run. -/

theorem no_output_when_doc_fails (ns : List TNode) (data : Env) (hwf : wfNodes ns = true) (n : Nat)
    (e : Err) (he : e ≠ .fuel) (h : docRender n ns data = .error e) (m : Nat) (o : List Event) :
    implRender m ns data ≠ .ok o := by
  intro hm
  obtain ⟨n', hn'⟩ := (impl_eq_doc ns data o hwf).2 ⟨m, hm⟩
  -- both answers of the documentation semantics are final: lift them to a common fuel
  unfold docRender at h hn'
  cases h1 : doc n (.nodes ns) [] ⟨data, [], none⟩ with
  | error e1 =>
    cases h2 : doc n' (.nodes ns) [] ⟨data, [], none⟩ with
    | error e2 => simp [h2, bind, Except.bind] at hn'
    | ok r2 =>
      have he1 : e1 = e := by simpa [h1, bind, Except.bind] using h
      subst he1
      have a := doc_mono h1 (by simpa using he) (Nat.le_max_left n n')
      have b := doc_mono h2 (by simp) (Nat.le_max_right n n')
      rw [a] at b; cases b
  | ok r1 => simp [h1, bind, Except.bind, pure, Except.pure] at h

theorem no_output_when_impl_fails (ns : List TNode) (data : Env) (hwf : wfNodes ns = true) (m : Nat)
    (e : Err) (he : e ≠ .fuel) (h : implRender m ns data = .error e) (n : Nat) (o : List Event) :
    docRender n ns data ≠ .ok o := by
  intro hn
  obtain ⟨m', hm'⟩ := (impl_eq_doc ns data o hwf).1 ⟨n, hn⟩
  unfold implRender at h hm'
  cases h1 : run m (.flat (compileNodes ns)) (St.init data) with
  | error e1 =>
    cases h2 : run m' (.flat (compileNodes ns)) (St.init data) with
    | error e2 => simp [h2, bind, Except.bind] at hm'
    | ok r2 =>
      have he1 : e1 = e := by simpa [h1, bind, Except.bind] using h
      subst he1
      have a := run_mono h1 (by simpa using he) (Nat.le_max_left m m')
      have b := run_mono h2 (by simp) (Nat.le_max_right m m')
      rw [a] at b; cases b
  | ok r1 => simp [h1, bind, Except.bind, pure, Except.pure] at h

/-- When the documentation semantics fails (an expression raises, a `py:when` stands outside a
    `py:choose`, a macro gets too few arguments, …) the implementation model fails too — it
    terminates with an error, it does not hang or skip the failing evaluation. -/
theorem impl_fails_when_doc_fails (ns : List TNode) (data : Env) (hwf : wfNodes ns = true) (n : Nat)
    (e : Err) (he : e ≠ .fuel) (h : docRender n ns data = .error e) :
    ∃ m e', implRender m ns data = .error e' ∧ e' ≠ .fuel := by
  unfold docRender at h
  have h1 : doc n (.nodes ns) [] ⟨data, [], none⟩ = .error e := by
    cases hd : doc n (.nodes ns) [] ⟨data, [], none⟩ with
    | error e1 => simpa [hd, bind, Except.bind] using h
    | ok r => simp [hd, bind, Except.bind, pure, Except.pure] at h
  obtain ⟨m, e', hm, he'⟩ := sim_err n (.nodes ns) [] ⟨data, [], none⟩ e h1 he hwf (St.init data) rfl
    ⟨rfl, rfl, rfl, by intro i dm m h; simp at h⟩ trivial
  refine ⟨m, e', ?_, he'⟩
  unfold implRender
  simp only [taskOf] at hm
  simp [hm, bind, Except.bind]

/-- **Failing renders agree.**  The documentation semantics fails on a template and data iff the
    implementation model fails on them (each terminating with an error other than "out of fuel").
    Together with `impl_eq_doc`: on every well-formed template and all data both semantics have
    the same outcome — the same output, or a failure, or neither terminates. -/
theorem failing_renders_agree (ns : List TNode) (data : Env) (hwf : wfNodes ns = true) :
    (∃ n e, docRender n ns data = .error e ∧ e ≠ .fuel) ↔
    (∃ m e, implRender m ns data = .error e ∧ e ≠ .fuel) := by
  constructor
  · rintro ⟨n, e, h, he⟩; exact impl_fails_when_doc_fails ns data hwf n e he h
  · rintro ⟨m, e, h, he⟩
    unfold implRender at h
    have h1 : run m (.flat (compileNodes ns)) (St.init data) = .error e := by
      cases hd : run m (.flat (compileNodes ns)) (St.init data) with
      | error e1 => simpa [hd, bind, Except.bind] using h
      | ok r => simp [hd, bind, Except.bind, pure, Except.pure] at h
    obtain ⟨n, e', hn, he'⟩ := sim_rev_err m (.nodes ns) [] ⟨data, [], none⟩ (St.init data) e h1 he hwf rfl
      ⟨rfl, rfl, rfl, by intro i dm m h; simp at h⟩ trivial
    refine ⟨n, e', ?_, he'⟩
    unfold docRender
    simp [hn, bind, Except.bind]

/-! ### the documented equivalences, on the implementation model

  `IOk t st o st'`: with enough fuel task `t` renders `o` from state `st` and ends in `st'`
  (the answer is independent of the fuel: `fuel_irrelevant_impl`). -/

/-- A false condition removes the element (and whatever else is on it). -/
theorem if_false_removes (e : Expr) (ds : List Dir) (body : List CEv) (st : St) (v : Val)
    (hv : eval st.look e = .ok v) (hf : v.truthy = false) :
    IOk (.apply (.if_ e :: ds) body) st [] st :=
  IOk.if_iff.2 ⟨v, hv, Or.inr ⟨hf, rfl, rfl⟩⟩

/-- A true condition is transparent. -/
theorem if_true_transparent (e : Expr) (ds : List Dir) (body : List CEv) (st st' : St) (v : Val)
    (o : List Event) (hv : eval st.look e = .ok v) (ht : v.truthy = true) :
    IOk (.apply (.if_ e :: ds) body) st o st' ↔ IOk (.apply ds body) st o st' := by
  rw [IOk.if_iff]
  constructor
  · rintro ⟨w, hw, ⟨_, h⟩ | ⟨hf, _⟩⟩
    · exact h
    · rw [hv] at hw; cases hw; rw [ht] at hf; cases hf
  · intro h; exact ⟨v, hv, Or.inl ⟨ht, h⟩⟩

/-- A loop equals its unrolled body, one copy per item with the loop variable bound by `py:with`. -/
theorem for_eq_unrolled (v : Name) (e : Expr) (ds : List Dir) (body : List CEv) (st st' : St)
    (o : List Event) (it : Val) (items : List Val)
    (he : eval st.look e = .ok it) (hi : iterItems it = .ok items) :
    IOk (.apply (.for_ v e :: ds) body) st o st' ↔ IOk (.flat (unroll v items ds body)) st o st' := by
  rw [IOk.for_iff, ← loop_eq_unrolled]
  constructor
  · rintro ⟨it', items', h1, h2, h3⟩
    rw [he] at h1; cases h1; rw [hi] at h2; cases h2; exact h3
  · intro h; exact ⟨it, items, he, hi, h⟩

/-- Of the branches of a choose only the first matching `py:when` is rendered: the earlier ones
    (tests false) and all later ones (tests not even evaluated) contribute nothing. -/
theorem choose_first_match_only (pre post : List Branch) (b : Branch) (st st' : St) (o : List Event)
    (c : Choice) (cs : List Choice) (hc : st.choice = c :: cs) (hm : c.matched = false)
    (hpre : ∀ p ∈ pre, whenMatches st.look c p.1 = .ok false)
    (hb : whenMatches st.look c b.1 = .ok true) :
    IOk (.flat ((pre ++ b :: post).map branchEv)) st o st' ↔
      IOk (.apply b.2.1 b.2.2) (st.setMatched c cs true) o st' := by
  have hskip : IOk (.flat (pre.map branchEv)) st [] st := by
    induction pre with
    | nil => exact IOk.flat_nil _
    | cons p pre ih =>
      have h1 := branch_skip (b := p) hc hm (hpre p (List.mem_cons_self ..))
      simpa using IOk.flat_cons h1 (ih (fun q hq => hpre q (List.mem_cons_of_mem _ hq)))
  have hbranch : ∀ o1 s1, IOk (.ev (branchEv b)) st o1 s1 ↔
      IOk (.apply b.2.1 b.2.2) (st.setMatched c cs true) o1 s1 := by
    intro o1 s1
    rw [branchEv, IOk.ev_sub_iff, IOk.when_iff]
    constructor
    · rintro ⟨c', cs', hc', hh⟩
      rw [hc] at hc'; cases hc'
      rcases hh with ⟨hm', _⟩ | ⟨_, m, hmm, ⟨_, h⟩ | ⟨rfl, _⟩⟩
      · rw [hm] at hm'; cases hm'
      · exact h
      · rw [hb] at hmm; cases hmm
    · intro h; exact ⟨c, cs, hc, Or.inr ⟨hm, true, hb, Or.inl ⟨rfl, h⟩⟩⟩
  have hafter : ∀ o1 s1, IOk (.apply b.2.1 b.2.2) (st.setMatched c cs true) o1 s1 →
      IOk (.flat (post.map branchEv)) s1 [] s1 := by
    intro o1 s1 h
    obtain ⟨k, hk⟩ := h
    have hstep := (run_inv k _ _ _ _ hk).1
    have hch : s1.choice = { c with matched := true } :: cs := by
      rcases hstep with h3 | ⟨c', cs', h3, hm3, _⟩
      · exact h3
      · simp only [St.setMatched, List.cons.injEq] at h3
        rw [← h3.1] at hm3; simp at hm3
    exact branches_after_match post hch rfl
  simp only [List.map_append, List.map_cons]
  constructor
  · intro h
    obtain ⟨o1, s1, o2, h1, h2, rfl⟩ := IOk.flat_append_inv h
    obtain ⟨rfl, rfl⟩ := IOk.unique h1 hskip
    obtain ⟨o3, s3, o4, h3, h4, rfl⟩ := IOk.flat_cons_inv h2
    have h5 := (hbranch _ _).1 h3
    obtain ⟨rfl, rfl⟩ := IOk.unique h4 (hafter _ _ h5)
    simpa using h5
  · intro h
    have := IOk.flat_append hskip (IOk.flat_cons ((hbranch _ _).2 h) (hafter _ _ h))
    simpa using this

/-- Attribute form = element form, control directives (when/otherwise/for/if/choose/with): nested
    directive elements in the documented order around the element (which keeps `stay` as
    attributes) render exactly as the same directives written as attributes — same output
    *and the very same state* afterwards.  (`py:def` included: `attr_form_eq_elem_form` below.) -/
theorem attr_form_eq_elem_form_ctl (pre stay : List Dir) (tag : Name) (attrs : List (Name × Str))
    (kids : List TNode) (hpre : ∀ d ∈ pre, d.ctl = true) (hs : StrictSorted (pre ++ stay))
    (st st' : St) (o : List Event) :
    IOk (.flat (compileNode (nestNodes pre (.elem tag attrs stay kids)))) st o st' ↔
      IOk (.flat (compileNode (.elem tag attrs (pre ++ stay) kids))) st o st' := by
  -- left side: nested SUBs around the compiled element
  have hL : ∀ p : List Dir, (∀ d ∈ p, d.ctl = true) → ∀ (ds : List Dir) (b : List CEv) (inner : TNode),
      compileNode inner = mkSub ds b →
      ∀ s q s', IOk (.flat (compileNode (nestNodes p inner))) s q s' ↔ IOk (.apply (p ++ ds) b) s q s' := by
    intro p
    induction p with
    | nil => intro _ ds b inner hin s q s'; simp only [nestNodes, hin, List.nil_append]; exact IOk.mkSub_iff
    | cons d p ih =>
      intro hp ds b inner hin s q s'
      rw [compile_nest_cons d (hp d (List.mem_cons_self ..)), IOk.flat_single_iff, IOk.ev_sub_iff]
      simp only [List.cons_append]
      refine (apply_cons_congr d (hp d (List.mem_cons_self ..)) ?_) s q s'
      intro s2 q2 s2'
      rw [IOk.apply_nil_iff]
      exact ih (fun x hx => hp x (List.mem_cons_of_mem _ hx)) ds b inner hin s2 q2 s2'
  let body : List CEv := .start tag attrs :: (compileNodes kids ++ [.end_ tag])
  have hinner : compileNode (.elem tag attrs stay kids) = mkSub (attach stay body).1 (attach stay body).2 := by
    simp only [compileNode, sortBy_implIdx_of_sorted stay hs.suffix, body]
  rw [hL pre hpre _ _ _ hinner]
  simp only [compileNode, sortBy_implIdx_of_sorted _ hs, attach_ctl_prefix pre hpre stay]
  exact IOk.mkSub_iff.symm

/-- **The stored form of a macro is unobservable.**  `StRel a b`: the states agree except that
    a macro may be stored as a directive chain over the element's sub-stream in one and as nested
    SUB events in the other (what `py:def` stores for the attribute form and for the element
    form).  Every task renders the same output from related states and ends in related states. -/
theorem macro_representation_irrelevant (T : ITask) (st st' s1 : St) (o : List Event)
    (h : IOk T st o s1) (hr : StRel st st') : ∃ s1', IOk T st' o s1' ∧ StRel s1 s1' :=
  param h hr

/-- **Attribute form = element form, all directives with an element form** (def, when, otherwise,
    for, if, choose, with; any number, nested in the documented order; the element keeps `stay`
    — content/attrs/strip, or anything else — as attributes).  From related states (in particular
    from the same state) both forms render the same output and end in related states, i.e.
    states no later rendering can tell apart (`macro_representation_irrelevant`): the only
    difference is how a `py:def` among the directives stored its macro. -/
theorem attr_form_eq_elem_form (pre stay : List Dir) (tag : Name) (attrs : List (Name × Str))
    (kids : List TNode) (hpre : ∀ d ∈ pre, d.ctlDef = true) (hs : StrictSorted (pre ++ stay))
    (st st' : St) (hr : StRel st st') (o : List Event) (s1 : St) :
    (IOk (.flat (compileNode (nestNodes pre (.elem tag attrs stay kids)))) st o s1 →
      ∃ s1', IOk (.flat (compileNode (.elem tag attrs (pre ++ stay) kids))) st' o s1' ∧ StRel s1 s1') ∧
    (IOk (.flat (compileNode (.elem tag attrs (pre ++ stay) kids))) st o s1 →
      ∃ s1', IOk (.flat (compileNode (nestNodes pre (.elem tag attrs stay kids)))) st' o s1' ∧ StRel s1 s1') := by
  let body : List CEv := .start tag attrs :: (compileNodes kids ++ [.end_ tag])
  have hinner : compileNode (.elem tag attrs stay kids) = mkSub (attach stay body).1 (attach stay body).2 := by
    simp only [compileNode, sortBy_implIdx_of_sorted stay hs.suffix, body]
  have hL := compile_nestNodes pre hpre _ _ _ hinner
  have hR : compileNode (.elem tag attrs (pre ++ stay) kids) =
      mkSub (pre ++ (attach stay body).1) (attach stay body).2 := by
    simp only [compileNode, sortBy_implIdx_of_sorted _ hs, attach_ctlDef_prefix pre hpre stay, body]
  rw [hL, hR]
  constructor
  · intro h
    obtain ⟨s1', r, g⟩ := chain_of_nest hpre h hr
    exact ⟨s1', IOk.mkSub r, g⟩
  · intro h
    exact nest_of_chain hpre (IOk.mkSub_iff.1 h) hr

/-- `py:replace` = `py:content` + `py:strip`, with control directives before it: same output and
    the identical state (iff).  With `py:def` among them: `replace_eq_content_strip`; with
    `py:attrs` on the element the two are not equivalent: `replace_refines_content_strip_attrs`. -/
theorem replace_eq_content_strip_ctl (pre : List Dir) (x : XExpr) (tag : Name)
    (attrs : List (Name × Str)) (kids : List TNode) (hpre : ∀ d ∈ pre, d.ctl = true)
    (hs1 : StrictSorted (pre ++ [.replace x])) (hs2 : StrictSorted (pre ++ [.content x, .strip none]))
    (st st' : St) (o : List Event) :
    IOk (.flat (compileNode (.elem tag attrs (pre ++ [.replace x]) kids))) st o st' ↔
      IOk (.flat (compileNode (.elem tag attrs (pre ++ [.content x, .strip none]) kids))) st o st' := by
  simp only [compileNode, sortBy_implIdx_of_sorted _ hs1, sortBy_implIdx_of_sorted _ hs2,
    attach_ctl_prefix pre hpre, attach, getLast_body, IOk.mkSub_iff]
  exact apply_prefix_congr pre hpre (replace_tail_eq x tag attrs) st o st'

/-! ### known finding C04-direlem-attrs: a `py:` attribute on a directive element

  `<py:if test="1" py:strip=""><b>x</b></py:if>`: the template AST (and with it `impl_eq_doc`)
  covers directive elements *without* further `py:` attributes.  The parsed stream below is
  that template; the flat extraction pass removes the directive element's own START/END
  (`substream[1:-1]`) before the attribute directive runs, so `py:strip` strips the first child
  element instead: the model renders `x`, where the documented order (strip applies to the
  element it is written on, which is not output anyway) gives `<b>x</b>`. -/

private def direlemStream : List PEv :=
  [.start (pyTag (.if_ (.lit (.atom (.int 1))))) [] [.strip none] (some (.if_ (.lit (.atom (.int 1))))),
   .start (plainTag ['b']) [] [] none, .text ['x'], .end_ (plainTag ['b']),
   .end_ (pyTag (.if_ (.lit (.atom (.int 1)))))]

private def direlemDoc : List TNode :=
  [.delem (.if_ (.lit (.atom (.int 1)))) [.elem ['b'] [] [] [.text ['x']]]]

/-- The model mirrors the defect: implementation on the parsed stream ≠ documentation. -/
theorem direlem_attrs_witness :
    (run 50 (.flat (toCEvs (prepareRs (extractFlat direlemStream)))) (St.init [])).toOption.map (·.1)
      = some [tx ['x']] ∧
    docRender 50 direlemDoc [] = .ok [startEv ['b'] [], tx ['x'], endEv ['b']] := by
  constructor <;> rfl

/-- **`py:replace` = `py:content` + `py:strip`** after any of def/when/otherwise/for/if/choose/with
    on the same element: from related states (in particular the same state) both render the same
    output and end in related, i.e. indistinguishable, states (a `py:def` among the directives
    stores the macro in the two forms; `macro_representation_irrelevant`). -/
theorem replace_eq_content_strip (pre : List Dir) (x : XExpr) (tag : Name) (attrs : List (Name × Str))
    (kids : List TNode) (hpre : ∀ d ∈ pre, d.ctlDef = true)
    (hs1 : StrictSorted (pre ++ [.replace x])) (hs2 : StrictSorted (pre ++ [.content x, .strip none]))
    (st st' : St) (hr : StRel st st') (o : List Event) (s1 : St) :
    (IOk (.flat (compileNode (.elem tag attrs (pre ++ [.replace x]) kids))) st o s1 →
      ∃ s1', IOk (.flat (compileNode (.elem tag attrs (pre ++ [.content x, .strip none]) kids))) st' o s1' ∧
        StRel s1 s1') ∧
    (IOk (.flat (compileNode (.elem tag attrs (pre ++ [.content x, .strip none]) kids))) st o s1 →
      ∃ s1', IOk (.flat (compileNode (.elem tag attrs (pre ++ [.replace x]) kids))) st' o s1' ∧
        StRel s1 s1') := by
  simp only [compileNode, sortBy_implIdx_of_sorted _ hs1, sortBy_implIdx_of_sorted _ hs2,
    attach_ctlDef_prefix pre hpre, attach, getLast_body, IOk.mkSub_iff]
  constructor
  · intro h
    exact tail_pair (T1 := ([], [.xexpr x])) (T2 := ([.strip none], [.start tag attrs, .xexpr x, .end_ tag]))
      hpre (BasePair.repl x tag attrs) h hr
  · intro h
    exact tail_pair (T1 := ([.strip none], [.start tag attrs, .xexpr x, .end_ tag])) (T2 := ([], [.xexpr x]))
      hpre (BasePair.unrepl x tag attrs) h hr

/-- With `py:attrs` on the same element the two are not equivalent (content + strip keeps the
    element alive for `py:attrs`, whose expression may fail; `py:replace` never evaluates it), but
    `py:replace` refines `py:content` + `py:strip`: whenever the latter renders, the former renders
    the same output and ends in the same state. -/
theorem replace_refines_content_strip_attrs (pre : List Dir) (x : XExpr) (e : Expr) (tag : Name)
    (attrs : List (Name × Str)) (kids : List TNode) (hpre : ∀ d ∈ pre, d.ctl = true)
    (hs1 : StrictSorted (pre ++ [.replace x, .attrs e]))
    (hs2 : StrictSorted (pre ++ [.content x, .attrs e, .strip none]))
    (st st' : St) (o : List Event)
    (h : IOk (.flat (compileNode (.elem tag attrs (pre ++ [.content x, .attrs e, .strip none]) kids))) st o st') :
    IOk (.flat (compileNode (.elem tag attrs (pre ++ [.replace x, .attrs e]) kids))) st o st' := by
  simp only [compileNode, sortBy_implIdx_of_sorted _ hs1, sortBy_implIdx_of_sorted _ hs2,
    attach_ctl_prefix pre hpre, attach, getLast_body, IOk.mkSub_iff] at h ⊢
  exact apply_prefix_imp pre hpre (replace_attrs_tail_imp x e tag attrs) st o st' h

/-! ### non-vacuity -/

private def c (s : String) : List Char := s.toList

/-- `<a py:for="x in xs" py:if="x">${x}</a>${x}` over xs=[0,2], x='o' -/
private def ex1 : List TNode :=
  [.elem ['a'] [] [.if_ (.var ['x']), .for_ ['x'] (.var ['x', 's'])] [.expr (.pure (.var ['x']))],
   .expr (.pure (.var ['x']))]
private def ex1data : Env :=
  [(['x', 's'], .list [.int 0, .int 2]), (['x'], .atom (.str ['o']))]

example : implRender 100 ex1 ex1data =
    .ok [startEv ['a'] [], tx ['2'], endEv ['a'], tx ['o']] := by rfl

example : docRender 100 ex1 ex1data = implRender 100 ex1 ex1data := by rfl
example : wfNodes ex1 = true := by decide

example : textNodes [.delem (.for_ ['x'] (.var ['x', 's'])) [.text ['a'], .delem (.if_ (.var ['x'])) [.expr (.pure (.var ['x']))]]] = true := by
  decide

/-- the hypotheses of the equivalence theorems are satisfiable on non-trivial inputs -/
private def exSt0 : St := St.init [(['x', 's'], .list [.int 1, .int 2])]

private def exPre : List Dir := [.for_ ['x'] (.var ['x', 's']), .if_ (.var ['x']), .with_ [(['y'], .var ['x'])]]

example : (∀ d ∈ exPre, d.ctl = true) ∧ StrictSorted (exPre ++ [.attrs (.var ['w']), .strip none]) ∧
    StrictSorted (exPre ++ [.replace (.pure (.var ['y']))]) ∧
    StrictSorted (exPre ++ [.content (.pure (.var ['y'])), .strip none]) ∧
    StrictSorted (exPre ++ [.replace (.pure (.var ['y'])), .attrs (.var ['w'])]) ∧
    StrictSorted (exPre ++ [.content (.pure (.var ['y'])), .attrs (.var ['w']), .strip none]) := by
  refine ⟨by decide, ?_, ?_, ?_, ?_, ?_⟩ <;> simp [StrictSorted, exPre, Dir.rank]

/-- … also with a `py:def` among the nested directives (`attr_form_eq_elem_form`) -/
example : (∀ d ∈ Dir.def_ ['f'] [(['p'], some (.lit (.atom (.int 1))))] :: exPre, d.ctlDef = true) ∧
    StrictSorted ((Dir.def_ ['f'] [(['p'], some (.lit (.atom (.int 1))))] :: exPre) ++ [.attrs (.var ['w']), .strip none]) ∧
    StRel exSt0 exSt0 := by
  refine ⟨by decide, ?_, StRel.refl _⟩
  simp [StrictSorted, exPre, Dir.rank]

/-- `py:choose` with two `py:when`: the first does not match, the second does -/
private def exSt : St := ⟨[], [(['x'], .atom (.int 2))], [⟨false, true, .atom (.int 2)⟩], []⟩

example : whenMatches exSt.look ⟨false, true, .atom (.int 2)⟩ (some (.lit (.atom (.int 1)))) = .ok false ∧
    whenMatches exSt.look ⟨false, true, .atom (.int 2)⟩ (some (.var ['x'])) = .ok true := by
  constructor <;> rfl

example : IOk (.apply (.if_ (.lit (.atom (.int 0))) :: exPre) [.text ['t']]) exSt [] exSt :=
  if_false_removes _ _ _ _ (.atom (.int 0)) rfl rfl

/-- the documentation semantics is defined (does not fail) on the running example, so
    `impl_eq_doc` speaks about it -/
example : ∃ o, docRender 100 ex1 ex1data = .ok o := ⟨_, rfl⟩

/-! ### the text-template scanners at character level (`Model/TmplScan.lean`) -/

section Scanners
open Genshi.Tmpl.Scan

/-- The flags of the compiled expressions (regenerated from the code on every run) are the ones
    the documented syntax needs: a directive or comment may span lines (DOTALL), an old-syntax
    directive occupies one line (`^` at every line start, `.` stops at the line feed). -/
theorem regex_flags_documented :
    Gen.TextScan.newDotall = true ∧ Gen.TextScan.oldMultiline = true ∧ Gen.TextScan.oldDotall = false ∧
    Gen.TextScan.oldBlank = [9, 32] := by decide

/-- **Losslessness (new syntax).**  For every source text the scanner is total and the source
    texts of its tokens (text segments, `{%…%}`, `{#…#}`) concatenate to the input: no character of
    the template is dropped or duplicated. -/
theorem scan_new_lossless (s : List Char) : (scanNew s).flatMap RTok.src = s := scanNew_lossless s

/-- **Losslessness (old syntax)**: text segments and directive lines concatenate to the input. -/
theorem scan_old_lossless (s : List Char) : (scanOld s).flatMap OTok.src = s := scanOld_lossless s

/-- **Printer round trip (new syntax).**  Every well-formed token list (non-empty maximal texts;
    `{% word value %}` whose value holds no `%}` and has no blanks at its ends; comments without
    `#}`; no text ending in a backslash in front of a delimiter), printed with the documented
    escapes, is scanned to itself: every documented construct is reachable and means itself. -/
theorem scan_new_print_roundtrip (ts : List CTok) (wf : WF ts) :
    (scanNew (printNew ts)).map cook = ts := scan_print wf

private def exToks : List CTok :=
  [.text ['a', '\\', '{', '%', '\n'], .dir ['i', 'f'] ['x', ' ', '%', ' ', '2'], .text ['b', '{'],
   .dir ['e', 'n', 'd'] [], .comment [' ', '{', '%', '#', ' '], .text ['\\']]

private theorem word_i : Genshi.San.isReWord 'i' = true := by decide +kernel
private theorem word_f : Genshi.San.isReWord 'f' = true := by decide +kernel
private theorem word_e : Genshi.San.isReWord 'e' = true := by decide +kernel
private theorem word_n : Genshi.San.isReWord 'n' = true := by decide +kernel
private theorem word_d : Genshi.San.isReWord 'd' = true := by decide +kernel
private theorem space_x : Genshi.San.isReSpace 'x' = false := by decide
private theorem space_2 : Genshi.San.isReSpace '2' = false := by decide

/-- the hypothesis of the round trip is satisfiable on a list with escapes, a multi-word value,
    a comment holding a start delimiter and a trailing backslash -/
example : WF exToks := by
  have okIf : OkDir ['i', 'f'] ['x', ' ', '%', ' ', '2'] := by
    refine ⟨by simp, ?_, by decide, ?_, ?_⟩
    · intro c hc; simp at hc; rcases hc with rfl | rfl
      · exact word_i
      · exact word_f
    · intro c hc; simp at hc; subst hc; exact space_x
    · intro c hc; simp at hc; subst hc; exact space_2
  have okEnd : OkDir ['e', 'n', 'd'] [] := by
    refine ⟨by simp, ?_, by decide, ?_, ?_⟩
    · intro c hc; simp at hc; rcases hc with rfl | rfl | rfl
      · exact word_e
      · exact word_n
      · exact word_d
    · intro c hc; simp at hc
    · intro c hc; simp at hc
  simp only [exToks, WF, OkTok]
  and_intros
  all_goals first
    | exact okIf
    | exact okEnd
    | trivial
    | decide
    | (intro s hs u hu; simp at hs hu; subst hs; subst hu; exact ⟨rfl, by decide⟩)
    | (intro s hs u hu; simp at hu; done)
    | (intro s hs; simp at hs; done)
    | simp

example : printNew exToks = cs!"a\\\\\\{%\n{% if x % 2 %}b{{% end %}{# {%# #}\\\\" := by decide

/-- **Text reaches the stream verbatim, modulo the documented escapes.**  A template that is the
    escaped form of a non-empty text without `$` (backslashes doubled, a backslash in front of
    every `{%` / `{#`) parses to exactly one TEXT event carrying that text; a text that needs no
    escape is its own template. -/
theorem text_reaches_stream_escaped (s : List Char) (hne : s ≠ []) (h : ∀ c ∈ s, c ≠ '$') :
    parseNew (escapeNew s) = .ok [.text s] ∧ (plainNew s = true → parseNew s = .ok [.text s]) :=
  ⟨parseNew_escaped hne h, parseNew_plain hne h⟩

/-- **Old syntax.**  A template that is the escaped form of a non-empty text without `$` (a backslash
    in front of every `#`) parses to exactly one TEXT event carrying that text: no line of it is
    taken for a directive or comment line, every escape is undone. -/
theorem text_reaches_stream_escaped_old (s : List Char) (hne : s ≠ []) (h : ∀ c ∈ s, c ≠ '$') :
    parseOld (escapeOld s) = .ok [.text s] := parseOld_escaped hne h

example : escapeOld cs!"a\n#if x\n  ## c\n" = cs!"a\n\\#if x\n  \\#\\# c\n" := by decide
example : parseOld cs!"a\n\\#if x\n  \\#\\# c\n" = .ok [.text cs!"a\n#if x\n  ## c\n"] := by rfl

/-- … and a TEXT event is rendered as itself (`_flatten`), whatever the data. -/
theorem text_reaches_output_verbatim (s : List Char) (data : Env) (fuel : Nat) :
    implRender (fuel + 2) [.text s] data = .ok [tx s] := by
  simp [implRender, compileNodes, compileNode, run, seq, bind, Except.bind, pure, Except.pure]

example : parseNew cs!"a\\{% b \\\\ %}\n" = .ok [.text cs!"a{% b \\ %}\n"] := by rfl

/-- **Printer round trip (old syntax), partial.**
    Full statement (open): for every well-formed old-syntax token list `ts` (texts that end a line,
    with `\#` escapes; directive lines `[blanks]#cmd value`; comment lines `[blanks]##…`),
    `(scanOld (printOld ts)).map cookOld = ts`.
    Proved here, for all texts around them: (1) a directive or comment line at a line start (start
    of the template or behind a line feed) is scanned as *one* token carrying exactly its blanks and
    its body, and scanning goes on at the line start behind it; (2) `lstrip()[1:].split(None, 1)` of
    such a line gives back the command and the value (with the line feed the old syntax leaves on
    it).  Together with `text_reaches_stream_escaped_old` (escaped text holds no directive line and
    is undone by the unescape) these are the three cases of the induction over `ts`, which is
    missing (a text in front of a line must end in a line feed). -/
theorem scan_old_line_roundtrip_partial :
    (∀ (b line rest acc : List Char) (c0 p : Char) (first : Bool), (∀ c ∈ b, isBlank c = true) →
      (Genshi.San.isReWord c0 = true ∨ c0 = '#') → (∀ c ∈ c0 :: line, c ≠ '\n') → (first = true ∨ p = '\n') →
      scanOldGo 0 first p acc (b ++ '#' :: c0 :: (line ++ '\n' :: rest)) =
        flushOld acc ++ OTok.line b (c0 :: (line ++ ['\n'])) :: scanOldGo 0 false '\n' [] rest) ∧
    (∀ (b cmd val : List Char), (∀ c ∈ b, isBlank c = true) → (∀ c ∈ cmd, Genshi.San.isSpace c = false) → cmd ≠ [] →
      (∀ c, val.head? = some c → Genshi.San.isSpace c = false) → val ≠ [] →
      splitLine b (cmd ++ ' ' :: (val ++ ['\n'])) = (cmd, some (val ++ ['\n']))) :=
  ⟨fun b line rest acc c0 p first hb hc hl hs => scanOld_line b line rest acc c0 p first hb hc hl hs,
   fun b cmd val hb hc hne hv hvne => splitLine_print b cmd val hb hc hne hv hvne⟩

example : scanOld cs!"  #if x\nb\n" = [.line cs!"  " cs!"if x\n", .text cs!"b\n"] ∧
    splitLine cs!"  " cs!"if x\n" = (cs!"if", some cs!"x\n") := by decide

/-- **Interpolation composed with the scanner.**  In a plain text template `pre ${inner} post` (no
    backslash or start delimiter anywhere, no `$` in `pre` / `post`) the parsed stream is the text
    before, one EXPR event whose source is exactly `inner` and the text after, for every scannable
    `inner` (C03's `lex_expr`: string literals holding braces, braces nested to any depth). -/
theorem expression_boundaries_text_template (pre inner post : List Char)
    (hpre : ∀ c ∈ pre, c ≠ '$') (hpost : ∀ c ∈ post, c ≠ '$')
    (hi : Genshi.Py.Lex.Scannable inner) (hin : inner ≠ [])
    (hp : plainNew (pre ++ '$' :: '{' :: (inner ++ '}' :: post)) = true)
    (hm : Genshi.Py.Lex.unmodelled (pre ++ '$' :: '{' :: (inner ++ '}' :: post)) = false) :
    parseNew (pre ++ '$' :: '{' :: (inner ++ '}' :: post)) =
      .ok (flushBuf pre ++ [.expr (Genshi.Py.Lex.stripAscii inner)] ++ flushBuf post) :=
  parseNew_expr pre inner post hpre hpost hi hin hp hm

example : Genshi.Py.Lex.Scannable cs!"x" ∧ plainNew cs!"a ${x}!" = true ∧ Genshi.Py.Lex.unmodelled cs!"a ${x}!" = false :=
  ⟨.word 'x' [] (by decide) .nil, by decide, by decide⟩
example : parseNew cs!"a ${x}!" = .ok [.text cs!"a ", .expr cs!"x", .text cs!"!"] := by rfl

end Scanners

/-! ### the reader of text templates inverts the printer (`Model/TmplPrint.lean`, `Model/TmplRaw.lean`) -/

section Inversion
open Genshi.Tmpl.Print Genshi.Tmpl.Raw Genshi.Tmpl.Scan

/-- **The tokenizer inverts the token printer**, for every list of tokens the tokenizer can produce
    (identifiers, numbers, string literals without quote / backslash / line feed, the symbols, `==`):
    written with a blank where the documented layout has one or where two tokens would run together
    (`sep`), the list is tokenized to itself. -/
theorem tokenize_print_roundtrip (ts : List MTok) (h : ts.all tokOk = true) : tokenize (toksSrc ts) = some ts :=
  tokenize_print ts h

example : toksSrc [.sym '(', .name cs!"x", .eqeq, .sym '(', .sym '-', .int 12, .sym ')', .sym ')'] = cs!"(x == (-12))" := by
  decide

/-- **The reader inverts the layout of the mini language**: expressions (names, None/True/False,
    integers, strings, list and dict literals, `==`, `not`, `len`, indexing — nested in any way),
    `${…}` sources (an expression or a macro call with positional and keyword arguments) and the value
    of every text-template directive (`def` with parameters and defaults, `for`, `if`, `when`, `choose`,
    `otherwise`, `with`) are read back from their printed source, under either lookup mode. -/
theorem reader_inverts_layout (st : Bool) :
    (∀ e, exprOk st e = true → readExpr st (exprSrc e) = some e) ∧
    (∀ x, xexprOk st x = true → readXExpr st (xexprSrc x) = some x) ∧
    (∀ d, dirOk st d = true → readDir st d.name (dirSrc d) = some d) := by
  refine ⟨?_, readXExpr_print st, readDir_print st⟩
  intro e h
  unfold readExpr exprSrc
  have ht : tokenize (toksSrc (exprToks e)) = some (exprToks e) := tokenize_print _ (xexprToks_ok st (.pure e) h)
  rw [ht]
  exact readExprToks_print st e h

/-- **`interpolate` on any number of pieces** (generalises `expression_boundaries_text_template`):
    a run of non-empty `$`-free texts (never two in a row) and `${…}` expressions with scannable,
    non-empty sources is cut into exactly these pieces. -/
theorem interpolate_any_number_of_pieces (ps : List (Bool × List Char)) (h : SegOK ps)
    (hm : Genshi.Py.Lex.unmodelled (segSrc ps) = false) : interpolate (segSrc ps) = .ok (ps.map pieceEv) :=
  interpolate_seg ps h hm

/-- **Inversion of the text-template reader, on token lists.**  Every list of template tokens
    (texts without backslash / `$` / `{`, never two in a row; `${…}`; `{% directive %}`; `{% end %}` —
    balanced or not) that satisfies the decidable side condition `ttoksOk`, printed in the new text
    syntax, is read back — scanner, `_escape_re`, `interpolate` over `lex`, tokenizer, reader of
    expressions and directive values — to exactly the list it was printed from.  (`hm`: the printed
    text is inside the domain of the C03 lexer model: ASCII, no triple quotes.) -/
theorem raw_print_roundtrip_tokens (st : Bool) (ts : List TTok) (h : ttoksOk st ts = true)
    (hm : Genshi.Py.Lex.unmodelled (ttoksNew ts) = false) : rawToks false st (ttoksNew ts) = .ok ts :=
  rawToks_print_flat st ts h hm

/-- **Inversion of the text-template reader.**  For every text-template AST satisfying the
    decidable side condition `nodesOk` (maximal non-empty texts without backslash / `$` / `{`;
    identifiers that are not words of the mini language; string literals without quote, backslash,
    line feed, `%`, `#`; directives of the text languages; `with` with at least one binding; parameters
    with defaults last, keyword arguments last): the source text printed from the AST is read back to
    the token form of the AST — `rawToks (print ns) = toTokss ns`. -/
theorem raw_print_roundtrip (st : Bool) (ns : List TNode) (h : nodesOk st ns = true)
    (hm : Genshi.Py.Lex.unmodelled (nodesNew ns) = false) : rawToks false st (nodesNew ns) = .ok (toTokss ns) :=
  rawToks_print st ns h hm

/-- **`impl_eq_doc` as a statement about template source text.**  For every such AST and all data:
    the documentation semantics defines the output `o` of the AST iff the template *source*, read
    and compiled from its characters (`renderRaw`: scanner, escapes, `lex`/`interpolate`, reader,
    token loop, `_prepare`, `_flatten` with the directive chain), renders exactly `o`:
    `render (parse (print ast)) = doc ast`. -/
theorem source_text_eq_doc (st : Bool) (ns : List TNode) (data : Env) (o : List Event)
    (h : nodesOk st ns = true) (hm : Genshi.Py.Lex.unmodelled (nodesNew ns) = false) :
    (∃ n, docRender n ns data = .ok o) ↔ (∃ m, renderRaw m false st (nodesNew ns) data = .ok (.ok o)) := by
  rw [impl_eq_doc ns data o (nodesOk_text st ns h).2]
  simp only [renderRaw_print st ns h hm, Except.ok.injEq]

/-- **The raw token loop commutes with reading.**  Whenever a source can be read into tokens, the
    stream `NewTextTemplate._parse` builds from the raw (command, value) pairs (`parseNew`: depth
    counter, `dirmap`, SUB events carrying command and value *strings*), read event by event, is the
    stream `textParse` builds from the read tokens — the loop all run-time theorems are about. -/
theorem raw_loop_commutes (st : Bool) (src : List Char) (toks : List TTok)
    (h : rawToks false st src = .ok toks) :
    ∃ evs, parseNew src = .ok evs ∧ ReadEvs st evs (textParse toks) :=
  parseNew_commutes st src toks h

/-- a template with a loop, a macro with a default, calls by position and by keyword (None) -/
private def exInv : List TNode :=
  [.text cs!"a 50% ",
   .delem (.def_ cs!"f" [(cs!"x", none), (cs!"p", some (.lit (.atom (.str cs!"Z"))))])
     [.expr (.pure (.var cs!"x")), .text cs!".", .expr (.pure (.eq (.var cs!"p") (.lit (.atom .none))))],
   .delem (.for_ cs!"it" (.lit (.list [.int 1, .int (-2)])))
     [.expr (.call (.var cs!"f") [(none, .ix (.var cs!"d") (.lit (.atom (.str cs!"k")))), (some cs!"p", .lit (.atom .none))]),
      .text cs!", "],
   .expr (.pure (.len (.lit (.dict [(cs!"k", .bool true)]))))]

example : nodesNew exInv =
    cs!"a 50% {% def f(x, p='Z') %}${x}.${(p == None)}{% end %}{% for it in [1, (-2)] %}${f(d['k'], p=None)}, {% end %}${len({'k': True})}" := by
  decide

example : nodesOk false exInv = true ∧ Genshi.Py.Lex.unmodelled (nodesNew exInv) = false := by decide

example : rawToks false false (nodesNew exInv) = .ok (toTokss exInv) :=
  raw_print_roundtrip false exInv (by decide) (by decide)

/-! #### the old text syntax -/

/-- **Printer round trip (old syntax)** — the full statement `scan_old_line_roundtrip_partial` left open.
    Every well-formed old-syntax token list (non-empty maximal texts; directive / comment lines
    `[blanks]#body` whose body starts with a word character or `#` and holds no line feed; a text in
    front of a line ends with a line feed), printed with `\#` for every `#` of a text, is scanned to
    itself: `(scanOld (printOld ts)).map cookOld = ts`. -/
theorem scan_old_print_roundtrip (ts : List OCTok) (wf : WFOld ts) : (scanOld (printOld ts)).map cookOld = ts :=
  Genshi.Tmpl.Scan.scan_old_print_roundtrip ts wf

example : printOld [.text cs!"a#b\n", .line cs!" \t" cs!"if x", .line [] cs!"# note", .text cs!"z "] =
    cs!"a\\#b\n \t#if x\n## note\nz " := by decide

/-- **Inversion of the reader, old syntax, on token lists**: under `ttoksOkOld` (= `ttoksOk`, no `#`
    in texts, and the line discipline `lineStarts`: a directive line starts the template or follows a
    directive line or a text that ends with a line feed). -/
theorem raw_print_roundtrip_tokens_old (st : Bool) (ts : List TTok) (h : ttoksOkOld st ts = true)
    (hm : Genshi.Py.Lex.unmodelled (ttoksOld ts) = false) : rawToks true st (ttoksOld ts) = .ok ts :=
  rawToks_print_flat_old st ts h hm

/-- **Inversion of the reader, old syntax**: `rawToks (print ns) = toTokss ns` for every text-template
    AST with `nodesOkOld` (the scanner with `^` at line starts, `\#`, `lstrip()[1:].split(None, 1)`, the
    value keeping its line feed, tokenizer, reader). -/
theorem raw_print_roundtrip_old (st : Bool) (ns : List TNode) (h : nodesOkOld st ns = true)
    (hm : Genshi.Py.Lex.unmodelled (nodesOld ns) = false) : rawToks true st (nodesOld ns) = .ok (toTokss ns) :=
  rawToks_print_old st ns h hm

/-- `impl_eq_doc` about the source text of an old-syntax template. -/
theorem source_text_eq_doc_old (st : Bool) (ns : List TNode) (data : Env) (o : List Event)
    (h : nodesOkOld st ns = true) (hm : Genshi.Py.Lex.unmodelled (nodesOld ns) = false) :
    (∃ n, docRender n ns data = .ok o) ↔ (∃ m, renderRaw m true st (nodesOld ns) data = .ok (.ok o)) := by
  have h0 : nodesOk st ns = true := by simp only [nodesOkOld, Bool.and_eq_true] at h; exact h.1.1
  rw [impl_eq_doc ns data o (nodesOk_text st ns h0).2]
  simp only [renderRaw_print_old st ns h hm, Except.ok.injEq]

private def exInvOld : List TNode :=
  [.text cs!"a 50%\n",
   .delem (.def_ cs!"f" [(cs!"x", none), (cs!"p", some (.lit (.atom (.str cs!"Z"))))])
     [.expr (.pure (.var cs!"x")), .text cs!".\n"],
   .delem (.choose none) [.delem (.when (some (.var cs!"w"))) [.text cs!"b\n"], .delem .otherwise []],
   .expr (.call (.var cs!"f") [(none, .lit (.atom (.int 1))), (some cs!"p", .lit (.atom .none))])]

example : nodesOld exInvOld =
    cs!"a 50%\n#def f(x, p='Z')\n${x}.\n#end\n#choose\n#when w\nb\n#end\n#otherwise\n#end\n#end\n${f(1, p=None)}" := by
  decide

example : nodesOkOld false exInvOld = true ∧ Genshi.Py.Lex.unmodelled (nodesOld exInvOld) = false := by decide

example : rawToks true false (nodesOld exInvOld) = .ok (toTokss exInvOld) :=
  raw_print_roundtrip_old false exInvOld (by decide) (by decide)

end Inversion

/-! ### custom delimiters of `NewTextTemplate` (`Model/TmplScanD.lean`) -/

section Delimiters
open Genshi.Tmpl.Scan Genshi.Tmpl.ScanD

/-- At the default delimiters the scanner and the unescape parameterised by the four delimiter
    strings ARE the ones every other theorem is about. -/
theorem scan_delims_default (s : List Char) : scanD dflt s = scanNew s ∧ unescapeD dflt s = unescapeNew s :=
  ⟨scanD_default s, unescapeD_default s⟩

/-- **Losslessness for all delimiters** inside the side condition `Delims.ok` (indeed whenever the two
    comment delimiters are not both empty: `scanD_lossless`; with both empty it is false:
    `scanD_lossless_needs_hyp`): the source texts of the tokens concatenate to the input. -/
theorem scan_delims_lossless (d : Delims) (h : d.ok = true) (s : List Char) : (scanD d s).flatMap (srcD d) = s :=
  scanD_lossless_of_ok d h s

/-- **Printed constructs are scanned as themselves, for all delimiter choices** with `Delims.ok`
    (non-empty delimiters; the directive end starts with a character that is neither `\w` nor `\s`).
    Full statement (open): `(scanD d (printD d ts)).map (cookD d) = ts` for every well-formed token list
    (needs in addition that no end delimiter ends in a backslash, and the text case with `escapeD`).
    Proved here, whatever surrounds them: (1) a printed directive `SD cmd value ED` whose value does not
    hold the end delimiter early (`OkDirD`) at a position not behind a backslash is exactly one token
    with that command and value, and scanning resumes behind it; (2) the same for a printed comment
    when the comment start is not also a directive start. -/
theorem scan_delims_print_roundtrip_partial (d : Delims) (hd : d.ok = true) :
    (∀ (cmd val : List Char), OkDirD d cmd val → ∀ (p : Char), p ≠ '\\' → ∀ (acc rest : List Char),
      scanDGo d 0 p acc (printDTok d (.dir cmd val) ++ rest) =
        flushText acc ++ RTok.dir (dirInner cmd val) cmd val ::
          scanDGo d 0 (lastCh p (printDTok d (.dir cmd val))) [] rest) ∧
    (∀ (b : List Char), NoOcc d.ec b → (∀ y, dropPrefix? d.sd (d.sc ++ y) = none) → ∀ (p : Char), p ≠ '\\' →
      ∀ (acc rest : List Char),
      scanDGo d 0 p acc (printDTok d (.comment b) ++ rest) =
        flushText acc ++ RTok.comment b :: scanDGo d 0 (lastCh p (printDTok d (.comment b))) [] rest) :=
  ⟨fun _ _ ok p hp acc rest => scanDGo_printed_dir d hd ok p hp acc rest,
   fun _ h hsep p hp acc rest => scanDGo_printed_comment' d hd h hsep p hp acc rest⟩

example : (⟨cs!"<<", cs!">>", cs!"<#", cs!"#>"⟩ : Delims).ok = true := by decide +kernel
example : scanD ⟨cs!"<<", cs!">>", cs!"<#", cs!"#>"⟩ cs!"a<< if x >>b<# c #>" =
    [.text cs!"a", .dir cs!" if x " cs!"if" cs!"x", .text cs!"b", .comment cs!" c "] := by decide +kernel

end Delimiters

end Genshi.Props.C04

/-
  C14 — Disabling code execution disables it on every path.
  Property theorems only; the model is `Genshi/Model/Exec.lean`, the forwarding tables
  (`Genshi/Gen/Exec.lean`) are regenerated from the code under test on every run.

  OBLIGATIONS (checked by the harness: each must exist and depend on allowed axioms only):
    disabled_everywhere disabled_raises loader_off_governs_includes
    held_flag_is_loader_flag enabled_runs mixed_config_includes_run
    off_spelling_any_case parse_deny_iff_documented documented_off_denied
    plugin_tables_agree spellings_probed lower_model_exact
    graph_disabled_no_exec flag_only_affects_code_blocks parse_ignores_flag_without_code
    graph_disabled_completes_only_without_code graph_disabled_reachable_code_fails
    graph_disabled_raises_syntax_error graph_loader_off_only_root_runs
    ctor_forwards_flag loader_forwards_flag include_forwards_flag plugin_forwards_flag
    node_characterised exec_iff_governing_flag_on
    markup_parse_flag_only_at_code markup_parse_off_no_exec markup_parse_off_rejects
    markup_parse_off_error_kind text_parse_flag_only_at_code text_parse_off_no_exec
    text_parse_off_rejects
    lru_history_disabled_no_exec lru_later_load_rejects_code lru_cache_stays_code_free
    disabled_no_exec_object shapes_disabled_no_exec_object shapes_enabled_exec_exists
    skeleton_sees_every_suite shapes_cover_nesting shapes_probed
    plain_shapes_flag_independent pickle_preserves_flags
    memo_history_disabled_no_exec memo_cache_stays_code_free memo_later_load_code_free
    memo_later_load_rejects_code
-/
import Genshi.Lemmas.ExecLru
import Genshi.Lemmas.ExecRaise
import Genshi.Lemmas.ExecParse
import Genshi.Lemmas.ExecShape
import Genshi.Lemmas.ExecMemo
namespace Genshi.Props.C14
open Genshi.Exec Genshi.Gen.Exec


/-! ### plugin option spellings -/

/-- **for every string**: the option parser says "deny" exactly for the documented
    off-spellings — `no`, `false`, `off`, `0` in any letter case, and nothing else -/
theorem parse_deny_iff_documented (s : List Char) :
    parseOpt (.str s) = .deny ↔ s ∈ offSpellings := parse_deny_iff_documented_lem s

/-- any letter-casing of a false-word switches execution off -/
theorem off_spelling_any_case (s : List Char) (h : lower s ∈ wordsOff) : parseOpt (.str s) = .deny :=
  off_spelling_any_case_lem s h

/-- whatever the documentation calls "off" is read as "deny" -/
theorem documented_off_denied (o : Opt) (h : documented o = some false) : parseOpt o = .deny :=
  documented_off_denied_lem o h

/-- tie to the code: on **every probed option value** (all letter cases of the eight words, the
    booleans, absent, integers, None, junk strings) and for each plugin class the real plugin
    behaved as `parseOpt` says: the spelling matters only through the parsed flag -/
theorem plugin_tables_agree (p : Plugin) :
    (pluginRows p).all (fun e => decide (modelRow p e.1 = some e.2)) = true := by
  cases p <;> decide +kernel

/-- the probe set covers every documented spelling and the booleans -/
theorem spellings_probed (p : Plugin) :
    (offSpellings ++ onSpellings).all (fun s => ((pluginRows p).lookup (.str s)).isSome) = true
    ∧ ((pluginRows p).lookup (.bool false)).isSome = true
    ∧ ((pluginRows p).lookup (.bool true)).isSome = true
    ∧ ((pluginRows p).lookup .absent).isSome = true := by
  cases p <;> decide +kernel

/-- `lowerC` is Python's `str.lower` as far as the option words are concerned: it is `str.lower`
    on ASCII, and no non-ASCII character lower-cases to text containing a letter (or digit) of
    the option words -/
theorem lower_model_exact :
    asciiLower.all (fun e => decide ([lowerC (Char.ofNat e.1)] = e.2)) = true ∧
    lowerToAscii.all (fun e => e.2.all fun ch =>
      (wordsOn ++ wordsOff).all fun w => !(w.contains ch)) = true := by
  constructor <;> decide +kernel

/-! ### every flag is forwarded exactly (characterisation of the generated tables) -/

/-- the flag a keyword argument asks for: absent = the default = on -/
def want (q : Req) : Bool := q != .off

/-- fate of a code block in a template of class `c` whose flag is `b`: old-style text templates
    have no code blocks (`#python` is a bad directive), the others run it iff the flag is on -/
def fate (c : Cls) (b : Bool) : Verdict :=
  if c = .oldtext then .reject else if b then .exec else .reject

/-- **constructors**: for every class, source kind, requested flag and loader argument the
    instance's `allow_exec` is the requested flag, the loader it holds carries the explicit
    loader's flag or — when it made its own — the template's, and the parser rejects a code
    block exactly when the flag is off -/
theorem ctor_forwards_flag (c : Cls) (s : Src) (q : Req) (ld : Option Req) (h : srcOk c s = true) :
    directFlag c s q ld = some (want q) ∧
    directLoaderFlag c s q ld = some (match ld with | none => want q | some l => want l) ∧
    directVerdict c s q ld = fate c (want q) := by
  rcases ld with _ | l
  · cases c <;> cases s <;> cases q <;> first | exact ⟨rfl, rfl, rfl⟩ | cases h
  · cases c <;> cases s <;> cases q <;> cases l <;> first | exact ⟨rfl, rfl, rfl⟩ | cases h

/-- **loader**: `TemplateLoader(allow_exec=q)` has that flag, hands it to every template it
    instantiates (`cls=` or `default_class`), and hands itself on as their loader -/
theorem loader_forwards_flag (c : Cls) (d : Bool) (q : Req) :
    loaderFlag c d q = some (want q) ∧ loadFlag c d q = some (want q) ∧
    loadLoaderFlag c d q = some (want q) ∧ loadVerdict c d q = fate c (want q) := by
  cases c <;> cases d <;> cases q <;> exact ⟨rfl, rfl, rfl, rfl⟩

/-- **includes**: whatever the including class, parse mode and reload mode, the included template
    is of the class the include asks for, is instantiated with the flag of the includer's loader,
    and holds that same loader -/
theorem include_forwards_flag (c : Cls) (p : Parse) (lf ar : Bool) (h : c = .markup ∨ p = .same) :
    inclStep c p lf ar = some (childCls c p, fate (childCls c p) lf, lf) := by
  rcases h with rfl | rfl
  · cases p <;> cases lf <;> cases ar <;> rfl
  · cases c <;> cases lf <;> cases ar <;> rfl

/-- **plugins**: with the option read as `b`, file templates and string templates alike get the
    flag `b` and a loader with the flag `b` -/
theorem plugin_forwards_flag (p : Plugin) (b : Bool) :
    ∃ c, pluginCls p = some c ∧
      pluginByFlag p b = some ⟨if b then .allow else .deny, fate c b, some b, some b, fate c b, some b, some b⟩ := by
  cases p <;> cases b <;> exact ⟨_, rfl, by decide +kernel⟩

/-! ### code runs exactly when the governing flag is on -/

/-- the flag the root template itself is instantiated with -/
def rootFlag (cfg : Config) : Root → Option Bool
  | .direct _ _ _ => some (want cfg.tmpl)
  | .load _ _ => some (want cfg.loader)
  | .pluginFile _ | .pluginString _ =>
      match parseOpt cfg.opt with
      | .allow => some true
      | .deny => some false
      | _ => none

/-- the flag of the loader the root holds — the flag everything below the root is instantiated
    with -/
def heldFlag (cfg : Config) : Root → Option Bool
  | .direct _ _ true => some (want cfg.tmpl)
  | .direct _ _ false => some (want cfg.loader)
  | r => rootFlag cfg r

/-- the flag that governs the template reached by `r` -/
def governing (cfg : Config) : Reach → Option Bool
  | .root r => rootFlag cfg r
  | .incl parent _ => heldFlag cfg parent.rootOf

theorem inclStep_some (c : Cls) (p : Parse) (lf ar : Bool) (x : Cls × Verdict × Bool)
    (h : inclStep c p lf ar = some x) : c = .markup ∨ p = .same := by
  cases c <;> cases p <;> cases lf <;> cases ar <;> simp [inclStep] at h <;> simp

theorem srcOk_of_some (c : Cls) (s : Src) (q : Req) (ld : Option Req) (b : Bool)
    (h : directLoaderFlag c s q ld = some b) : srcOk c s = true := by
  have := (directFlag_isSome c s q ld).2
  rw [h] at this
  exact this.symm

/-- **complete characterisation of the reachability model**: wherever a template is reached, the
    loader it holds carries the root's held flag, and a code block in it meets the fate of its
    class under the governing flag — the constructor / loader / plugin flag for the root, the held
    loader's flag for everything included, at any depth -/
theorem node_characterised (cfg : Config) (r : Reach) (n : Node) (h : node cfg r = some n) :
    heldFlag cfg r.rootOf = some n.loaderFlag ∧
    ∃ g, governing cfg r = some g ∧ n.verdict = fate n.cls g := by
  induction r generalizing n with
  | root r0 =>
      cases r0 with
      | direct c s own =>
          simp only [node, rootNode] at h
          cases hl : directLoaderFlag c s cfg.tmpl (if own = true then none else some cfg.loader) with
          | none => rw [hl] at h; cases h
          | some lf =>
              rw [hl] at h
              cases h
              have hs := srcOk_of_some c s _ _ lf hl
              obtain ⟨_, h2, h3⟩ := ctor_forwards_flag c s cfg.tmpl (if own = true then none else some cfg.loader) hs
              rw [hl] at h2
              cases own with
              | true => exact ⟨by simpa [heldFlag, Reach.rootOf] using h2.symm, _, rfl, h3⟩
              | false => exact ⟨by simpa [heldFlag, Reach.rootOf] using h2.symm, _, rfl, h3⟩
      | load c d =>
          simp only [node, rootNode] at h
          obtain ⟨_, _, h3, h4⟩ := loader_forwards_flag c d cfg.loader
          rw [h3] at h
          cases h
          exact ⟨rfl, _, rfl, h4⟩
      | pluginFile p =>
          simp only [node, rootNode] at h
          obtain ⟨c, hc, hrow⟩ := plugin_forwards_flag p true
          obtain ⟨c', hc', hrow'⟩ := plugin_forwards_flag p false
          rw [hc] at hc'; cases hc'
          cases hp : parseOpt cfg.opt with
          | allow =>
              simp only [hp, hc, hrow, Option.bind_some, Option.map_some] at h
              cases h
              exact ⟨by simp [heldFlag, rootFlag, Reach.rootOf, hp], true, by simp [governing, rootFlag, hp], rfl⟩
          | deny =>
              simp only [hp, hc, hrow', Option.bind_some, Option.map_some] at h
              cases h
              exact ⟨by simp [heldFlag, rootFlag, Reach.rootOf, hp], false, by simp [governing, rootFlag, hp], rfl⟩
          | confError => simp [hp] at h
          | failed => simp [hp] at h
      | pluginString p =>
          simp only [node, rootNode] at h
          obtain ⟨c, hc, hrow⟩ := plugin_forwards_flag p true
          obtain ⟨c', hc', hrow'⟩ := plugin_forwards_flag p false
          rw [hc] at hc'; cases hc'
          cases hp : parseOpt cfg.opt with
          | allow =>
              simp only [hp, hc, hrow, Option.bind_some, Option.map_some] at h
              cases h
              exact ⟨by simp [heldFlag, rootFlag, Reach.rootOf, hp], true, by simp [governing, rootFlag, hp], rfl⟩
          | deny =>
              simp only [hp, hc, hrow', Option.bind_some, Option.map_some] at h
              cases h
              exact ⟨by simp [heldFlag, rootFlag, Reach.rootOf, hp], false, by simp [governing, rootFlag, hp], rfl⟩
          | confError => simp [hp] at h
          | failed => simp [hp] at h
  | incl parent p ih =>
      simp only [node] at h
      cases hp : node cfg parent with
      | none => rw [hp] at h; cases h
      | some m =>
          rw [hp] at h
          simp only [Option.bind_some, step] at h
          obtain ⟨hheld, _⟩ := ih m hp
          cases hi : inclStep m.cls p m.loaderFlag m.autoReload with
          | none => rw [hi] at h; cases h
          | some x =>
              have hcp := inclStep_some _ _ _ _ x hi
              rw [include_forwards_flag m.cls p m.loaderFlag m.autoReload hcp] at hi
              cases hi
              rw [include_forwards_flag m.cls p m.loaderFlag m.autoReload hcp] at h
              cases h
              exact ⟨hheld, m.loaderFlag, by simpa [governing, Reach.rootOf] using hheld, rfl⟩

/-- **code runs exactly when the governing flag is on** (and the class has code blocks at all):
    both directions, for every configuration — mixed ones included — and every reach -/
theorem exec_iff_governing_flag_on (cfg : Config) (r : Reach) :
    execAllowed cfg r = true ↔
      ∃ n, node cfg r = some n ∧ n.cls ≠ .oldtext ∧ governing cfg r = some true := by
  unfold execAllowed
  constructor
  · intro h
    cases hn : node cfg r with
    | none => rw [hn] at h; cases h
    | some n =>
        rw [hn] at h
        obtain ⟨_, g, hg, hv⟩ := node_characterised cfg r n hn
        have hv' : n.verdict = .exec := by simpa using h
        rw [hv'] at hv
        refine ⟨n, rfl, ?_, ?_⟩
        · intro hc; simp [fate, hc] at hv
        · cases g with
          | true => exact hg
          | false => by_cases hc : n.cls = .oldtext <;> simp [fate, hc] at hv
  · rintro ⟨n, hn, hc, hg⟩
    rw [hn]
    obtain ⟨_, g, hg', hv⟩ := node_characterised cfg r n hn
    rw [hg] at hg'
    cases hg'
    simp [hv, fate, hc]

/-! ### the property (reachability model over the generated tables) -/

/-- **Disabling code execution disables it on every path**: when every flag given for the root
    is off (constructor flag; loader flag; plugin option in any documented spelling), no
    template reachable from it — the root, or anything it includes directly or transitively,
    with any parse mode, at any depth — runs a code block. -/
theorem disabled_everywhere (cfg : Config) (r : Reach) (hd : r.rootOf.disabled cfg) :
    execAllowed cfg r = false := by
  unfold execAllowed
  cases hn : node cfg r with
  | none => rfl
  | some n =>
      have := (node_safe cfg r n hd hn).1
      simp [this]

/-- … and bringing such a template into existence with a code block in it raises a template
    syntax error (the verdict is `reject`, not merely "did not run") -/
theorem disabled_raises (cfg : Config) (r : Reach) (n : Node) (hd : r.rootOf.disabled cfg)
    (hn : node cfg r = some n) : n.verdict = .reject :=
  (node_safe cfg r n hd hn).1

/-- finer: whatever the root is and however it was configured, once the loader held by a
    reached template has its flag off, nothing below it runs code (templates "loaded through the
    same loader") -/
theorem loader_off_governs_includes (cfg : Config) (parent : Reach) (m : Node) (chain : List Parse)
    (hp : node cfg parent = some m) (hoff : m.loaderFlag = false) (p : Parse) :
    execAllowed cfg (chain.foldl Reach.incl (Reach.incl parent p)) = false := by
  have key : ∀ (chain : List Parse) (r : Reach), (∀ n, node cfg r = some n → Safe n) →
      ∀ n, node cfg (chain.foldl Reach.incl r) = some n → Safe n := by
    intro chain
    induction chain with
    | nil => intro r h n hn; exact h n hn
    | cons q qs ih =>
        intro r h n hn
        apply ih (Reach.incl r q) _ n hn
        intro k hk
        simp only [node] at hk
        cases hr : node cfg r with
        | none => rw [hr] at hk; cases hk
        | some j => rw [hr] at hk; exact step_safe j k q (h j hr) hk
  have base : ∀ n, node cfg (Reach.incl parent p) = some n → Safe n := by
    intro n hn
    simp only [node, hp, Option.bind_some] at hn
    unfold step at hn
    rw [hoff] at hn
    cases hi : inclStep m.cls p false m.autoReload with
    | none => rw [hi] at hn; cases hn
    | some t =>
        obtain ⟨c', v, lf⟩ := t
        rw [hi] at hn; cases hn
        exact inclStep_off _ _ _ _ _ _ hi
  unfold execAllowed
  cases hn : node cfg (chain.foldl Reach.incl (Reach.incl parent p)) with
  | none => rfl
  | some n => simp [(key chain _ base n hn).1]

/-- which flag the held loader carries: the template's own flag when it made its own loader,
    the explicit loader's flag otherwise (default = on) -/
theorem held_flag_is_loader_flag (cfg : Config) (c : Cls) (s : Src) (own : Bool) (n : Node)
    (hn : rootNode cfg (.direct c s own) = some n) :
    n.loaderFlag = (if own then decide (cfg.tmpl ≠ .off) else decide (cfg.loader ≠ .off)) := by
  obtain ⟨t, l, o, ar⟩ := cfg
  cases own <;> cases c <;> cases s <;> cases t <;> cases l <;>
    simp [rootNode, directLoaderFlag, directVerdict] at hn <;> (subst hn; rfl)

/-- non-vacuity of the whole construction: with the defaults, code blocks do run — in the root
    and three includes deep, through `parse="text"` -/
theorem enabled_runs :
    execAllowed ⟨.dflt, .dflt, .absent, false⟩ (.root (.direct .markup .str true)) = true ∧
    execAllowed ⟨.dflt, .dflt, .str ['y', 'e', 's'], true⟩
      (.incl (.incl (.incl (.root (.pluginFile .markup)) .same) .xml) .text) = true := by
  decide

/-- the hypothesis of `disabled_everywhere` cannot be weakened to "the constructor flag is off":
    a template given an explicit loader that allows execution hands its includes to that loader -/
theorem mixed_config_includes_run :
    execAllowed ⟨.off, .on, .absent, false⟩ (.root (.direct .markup .str false)) = false ∧
    execAllowed ⟨.off, .on, .absent, false⟩ (.incl (.root (.direct .markup .str false)) .same) = true := by
  decide

/-! ### the include-graph model: arbitrary (cyclic) include graphs, caches, histories -/

/-- **Disabling code execution disables it on every path — over arbitrary include graphs**:
    for every file system of templates (any include graph, cycles and diamonds included), every
    history of earlier loads through the same loader, every fuel and both include modes, a root
    whose flags are all off never moves the sentinel: no code block of the root, of anything it
    includes at run time or at prepare time, or of anything loaded before through the same
    loader, is executed. -/
theorem graph_disabled_no_exec (fuel pf : Nat) (cfg : Config) (root : Root) (fs : FS) (rn : Nat)
    (hist : List Nat) (hd : root.disabled cfg) : (run fuel pf cfg root fs rn hist).sentinel = [] := by
  unfold run
  cases hl : mkLoader cfg root with
  | error e => rfl
  | ok st =>
      obtain ⟨hc, hs⟩ := mkLoader_disabled cfg root st hd hl
      simp only
      have hh : StClean (afterHistory fuel pf fs root st hist).1 ∧
          (afterHistory fuel pf fs root st hist).1.sentinel = [] := by
        unfold afterHistory
        cases root.usesLoader with
        | true =>
            have := runHistory_clean fuel pf fs hist st hc
            exact ⟨this.1, this.2.trans hs⟩
        | false => exact ⟨hc, hs⟩
      obtain ⟨hch, hsh⟩ := hh
      generalize afterHistory fuel pf fs root st hist = h at hch hsh
      unfold finish
      cases hm : mkRoot cfg fs rn h.1 root with
      | error e => exact hsh
      | ok pr =>
          obtain ⟨st', t, stack⟩ := pr
          obtain ⟨hc', ht, hs'⟩ := mkRoot_disabled cfg fs rn h.1 st' root t stack hd hch hm
          have := gen_clean fuel pf fs true t.cls stack t st' hc' ht
          exact this.2.1.trans (hs'.trans hsh)

/-- **contradictory settings are judged per template**: a directly constructed template — whatever
    its own flag — that is given an explicit loader whose flag is off: the only code blocks that
    can ever run are those of the root file itself; nothing it includes (at any depth, in any
    mode, over any graph) and nothing loaded before through that loader runs. -/
theorem graph_loader_off_only_root_runs (fuel pf : Nat) (cfg : Config) (c : Cls) (s : Src) (fs : FS)
    (rn : Nat) (hist : List Nat) (hl : cfg.loader = .off) (hs : srcOk c s = true) :
    ∀ i ∈ (run fuel pf cfg (.direct c s false) fs rn hist).sentinel,
      ∃ f, fs.lookup rn = some f ∧ i ∈ codeIds f.items := by
  intro i hi
  unfold run at hi
  have hlf := (ctor_forwards_flag c s cfg.tmpl (some cfg.loader) hs).2.1
  have hml : mkLoader cfg (.direct c s false) = .ok (st0 false cfg.autoReload) := by
    simp only [mkLoader]
    have : (if false = true then none else some cfg.loader) = some cfg.loader := rfl
    rw [this, hlf, hl]
    rfl
  rw [hml] at hi
  simp only at hi
  have hc0 : StClean (st0 false cfg.autoReload) := st0_clean _
  have hh : StClean (afterHistory fuel pf fs (.direct c s false) (st0 false cfg.autoReload) hist).1 ∧
      (afterHistory fuel pf fs (.direct c s false) (st0 false cfg.autoReload) hist).1.sentinel = [] := by
    unfold afterHistory
    simp only [Root.usesLoader]
    have := runHistory_clean fuel pf fs hist _ hc0
    exact ⟨this.1, this.2⟩
  obtain ⟨hch, hsh⟩ := hh
  generalize afterHistory fuel pf fs (.direct c s false) (st0 false cfg.autoReload) hist = h at hch hsh hi
  unfold finish at hi
  cases hm : mkRoot cfg fs rn h.1 (.direct c s false) with
  | error e => rw [hm] at hi; simp only at hi; rw [hsh] at hi; cases hi
  | ok pr =>
      obtain ⟨st', t, stack⟩ := pr
      rw [hm] at hi
      simp only at hi
      -- the root object carries the items of the root file and leaves the loader untouched
      simp only [mkRoot] at hm
      have hld : (if false = true then none else some cfg.loader) = some cfg.loader := rfl
      try rw [hld] at hm
      cases hf : fs.lookup rn with
      | none => rw [hf] at hm; cases hdf : directFlag c s cfg.tmpl (some cfg.loader) <;> rw [hdf] at hm <;> cases hm
      | some f =>
          rw [hf] at hm
          cases hdf : directFlag c s cfg.tmpl (some cfg.loader) with
          | none => rw [hdf] at hm; cases hm
          | some tf =>
              rw [hdf] at hm
              simp only at hm
              cases hp : parseFile c tf rn f with
              | error e => rw [hp] at hm; cases hm
              | ok t1 =>
                  rw [hp] at hm
                  cases hm
                  have hitems := (parse_items c tf rn f t hp).1
                  have := (gen_own_only fuel pf fs true t.cls [rn] t h.1 hch).2 i hi
                  rw [hsh] at this
                  rcases this with h0 | h1
                  · cases h0
                  · exact ⟨f, rfl, by rw [← hitems]; exact h1⟩

/-! ### templates without code blocks render identically whether execution is allowed or not -/

/-- parse level: for a source without code blocks `_parse` does not read the flag -/
theorem parse_ignores_flag_without_code (c : Cls) (name : Nat) (f : File) (h : noCode f.items = true)
    (b b' : Bool) : parseFile c b name f = parseFile c b' name f :=
  parse_noCode_flag c name f h b b'

/-- **Templates without code blocks render identically whether execution is allowed or not**:
    over a file system without code blocks, two configurations that differ in the flags only
    (constructor flag, loader flag, plugin option — neither being a configuration error) give
    the same outcome of the whole experiment: same error or same output, same history — for
    every include graph, fuel, include mode and history. -/
theorem flag_only_affects_code_blocks (fuel pf : Nat) (cfg cfg' : Config) (root : Root) (fs : FS)
    (rn : Nat) (hist : List Nat) (hfs : FsNoCode fs) (har : cfg.autoReload = cfg'.autoReload)
    (st st' : St) (h1 : mkLoader cfg root = .ok st) (h2 : mkLoader cfg' root = .ok st') :
    run fuel pf cfg root fs rn hist = run fuel pf cfg' root fs rn hist := by
  unfold run
  rw [h1, h2]
  simp only
  have hst : st' = st.setFlag st'.flag := by
    rw [mkLoader_shape cfg' root st' h2, mkLoader_shape cfg root st h1, har]; rfl
  rw [hst]
  generalize st'.flag = b
  -- the history
  have hh : afterHistory fuel pf fs root (st.setFlag b) hist =
      ((afterHistory fuel pf fs root st hist).1.setFlag b, (afterHistory fuel pf fs root st hist).2) := by
    unfold afterHistory
    cases root.usesLoader with
    | true => exact runHistory_flag fuel pf fs hfs b hist st
    | false => rfl
  rw [hh]
  generalize afterHistory fuel pf fs root st hist = h
  unfold finish
  obtain ⟨b', hm⟩ := mkRoot_flag cfg cfg' fs hfs rn h.1 b root
  simp only
  rw [hm]
  cases mkRoot cfg fs rn h.1 root with
  | error e => rfl
  | ok pr =>
      obtain ⟨s, t, k⟩ := pr
      simp only
      rw [gen_flag fuel pf fs hfs b' true t.cls k t s]
      rfl

/-- **with execution disabled, a run completes only over a code-free tree**: if the experiment
    ends without error then every template reachable from the root through includes (any depth,
    any mode, cycles included — a cyclic tree never completes) is free of code blocks.
    Contrapositive: a code block anywhere in the reachable tree makes the run fail. -/
theorem graph_disabled_completes_only_without_code (fuel pf : Nat) (cfg : Config) (root : Root) (fs : FS)
    (rn : Nat) (hist : List Nat) (hd : root.disabled cfg)
    (hok : (run fuel pf cfg root fs rn hist).err = none) :
    ∀ b, Reaches fs rn b → ∃ f, fs.lookup b = some f ∧ noCode f.items = true := by
  unfold run at hok
  cases hl : mkLoader cfg root with
  | error e => rw [hl] at hok; cases hok
  | ok st =>
      rw [hl] at hok
      simp only at hok
      obtain ⟨hc, _⟩ := mkLoader_disabled cfg root st hd hl
      have hf := mkLoader_faithful cfg fs root st hl
      have hh : StClean (afterHistory fuel pf fs root st hist).1 ∧
          Faithful fs (afterHistory fuel pf fs root st hist).1 := by
        unfold afterHistory
        cases root.usesLoader with
        | true => exact ⟨(runHistory_clean fuel pf fs hist st hc).1, runHistory_faithful fuel pf fs hist st hf⟩
        | false => exact ⟨hc, hf⟩
      obtain ⟨hch, hfh⟩ := hh
      generalize afterHistory fuel pf fs root st hist = h at hch hfh hok
      unfold finish at hok
      cases hm : mkRoot cfg fs rn h.1 root with
      | error e => rw [hm] at hok; cases hok
      | ok pr =>
          obtain ⟨st', t, stack⟩ := pr
          rw [hm] at hok
          simp only at hok
          obtain ⟨hc', ht, _⟩ := mkRoot_disabled cfg fs rn h.1 st' root t stack hd hch hm
          obtain ⟨hf', hname, htf⟩ := mkRoot_faithful cfg fs rn h.1 st' root t stack hfh hm
          rcases hg : gen fuel pf fs true t.cls stack t st' with ⟨s2, e2⟩
          rw [hg] at hok
          simp only at hok
          subst hok
          have hclean2 := (gen_clean fuel pf fs true t.cls stack t st' hc' ht)
          have hgrow2 := gen_grows fuel pf fs true t.cls stack t st' hf'
          rw [hg] at hclean2 hgrow2
          have hclosure := gen_closure fuel pf fs true t.cls stack t st' s2 hf' htf hg
          obtain ⟨f, hfl, hitems, _⟩ := htf
          rw [hname] at hfl
          intro b hb
          cases hb with
          | refl => exact ⟨f, hfl, by rw [← hitems]; exact ht⟩
          | step _ n _ hinc hnb =>
              obtain ⟨f', p, dyn, hfl', hmem⟩ := hinc
              rw [hfl] at hfl'
              cases hfl'
              rw [← hitems] at hmem
              obtain ⟨abs, t2, hlk⟩ := hclosure n p dyn hmem b hnb
              obtain ⟨hn2, f2, hf2, hi2, _⟩ := hgrow2.1 _ _ hlk
              have hn2' : t2.name = b := hn2
              refine ⟨f2, by rw [← hn2']; exact hf2, ?_⟩
              rw [← hi2]
              exact hclean2.1.2 _ _ hlk

/-- a code block anywhere in the tree reachable from a disabled root: the run fails — in
    particular when the root template itself holds one -/
theorem graph_disabled_reachable_code_fails (fuel pf : Nat) (cfg : Config) (root : Root) (fs : FS)
    (rn : Nat) (hist : List Nat) (hd : root.disabled cfg) (b : Nat) (f : File) (hb : Reaches fs rn b)
    (hf : fs.lookup b = some f) (hcode : noCode f.items = false) :
    (run fuel pf cfg root fs rn hist).err ≠ none := by
  intro hok
  obtain ⟨f', hf', hn⟩ := graph_disabled_completes_only_without_code fuel pf cfg root fs rn hist hd hok b hb
  rw [hf] at hf'
  cases hf'
  rw [hcode] at hn
  cases hn

/-- **… constructing or loading such a template raises a template syntax error**: over a
    well-formed include graph (every include names an existing file written in the language the
    include asks for; acyclic — a rank decreases along includes), for a root whose file exists and
    fits its class, with fuel beyond the rank of the root: a disabled run over a tree with a code
    block anywhere in it ends in `TemplateSyntaxError` — not in "not found", not in a recursion
    error, not in a configuration error, and never outside the model (`unmodelled`). -/
theorem graph_disabled_raises_syntax_error (fuel pf : Nat) (cfg : Config) (root : Root) (fs : FS)
    (rn : Nat) (hist : List Nat) (rank : Nat → Nat) (hd : root.disabled cfg) (hwf : WellFormed fs rank)
    (hroot : RootOk root fs rn) (hfuel : rank rn < fuel) (hpf : rank rn < pf)
    (b : Nat) (f : File) (hb : Reaches fs rn b) (hf : fs.lookup b = some f) (hcode : noCode f.items = false) :
    ∃ n, (run fuel pf cfg root fs rn hist).err = some (.syntax n) := by
  have hne := graph_disabled_reachable_code_fails fuel pf cfg root fs rn hist hd b f hb hf hcode
  cases he : (run fuel pf cfg root fs rn hist).err with
  | none => exact absurd he hne
  | some e =>
      have hk := run_err_syntax fuel pf cfg root fs rn hist rank hd hwf hroot hfuel hpf e he
      cases e with
      | «syntax» n => exact ⟨n, rfl⟩
      | unmodelled => cases hk
      | notFound n => cases hk
      | diverge => cases hk
      | config => cases hk

/-! ### the two guarded parsers, function by function (`Genshi/Model/ExecParse.lean`) -/

section ParseLevel
open Genshi.Exec.Parse

/-- `MarkupTemplate._parse` reads the flag at a `<?python ?>` instruction and nowhere else: for
    every parser event sequence without one — whatever `interpolate` and `Suite` do — the
    result (stream or error) is the same under both flags -/
theorem markup_parse_flag_only_at_code (env : Env) (src : List XEv)
    (h : ∀ ev ∈ src, ev.isCode = false) (acc : List TEv) :
    parseMarkup env true src acc = parseMarkup env false src acc :=
  parseMarkup_flag env src h acc

/-- with the flag off the compiled stream holds no EXEC event, at any nesting -/
theorem markup_parse_off_no_exec (env : Env) (hp : InterpPure env) (src : List XEv) (out : List TEv)
    (h : parseMarkup env false src [] = .ok out) : hasExecList out = false :=
  parseMarkup_off_no_exec env hp src [] out rfl h

/-- with the flag off a source holding a `<?python ?>` instruction anywhere never parses -/
theorem markup_parse_off_rejects (env : Env) (src : List XEv) (h : ∃ ev ∈ src, ev.isCode = true)
    (out : List TEv) : parseMarkup env false src [] ≠ .ok out :=
  parseMarkup_off_rejects env src h [] out

/-- … and the error is "Python code blocks not allowed" unless `interpolate` failed first: the
    block is not even compiled -/
theorem markup_parse_off_error_kind (env : Env) (src : List XEv) (e : PErr)
    (h : parseMarkup env false src [] = .error e) : e = .notAllowed ∨ ∃ s, env.interp s = .error e :=
  parseMarkup_off_error_kind env src [] e h

/-- the same three facts for `NewTextTemplate._parse` and `{% python %}`, for every segment list,
    directive table and nesting (stray `{% end %}` and unclosed directives included) -/
theorem text_parse_flag_only_at_code (env : Env) (src : List Seg) (h : ∀ sg ∈ src, sg.isCode = false) :
    parseText env true src [] [] 0 = parseText env false src [] [] 0 :=
  parseText_flag env src h [] [] 0

theorem text_parse_off_no_exec (env : Env) (hp : InterpPure env) (src : List Seg) (out : List TEv)
    (h : parseText env false src [] [] 0 = .ok out) : hasExecList out = false :=
  parseText_off_no_exec env hp src [] [] 0 out rfl h

theorem text_parse_off_rejects (env : Env) (src : List Seg) (h : ∃ sg ∈ src, sg.isCode = true)
    (out : List TEv) : parseText env false src [] [] 0 ≠ .ok out :=
  parseText_off_rejects env src h [] [] 0 out

/-- an environment for the examples: `$x`-free text, every block compiles, `if` is a directive -/
def exEnv : Env := ⟨fun s => .ok [.text s], fun _ => true, fun c => c = ['i', 'f']⟩

-- with the flag on the block inside `{% if %}…{% end %}` ends up as an EXEC event inside the SUB …
example : (parseText exEnv true [.dir ['i', 'f'] ['x'], .text ['a'], .dir python ['y'], .dir kwEnd []] [] [] 0).toOption.map hasExecList
    = some true := by decide
-- … with the flag off the same source is rejected; without the block both flags agree
example : (match parseText exEnv false [.dir ['i', 'f'] ['x'], .text ['a'], .dir python ['y'], .dir kwEnd []] [] [] 0 with
    | .error e => e == .notAllowed
    | .ok _ => false) = true := by decide
example : (parseMarkup exEnv true [.other 0, .pi python ['y'], .comment [' ', '!', 'x'], .other 1] []).toOption.map List.length
    = some 3 := by decide
example : InterpPure exEnv := by
  intro s evs h
  simp only [exEnv] at h
  cases h
  rfl

end ParseLevel

/-! ### non-vacuity of the hypotheses -/

example : (Root.direct .newtext .bytes true).disabled ⟨.off, .dflt, .absent, false⟩ := rfl
example : (Root.pluginString .text).disabled ⟨.dflt, .dflt, .str ['N', 'o'], true⟩ := by decide
example : node ⟨.off, .off, .absent, true⟩ (.incl (.incl (.root (.direct .markup .stream false)) .xml) .text)
    = some ⟨.newtext, .reject, false, true⟩ := by decide
example : ['F', 'a', 'L', 's', 'E'] ∈ offSpellings := by decide
example : parseOpt (.str ['n', 'o', ' ']) = .confError := by decide


/-- a cyclic include graph: the markup root includes a text template that runs a code block twice
    and then includes itself at run time -/
def exFs : FS :=
  [(0, ⟨.markup, [.text 1, .incl 1 .text false, .code 5 1]⟩),
   (1, ⟨.newtext, [.code 7 2, .expr 2, .incl 1 .same true]⟩)]

-- with execution allowed the blocks run (until the recursion is cut) …
example : (run 3 5 ⟨.dflt, .dflt, .absent, true⟩ (.load .markup false) exFs 0 []).sentinel = [7, 7, 7, 7]
    ∧ (run 3 5 ⟨.dflt, .dflt, .absent, true⟩ (.load .markup false) exFs 0 []).err = some .diverge := by decide
-- … with the loader's flag off the root is rejected …
example : run 3 5 ⟨.dflt, .off, .absent, true⟩ (.load .markup false) exFs 0 []
    = ⟨some (.syntax 0), [], [], []⟩ := by decide

def exFs2 : FS :=
  [(0, ⟨.markup, [.text 1, .incl 1 .text false, .text 3]⟩),
   (1, ⟨.newtext, [.code 7 2, .expr 2, .incl 1 .same true]⟩)]

-- … a code-free root gets as far as the include, the included file is rejected, nothing runs …
example : run 3 5 ⟨.dflt, .off, .absent, true⟩ (.load .markup false) exFs2 0 []
    = ⟨some (.syntax 1), [], [1], []⟩ := by decide
-- … also when it was (unsuccessfully) loaded before through the same loader, in inline mode
example : run 3 5 ⟨.dflt, .off, .absent, false⟩ (.load .markup false) exFs2 0 [1]
    = ⟨some (.syntax 1), [], [], [some (.syntax 1)]⟩ := by decide
-- the hypotheses of `flag_only_affects_code_blocks` are satisfiable on a file system with includes
example : FsNoCode [(0, ⟨.markup, [.text 1, .incl 1 .text false]⟩), (1, ⟨.newtext, [.expr 2]⟩)] := by
  intro n f h
  simp only [List.lookup] at h
  by_cases h0 : n = 0
  · subst h0; simp at h; subst h; rfl
  · by_cases h1 : n = 1
    · subst h1; simp at h; subst h; rfl
    · have e0 : (n == 0) = false := by simpa using h0
      have e1 : (n == 1) = false := by simpa using h1
      simp [e0, e1] at h


-- the hypotheses of `graph_disabled_raises_syntax_error` on a concrete tree (root includes a text
-- template that holds the code block), and what the model computes for it
def exFs3 : FS :=
  [(0, ⟨.markup, [.text 1, .incl 1 .text false, .text 3]⟩), (1, ⟨.newtext, [.code 7 2, .expr 2]⟩)]

/-- the files of `exFs3`, by name -/
theorem exFs3_lookup (a : Nat) (f : File) (h : exFs3.lookup a = some f) :
    (a = 0 ∧ f = ⟨.markup, [.text 1, .incl 1 .text false, .text 3]⟩) ∨ (a = 1 ∧ f = ⟨.newtext, [.code 7 2, .expr 2]⟩) := by
  simp only [exFs3, List.lookup] at h
  by_cases h0 : a = 0
  · subst h0; simp at h; exact Or.inl ⟨rfl, h.symm⟩
  · by_cases h1 : a = 1
    · subst h1; simp at h; exact Or.inr ⟨rfl, h.symm⟩
    · have e0 : (a == 0) = false := by simpa using h0
      have e1 : (a == 1) = false := by simpa using h1
      simp [e0, e1] at h

example : WellFormed exFs3 (fun n => 1 - n) := by
  constructor
  · intro a f n p dyn hl hm
    rcases exFs3_lookup a f hl with ⟨rfl, rfl⟩ | ⟨rfl, rfl⟩
    · simp at hm; obtain ⟨rfl, _, _⟩ := hm; rfl
    · simp at hm
  · intro a b ⟨f, p, dyn, hl, hm⟩
    rcases exFs3_lookup a f hl with ⟨rfl, rfl⟩ | ⟨rfl, rfl⟩
    · simp at hm; obtain ⟨rfl, _, _⟩ := hm; decide
    · simp at hm
  · intro a f n p dyn g hl hm hg
    rcases exFs3_lookup a f hl with ⟨rfl, rfl⟩ | ⟨rfl, rfl⟩
    · simp at hm; obtain ⟨rfl, rfl, _⟩ := hm
      rcases exFs3_lookup 1 g hg with ⟨h, _⟩ | ⟨_, rfl⟩
      · cases h
      · rfl
    · simp at hm

example : RootOk (.pluginFile .markup) exFs3 0 :=
  ⟨⟨_, rfl, rfl⟩, by intro c s own h; cases h⟩

example : (run 2 2 ⟨.dflt, .dflt, .str ['O', 'f', 'F'], false⟩ (.pluginFile .markup) exFs3 0 []).err
    = some (.syntax 1) := by decide

/-! ### the bounded loader cache: templates evicted and parsed again

  The graph theorems above run on a loader whose cache never evicts (`ExecGraph.load`).  The
  three below are about `ExecLru` — `max_cache_size = cap` with least-recently-used eviction, for
  **every** `cap` (0 and 1 included): the assumption "fewer files than the cache bound" is gone.
  `_prepared` memoisation only removes loader calls; the model asks the loader on every
  `generate()`, i.e. it re-parses at least as often as the code. -/
section Lru
open Genshi.Exec

/-- the state of a fresh `TemplateLoader(allow_exec=False, auto_reload=ar)` satisfies the invariant -/
theorem st0_mclean (fs : FS) (ar : Bool) : MClean fs (st0 false ar) :=
  ⟨rfl, fun p hp => by simp [st0] at hp⟩

/-- **Disabled on every later load, whatever was evicted.**  Through a loader whose flag is off,
    any history of load-and-render calls — any names, asked for in any class, over any include
    graph (cycles, diamonds, both include modes), with any cache bound — never moves the sentinel:
    a template that was loaded before, evicted and is parsed again is parsed under the same flag. -/
theorem lru_history_disabled_no_exec (cap fuel pf : Nat) (fs : FS) (ar : Bool) (hist : List (Nat × Cls)) :
    (runHistoryB cap fuel pf fs (st0 false ar) hist).1.sentinel = [] :=
  (runHistoryB_clean cap fuel pf fs hist _ (st0_mclean fs ar)).2

/-- … and the cache never holds a template with a code block, at any point of any history: every
    cached template is the code-free parse of the file of its name. -/
theorem lru_cache_stays_code_free (cap fuel pf : Nat) (fs : FS) (ar : Bool) (hist : List (Nat × Cls)) :
    ∀ p ∈ (runHistoryB cap fuel pf fs (st0 false ar) hist).1.cache, noCode p.2.items = true ∧
      ∃ f, fs.lookup p.1.1 = some f ∧ p.2.items = f.items :=
  (runHistoryB_clean cap fuel pf fs hist _ (st0_mclean fs ar)).1.2

/-- **Loading such a template raises, also later.**  After any such history, loading a file that
    contains a code block fails — never loaded, or loaded-and-rejected before, or (for its code-free
    neighbours) evicted in between, it makes no difference; asked for in the language it is
    written in, the error is the `TemplateSyntaxError` of that file. -/
theorem lru_later_load_rejects_code (cap fuel pf : Nat) (fs : FS) (ar : Bool) (hist : List (Nat × Cls))
    (name : Nat) (c : Cls) (abs : Bool) (f : File) (hf : fs.lookup name = some f)
    (hcode : noCode f.items = false) :
    ∃ e, loadB cap fs (runHistoryB cap fuel pf fs (st0 false ar) hist).1 name c abs = .error e ∧
      (f.syn = c → e = .syntax name) :=
  loadB_code_fails cap fs _ name c abs f (runHistoryB_clean cap fuel pf fs hist _ (st0_mclean fs ar)).1 hf hcode

-- non-vacuity: bound 1, three files; 0 includes 1, 2 holds a code block.  Loading 0 caches 1 then
-- 0 (1 is evicted); loading 1 again re-parses it; 2 is rejected every time; with the flag on the
-- block of 2 runs.
def lruFs : FS := [(0, ⟨.markup, [.text 1, .incl 1 .same false]⟩), (1, ⟨.markup, [.text 2]⟩),
                   (2, ⟨.markup, [.code 9 1]⟩)]
example : (runHistoryB 1 5 5 lruFs (st0 false false) [(0, .markup), (1, .markup), (2, .markup), (0, .markup), (2, .markup)]).2 =
    [none, none, some (.syntax 2), none, some (.syntax 2)] := by decide
example : (runHistoryB 1 5 5 lruFs (st0 false false) [(0, .markup), (1, .markup), (2, .markup)]).1.cache.map (·.1.1) = [1] := by
  decide
example : (runHistoryB 1 5 5 lruFs (st0 true false) [(0, .markup), (2, .markup)]).1.sentinel = [9] := by decide
end Lru


/-! ### wave 4: template objects by SHAPE — every placement of a code block × every way a template
    object comes into being (`Genshi/Gen/ExecShape.lean`, regenerated from the code on every run)

  The recursive definition of "the parsed stream contains an EXEC event at any depth" is
  `hasExecL` (`Genshi/Model/ExecShapeBase.lean`: through SUB bodies and include fallbacks). -/
section Shapes
open Genshi.Gen.ExecShape

/-- **with the flag off no template object whose stream holds a code block exists along any reach
    path**: for every configuration, every reach (root of any kind, any number of include steps
    with any parse mode) under a disabled root, and every probed shape of the template reached
    (code block at top level, in prolog / epilog, deep in elements, after long content, inside
    every directive kind, nested to depth 4, inside `xi:fallback`): of all template objects that
    exist afterwards (root, includer, anything in a loader cache) none has an EXEC event at any
    depth, the block did not run, bringing the template into being raised a template syntax error,
    and no compiled suite sits anywhere in the object graph.  A guard that depends on the shape
    (a flat scan, a guard in one directive's parser, a guard that only looks at short streams)
    breaks this at the row of that shape. -/
theorem disabled_no_exec_object (cfg : Config) (r : Reach) (k : Nat) (row : ShapeRow)
    (hd : r.rootOf.disabled cfg) (h : reachRow cfg r k = some row) :
    (∀ s ∈ row.objects, hasExecL s = false) ∧ row.ran = false ∧ row.err = .syntax ∧
      row.deepSuite = false := by
  have := reachRow_disabled_offOk cfg r k row hd h
  simp only [ShapeRow.offOk, ShapeRow.execFree, Bool.and_eq_true, List.all_eq_true, Bool.not_eq_true',
    decide_eq_true_eq] at this
  exact ⟨this.1.1.1, this.1.1.2, this.1.2, this.2⟩

/-- the same for **every way probed** — also those that are not reach paths of the model:
    `_instantiate` called directly, dynamic hrefs, includes of includes, includes reached through
    a fallback, the implicit loader, and pickle round trips of the template, of an including
    template before its first render, and of the loader -/
theorem shapes_disabled_no_exec_object (row : ShapeRow) (hm : row ∈ shapeRows) (hf : row.flag = false) :
    (∀ s ∈ row.objects, hasExecL s = false) ∧ row.ran = false ∧ row.err = .syntax ∧
      row.deepSuite = false := by
  have := List.all_eq_true.mp shapeRows_off_check row hm
  simp only [hf, Bool.false_or, ShapeRow.offOk, ShapeRow.execFree, Bool.and_eq_true, List.all_eq_true,
    Bool.not_eq_true', decide_eq_true_eq] at this
  exact ⟨this.1.1.1, this.1.1.2, this.1.2, this.2⟩

/-- the probes are meaningful: with the flag on, every shape in every way does run its block, the
    template object exists and its stream holds the EXEC event (old-style text templates have no
    code blocks: a syntax error under both flag values) -/
theorem shapes_enabled_exec_exists (row : ShapeRow) (hm : row ∈ shapeRows) (hf : row.flag = true) :
    (row.cls ≠ .oldtext → (∃ s ∈ row.objects, hasExecL s = true) ∧ row.ran = true ∧ row.err = .none) ∧
    (row.cls = .oldtext → row.ran = false ∧ row.err = .syntax) := by
  have := List.all_eq_true.mp shapeRows_on_check row hm
  simp only [hf, Bool.not_true, Bool.false_or, ShapeRow.onOk] at this
  constructor
  · intro hc
    rw [if_neg hc] at this
    simp only [ShapeRow.execExists, Bool.and_eq_true, List.any_eq_true, decide_eq_true_eq] at this
    exact ⟨this.1.1.1, this.1.1.2, this.1.2⟩
  · intro hc
    rw [if_pos hc] at this
    simp only [Bool.and_eq_true, Bool.not_eq_true', decide_eq_true_eq] at this
    exact ⟨this.1.1.2, this.1.2⟩

/-- the recursive definition agrees with the real object graph: in every probe, some template
    object's skeleton holds an EXEC event at some depth exactly when a generic walk of the object
    graph (dicts, sequences, `__dict__`, `__slots__`) met a compiled `Suite` -/
theorem skeleton_sees_every_suite (row : ShapeRow) (hm : row ∈ shapeRows) :
    row.execExists = row.deepSuite := by
  have := List.all_eq_true.mp shapeRows_suite_check row hm
  simpa using this

/-- does some probe of class `c` (flag on) satisfy `p` -/
def someOn (c : Cls) (p : ShapeRow → Bool) : Bool :=
  shapeRows.any fun r => decide (r.cls = c) && r.flag && p r

/-- the shapes are not all flat: for markup and new-style text templates there are probed objects
    whose code block a scan of the top level does not see (it sits in a SUB body), objects with a
    block nested at depth ≥ 4, and — markup — objects whose block sits in an include fallback
    that survives into the prepared stream -/
theorem shapes_cover_nesting :
    someOn .markup (fun r => r.objects.any fun s => hasExecL s && !flatExec s) = true ∧
    someOn .newtext (fun r => r.objects.any fun s => hasExecL s && !flatExec s) = true ∧
    someOn .markup (fun r => decide (4 ≤ r.depth)) = true ∧
    someOn .newtext (fun r => decide (4 ≤ r.depth)) = true ∧
    someOn .markup (fun r => r.objects.any fun s => s.any fun e =>
      match e with | .incl fb => hasExecL fb | _ => false) = true := by
  decide +kernel

/-- the ways in which every shape is probed, per class -/
def primaryWays : Cls → List Way
  | .markup => [.ctor .str true, .load false, .incl .same false, .incl .same true, .incl .xml false,
      .pluginString, .pickled]
  | .newtext => [.ctor .str true, .load false, .incl .same false, .incl .same true, .incl .text true,
      .pluginString, .pickled]
  | .oldtext => [.ctor .str true, .load false, .incl .same false, .incl .same true, .pluginString, .pickled]

/-- every way of the vocabulary that exists for the class -/
def allWays : Cls → List Way
  | .markup => [.ctor .str true, .ctor .str false, .ctor .bytes true, .ctor .bytes false, .ctor .file true,
      .ctor .file false, .ctor .stream true, .ctor .stream false, .load false, .load true, .instantiate,
      .incl .same false, .incl .same true, .incl .xml false, .incl .xml true, .inclDyn .same, .inclDyn .xml,
      .inclDeep false, .inclDeep true, .inclFallback false, .inclFallback true, .inclOwn, .pluginFile,
      .pluginString, .pickled, .pickledHost, .pickledLoader]
  | .newtext => [.ctor .str true, .ctor .str false, .ctor .bytes true, .ctor .bytes false, .ctor .file true,
      .ctor .file false, .load false, .load true, .instantiate,
      .incl .same false, .incl .same true, .incl .text false, .incl .text true, .inclDyn .same, .inclDyn .text,
      .inclDeep false, .inclDeep true, .inclOwn, .pluginFile, .pluginString, .pickled, .pickledHost,
      .pickledLoader]
  | .oldtext => [.ctor .str true, .ctor .str false, .ctor .bytes true, .ctor .bytes false, .ctor .file true,
      .ctor .file false, .load false, .load true, .instantiate, .incl .same false, .incl .same true,
      .inclDeep false, .inclDeep true, .inclOwn, .pluginFile, .pluginString, .pickled, .pickledHost,
      .pickledLoader]

/-- the shapes probed for class `c` in way `w` under flag `b`, in table order -/
def shapesOf (c : Cls) (w : Way) (b : Bool) : List Nat :=
  (shapeRows.filter fun r => decide (r.cls = c) && (r.way.code == w.code) && (r.flag == b)).map (·.shape)

/-- coverage of the probe set (so that the statements above are not vacuous): every shape of every
    class is probed exactly once, under both flag values, in each primary way; in **every** way at
    least five shapes (three for old-style text) are, the same under both flag values — among
    them, for markup and new-style text, one with the block nested at depth ≥ 3 -/
theorem shapes_probed (c : Cls) :
    ((primaryWays c).all fun w => shapesOf c w false == List.range (shapeCount c) &&
      shapesOf c w true == List.range (shapeCount c)) = true ∧
    ((allWays c).all fun w =>
      decide ((if c = .oldtext then 3 else 5) ≤ (shapesOf c w false).length) &&
      (shapesOf c w false == shapesOf c w true) &&
      (decide (c = .oldtext) || someOn c fun r => (r.way.code == w.code) && decide (3 ≤ r.depth))) = true ∧
    (if c = .oldtext then 3 else 18) ≤ shapeCount c := by
  cases c
  · decide +kernel
  · decide +kernel
  · decide +kernel

/-- **templates without code blocks render identically whether execution is allowed or not**, for
    every shape (the block replaced by a plain expression: all directive kinds, nesting,
    fallbacks) of markup, new-style and old-style text templates, constructed directly, loaded,
    included (inline and run-time mode, `parse="text"` / `"xml"`, dynamic href), through plugins,
    and after pickling: the output is the same, there is no error, and no compiled suite exists
    under either flag value -/
theorem plain_shapes_flag_independent (row : PlainRow) (hm : row ∈ plainRows) :
    row.outOff = row.outOn ∧ row.outOff.isSome = true ∧ row.suiteOff = false ∧ row.suiteOn = false := by
  have key : plainRows.all (fun r => decide (r.outOff = r.outOn) && r.outOff.isSome && !r.suiteOff && !r.suiteOn) = true := by
    decide +kernel
  have := List.all_eq_true.mp key row hm
  simp only [Bool.and_eq_true, decide_eq_true_eq, Bool.not_eq_true'] at this
  exact ⟨this.1.1.1, this.1.1.2, this.1.2, this.2⟩

/-- **pickling keeps the flags**: a template that went through `pickle` has the flag it was
    constructed with and holds a loader with the flag its loader had (so that what it includes
    later is still governed by it); a pickled `TemplateLoader` keeps its flag -/
theorem pickle_preserves_flags (c : Cls) (q : Req) (ld : Option Req) :
    pickleFlags c q ld = (directFlag c .str q ld, directLoaderFlag c .str q ld) ∧
    pickleLoaderFlag q = loaderFlag .markup false q ∧ pickleLoaderFlag q = some (want q) := by
  rcases ld with _ | l
  · cases c <;> cases q <;> exact ⟨rfl, rfl, rfl⟩
  · cases c <;> cases q <;> cases l <;> exact ⟨rfl, rfl, rfl⟩

/-! non-vacuity -/

/-- a disabled root three includes deep (`parse="text"` at the end) with the block four directives
    deep: the probe exists, and it is a rejection -/
example : (reachRow ⟨.dflt, .off, .absent, true⟩ (.incl (.incl (.root (.load .markup false)) .same) .text) 15).map
    (fun r => (r.cls, r.err, r.ran)) = some (.newtext, .syntax, false) := by decide +kernel
example : (Reach.incl (.incl (.root (.load .markup false)) .same) .text).rootOf.disabled ⟨.dflt, .off, .absent, true⟩ := rfl
/-- with the loader's flag on the same reach gives an object with an EXEC event -/
example : (reachRow ⟨.dflt, .on, .absent, true⟩ (.incl (.incl (.root (.load .markup false)) .same) .text) 15).map
    (fun r => (r.execExists, r.ran)) = some (true, true) := by decide +kernel
example : hasExecL [.ev, .sub [.ev, .incl [.sub [.exec]]]] = true ∧ flatExec [.ev, .sub [.ev, .incl [.sub [.exec]]]] = false ∧
    execDepthL [.ev, .sub [.ev, .incl [.sub [.exec]]]] = 4 := by decide
example : ∃ r ∈ shapeRows, r.flag = false ∧ r.way = .pickledHost := by decide +kernel
example : ∃ r ∈ plainRows, r.way = .incl .text true ∧ r.outOff.isSome := by decide +kernel

end Shapes


/-! ### wave 4: the bounded loader cache with `_prepared` memoisation as state
    (`Genshi/Model/ExecMemo.lean`: template objects have an identity and keep their prepared stream;
    tied to the real loader by the stream `memo-history`, cache CONTENTS included) -/
section Memo

/-- through a loader whose flag is off, any history of load-and-render calls (any names, any class
    asked for, any `max_cache_size` incl. 0 and 1, any graph, both include modes, any fuel) never
    moves the sentinel — also when templates are prepared once and kept, prepared as part of another
    template, evicted while being prepared, or parsed again under the same key -/
theorem memo_history_disabled_no_exec (cap fuel pf : Nat) (fs : FS) (ar : Bool) (hist : List (Nat × Cls)) :
    (runHistoryM cap fuel pf fs (mst0 false ar) hist).sentinel = [] :=
  (runHistoryM_clean cap fuel pf fs hist _ (mst0_clean fs ar)).2

/-- at the end of every such history every cached template object is free of code blocks — its
    parsed items and, when it is prepared, its memoised prepared stream (which holds the spliced
    streams of everything it inlined) — and is the parse of the file of its name -/
theorem memo_cache_stays_code_free (cap fuel pf : Nat) (fs : FS) (ar : Bool) (hist : List (Nat × Cls)) :
    ∀ e ∈ (runHistoryM cap fuel pf fs (mst0 false ar) hist).cache,
      (noCode e.2.t.items = true ∧ ∀ ps, e.2.prep = some ps → pNoCode ps = true) ∧
      ∃ f, fs.lookup e.1.1 = some f ∧ e.2.t.items = f.items :=
  (runHistoryM_clean cap fuel pf fs hist _ (mst0_clean fs ar)).1.2

/-- after every such history, whatever a later load returns — a cached, possibly prepared object or
    a fresh parse — is free of code blocks, and the load does not move the sentinel -/
theorem memo_later_load_code_free (cap fuel pf : Nat) (fs : FS) (ar : Bool) (hist : List (Nat × Cls))
    (name : Nat) (c : Cls) (abs : Bool) (st' : MSt) (o : MT)
    (h : loadM cap fs (runHistoryM cap fuel pf fs (mst0 false ar) hist) name c abs = .ok (st', o)) :
    noCode o.t.items = true ∧ (∀ ps, o.prep = some ps → pNoCode ps = true) ∧ st'.sentinel = [] := by
  obtain ⟨hc, hs⟩ := runHistoryM_clean cap fuel pf fs hist _ (mst0_clean fs ar)
  obtain ⟨_, ho, hs'⟩ := loadM_clean cap fs _ st' name c abs o hc h
  exact ⟨ho.1, ho.2, hs'.trans hs⟩

/-- **a later load rejects code**: after every such history, loading a file that contains a code
    block — never loaded, or loaded, evicted and asked for again, under any bound — fails (never a
    cached or prepared object); asked for in the language it is written in, with the
    `TemplateSyntaxError` of that file -/
theorem memo_later_load_rejects_code (cap fuel pf : Nat) (fs : FS) (ar : Bool) (hist : List (Nat × Cls))
    (name : Nat) (c : Cls) (abs : Bool) (f : File) (hf : fs.lookup name = some f) (hcode : noCode f.items = false) :
    ∃ e, loadM cap fs (runHistoryM cap fuel pf fs (mst0 false ar) hist) name c abs = .error e ∧
      (f.syn = c → e = .syntax name) :=
  loadM_code_fails cap fs _ name c abs f (runHistoryM_clean cap fuel pf fs hist _ (mst0_clean fs ar)).1 hf hcode

-- non-vacuity: memoisation is state.  0 inlines 1 (bound 2): after rendering 0 twice the cache is
-- [0, 1] with 0 prepared; the second render performed no load (1 was not touched again: with 1
-- loaded in between it would sit in front otherwise) — and with the flag on a block runs.
def memoFs : FS := [(0, ⟨.markup, [.text 1, .incl 1 .same false]⟩), (1, ⟨.markup, [.text 2]⟩),
                    (2, ⟨.markup, [.code 9 1]⟩)]
example : (runHistoryM 2 5 5 memoFs (mst0 false false) [(0, .markup), (1, .markup), (0, .markup)]).cache.map
    (fun e => (e.1.1, e.2.prep.isSome)) = [(0, true), (1, true)] := by decide
example : (runHistoryM 2 5 5 memoFs (mst0 false true) [(0, .markup), (1, .markup), (0, .markup)]).cache.map
    (fun e => (e.1.1, e.2.prep.isSome)) = [(1, true), (0, true)] := by decide
example : (runHistoryM 1 5 5 memoFs (mst0 true false) [(0, .markup), (2, .markup), (2, .markup)]).sentinel = [9, 9] := by
  decide
example : (runHistoryM 1 5 5 memoFs (mst0 false false) [(0, .markup), (2, .markup), (2, .markup)]).sentinel = [] := by
  decide

end Memo

end Genshi.Props.C14

/-
  C15 — The loader cache always serves the current template and stays within its
  bound; `LRUCache` is a bounded LRU map under every operation sequence.
  Property theorems only; the proofs live in `Genshi/Lemmas/Lru*.lean`.

  OBLIGATIONS (checked by the harness):
    lru_wf_preserved lru_wf_run lru_refines lru_refines_run lru_no_crash
    bounded lru_bounded evicts_least_recent set_with_room_keeps_all get_after_set
    iter_is_recency_order hit_moves_to_front set_moves_to_front reads_do_not_change
    wf_means inherited_get_misses
    load_parses_first_on_path served_or_parsed reload_current_partial
    reload_current_full_fails no_reload_first_version_until_evicted
    same_object_while_unchanged callback_once_per_parse callback_once_per_load
    failed_load_is_noop lock_balanced loader_cache_bounded
    model_alphabet_is_overridden_interface default_loader_bounded
    recency_is_last_use_order evicted_is_least_recently_used wf_check_decides_wf
    reload_current_noshadow_partial cache_holds_most_recently_used
    load_after_eviction_parses loader_cache_is_wellformed_lru
    racing_write_is_linearizable racing_history_is_plain_history reload_current_racing_partial
    code_takes_mtime_of_opened_file stat_after_open_serves_stale
    load_outcome_is_first_on_path reload_current_full_iff_noshadow
    reload_current_noshadow_racing_partial mtime_reuse_serves_stale
    pathload_outcome_is_first_on_path pathload_failed_load_is_noop pathload_cache_keys_unique
    pathload_touches_only_its_key pathload_uptodate_none_always_reloads inplace_rewrite_is_noticed
-/
import Genshi.Lemmas.Lru
import Genshi.Lemmas.LruAbs
import Genshi.Lemmas.LruTime
import Genshi.Lemmas.LruCheck
import Genshi.Lemmas.Loader
import Genshi.Lemmas.LoaderLru
import Genshi.Lemmas.LoaderRace
import Genshi.Gen.Loader
import Genshi.Lemmas.LoaderPath
namespace Genshi.Props.C15
open Genshi.Lru
variable {K V : Type} [DecidableEq K]

/-! ## the cache container -/

/-- Well-formedness (doubly-linked consistency; `_dict` = the nodes reachable from `head` =
    those reachable backwards from `tail`; no key twice — spelled out in `wf_means`) is
    preserved by every operation of the class, and no operation crashes, for every capacity. -/
theorem lru_wf_preserved (c : CLru K V) (op : Op K V) (h : Wf c) :
    ∃ c' o, cstep c op = some (c', o) ∧ Wf c' := by
  obtain ⟨ids, hr⟩ := h
  obtain ⟨c', ids', hs, hr', _⟩ := cstep_refines hr op
  exact ⟨c', _, hs, ids', hr'⟩

/-- … hence after every operation sequence from the empty cache, for every capacity
    (0 and 1 included). -/
theorem lru_wf_run (cap : Nat) (d : Node K V) (ops : List (Op K V)) :
    ∃ c' os, crun (empty cap d) ops = some (c', os) ∧ Wf c' := by
  obtain ⟨c', ids', hs, hr', _⟩ := crun_refines (empty_repr cap d) ops
  exact ⟨c', _, hs, ids', hr'⟩

/-- Refinement, one step: the abstraction function commutes with every operation and the
    outputs are equal. -/
theorem lru_refines (c : CLru K V) (op : Op K V) (h : Wf c) :
    ∃ a, abs c = some a ∧
      ∃ c', cstep c op = some (c', (astep a op).2) ∧ abs c' = some (astep a op).1 := by
  obtain ⟨ids, hr⟩ := h
  obtain ⟨c', ids', hs, hr', ha⟩ := cstep_refines hr op
  exact ⟨absOf c ids, hr.abs, c', hs, by rw [hr'.abs, ha]⟩

/-- Refinement, every operation sequence and every capacity: the concrete cache started
    empty yields exactly the outputs of the abstract bounded LRU map and represents its
    final recency list. -/
theorem lru_refines_run (cap : Nat) (d : Node K V) (ops : List (Op K V)) :
    ∃ c', crun (empty cap d) ops = some (c', (arun (aempty cap) ops).2) ∧
      abs c' = some (arun (aempty cap) ops).1 := by
  obtain ⟨c', ids', hs, hr', ha⟩ := crun_refines (empty_repr cap d) ops
  have e : absOf (empty cap d) [] = (aempty cap : ALru K V) := rfl
  rw [e] at hs ha
  exact ⟨c', hs, by rw [hr'.abs, ha]⟩

/-- No `AttributeError` on `None`, no `KeyError` from `del`, no endless walk. -/
theorem lru_no_crash (cap : Nat) (d : Node K V) (ops : List (Op K V)) :
    crun (empty cap d) ops ≠ none := by
  obtain ⟨c', hs, _⟩ := lru_refines_run cap d ops
  rw [hs]; simp

/-- The abstract map stays within its bound and never holds a key twice. -/
theorem bounded (cap : Nat) (ops : List (Op K V)) :
    (arun (aempty cap : ALru K V) ops).1.items.length ≤ cap ∧
    (akeys (arun (aempty cap : ALru K V) ops).1.items).Nodup := by
  obtain ⟨⟨h1, h2⟩, hc⟩ := arun_awf (aempty_awf cap) ops
  have hc' : (arun (aempty cap : ALru K V) ops).1.cap = cap := hc
  exact ⟨Nat.le_trans h1 (Nat.le_of_eq hc'), h2⟩

/-- … and so does the real structure: `len(cache) ≤ capacity` after every sequence. -/
theorem lru_bounded (cap : Nat) (d : Node K V) (ops : List (Op K V)) (c' : CLru K V)
    (os : List (Out K V)) (h : crun (empty cap d) ops = some (c', os)) : len c' ≤ cap := by
  obtain ⟨c'', ids', hs, hr', ha⟩ := crun_refines (empty_repr cap d) ops
  rw [h] at hs
  simp only [Option.some.injEq, Prod.mk.injEq] at hs
  obtain ⟨rfl, _⟩ := hs
  have e : absOf (empty cap d) [] = (aempty cap : ALru K V) := rfl
  rw [e] at ha
  have hb := (bounded (K := K) (V := V) cap ops).1
  rw [← ha] at hb
  simpa [len, absOf, kvOf, hr'.dict.size] using hb

/-- Least recently used first: storing a new key into a full cache drops exactly the last
    entry of the recency list. -/
theorem evicts_least_recent (a : ALru K V) (k : K) (v : V) (hk : alookup k a.items = none)
    (hfull : a.items.length = a.cap) (hpos : 0 < a.cap) :
    (astep a (.set k v)).1.items = (k, v) :: a.items.dropLast :=
  aset_full_evicts_last v hk hfull hpos

theorem set_with_room_keeps_all (a : ALru K V) (k : K) (v : V) (hk : alookup k a.items = none)
    (hroom : a.items.length < a.cap) :
    (astep a (.set k v)).1.items = (k, v) :: a.items :=
  aset_room_keeps_all v hk hroom

theorem get_after_set (a : ALru K V) (k : K) (v : V) (hpos : 0 < a.cap) :
    (astep (astep a (.set k v)).1 (.get k)).2 = .val v :=
  aget_after_set a k v hpos

/-- "Recently used" in terms of the history: number the operations; a key is *used* by a store
    and by a hit.  After every operation sequence the recency list is strictly ordered by the
    time of last use, most recent first, and `trun` is `arun` with that bookkeeping. -/
theorem recency_is_last_use_order (cap : Nat) (ops : List (Op K V)) :
    (trun (tinit cap : Timed K V) ops).a = (arun (aempty cap) ops).1 ∧
    (trun (tinit cap : Timed K V) ops).a.items.Pairwise
      (fun p q => (trun (tinit cap : Timed K V) ops).last q.1 < (trun (tinit cap : Timed K V) ops).last p.1) :=
  ⟨trun_a _ ops, (trun_ordered _ ops (tinit_ordered cap)).1⟩

/-- … so the entry an eviction drops (`evicts_least_recent`: the last one) is the one whose last
    use is the oldest of all cached entries. -/
theorem evicted_is_least_recently_used (cap : Nat) (ops : List (Op K V)) (pre : List (K × V)) (p : K × V)
    (h : (trun (tinit cap : Timed K V) ops).a.items = pre ++ [p]) :
    ∀ q ∈ pre, (trun (tinit cap : Timed K V) ops).last p.1 < (trun (tinit cap : Timed K V) ops).last q.1 :=
  last_is_least_recent (trun_ordered _ ops (tinit_ordered cap)) pre p h

/-- The full specification of the bounded LRU map in terms of the history: after every
    operation sequence the cache holds the most recently used keys — every key that was ever
    used (stored, or hit) but is not cached was last used before every cached key; keys are only
    missing when the cache is full; and the cache never exceeds its capacity. -/
theorem cache_holds_most_recently_used (cap : Nat) (ops : List (Op K V)) :
    (trun (tinit cap : Timed K V) ops).a = (arun (aempty cap) ops).1 ∧
    (∀ k p, 0 < (trun (tinit cap : Timed K V) ops).last k →
        k ∉ akeys (trun (tinit cap : Timed K V) ops).a.items →
        p ∈ (trun (tinit cap : Timed K V) ops).a.items →
        (trun (tinit cap : Timed K V) ops).last k < (trun (tinit cap : Timed K V) ops).last p.1) ∧
    ((trun (tinit cap : Timed K V) ops).a.items.length = cap ∨
      ∀ k, 0 < (trun (tinit cap : Timed K V) ops).last k → k ∈ akeys (trun (tinit cap : Timed K V) ops).a.items) ∧
    (trun (tinit cap : Timed K V) ops).a.items.length ≤ cap := by
  obtain ⟨_, ht, _, hc⟩ := trun_spec _ ops (tinit_spec (K := K) (V := V) cap)
  have hcap : (trun (tinit cap : Timed K V) ops).a.cap = cap := by
    rw [trun_a]; exact (arun_awf (aempty_awf cap) ops).2
  rw [hcap] at hc
  refine ⟨trun_a _ ops, fun k p h1 h2 h3 => ht.1 k h1 h2 p h3, ?_, hc⟩
  rcases ht.2 with h | h
  · left; exact h.trans hcap
  · right; exact h

/-- `__iter__` yields the keys most recently used first … -/
theorem iter_is_recency_order (a : ALru K V) : astep a .iter = (a, .keys (akeys a.items)) := rfl

/-- … where a hit makes its key the most recent and keeps the order of the others, -/
theorem hit_moves_to_front (a : ALru K V) (k : K) (v : V) (h : alookup k a.items = some v) :
    akeys (astep a (.get k)).1.items = k :: (akeys a.items).filter (· ≠ k) :=
  aget_hit_order h

/-- … and so does a store (cut at the capacity). -/
theorem set_moves_to_front (a : ALru K V) (k : K) (v : V) :
    akeys (astep a (.set k v)).1.items = (k :: (akeys a.items).filter (· ≠ k)).take a.cap :=
  aset_order a k v

/-- `in`, `len`, iteration and a miss leave the map as it was. -/
theorem reads_do_not_change (a : ALru K V) (k : K) :
    (astep a (.contains k)).1 = a ∧ (astep a .len).1 = a ∧ (astep a .iter).1 = a ∧
    (alookup k a.items = none → (astep a (.get k)).1 = a) :=
  ⟨rfl, rfl, rfl, fun h => by rw [aget_miss_noop h]⟩

/-- What `Wf` means in terms of walks over the real fields. -/
theorem wf_means (c : CLru K V) (h : Wf c) : ∃ ids : List Id,
    walkNxt c.heap (c.size + 1) c.head = some ids ∧
    walkPrv c.heap (c.size + 1) c.tail = some ids.reverse ∧
    ids.Nodup ∧ (ids.map fun i => (c.heap i).key).Nodup ∧ c.size = ids.length ∧
    (∀ i ∈ ids, c.dict (c.heap i).key = some i) ∧
    (∀ k i, c.dict k = some i → i ∈ ids ∧ (c.heap i).key = k) := by
  obtain ⟨ids, hr⟩ := h
  exact ⟨ids, hr.meaning⟩

/-- The executable check (what `gdrv` reports with every dump and what the oracle's
    `structure_ok` tests on the real object: forward walk = reverse of backward walk, no node
    twice, `_dict` = the walked nodes, `len` = their number) is equivalent to `Wf`, on any key
    universe that covers the dictionary. -/
theorem wf_check_decides_wf (c : CLru K V) (keys : List K)
    (hcov : ∀ k i, c.dict k = some i → k ∈ keys) : wfCheck c keys = true ↔ Wf c :=
  wfCheck_iff hcov

/-- Known finding C15-inherited-dict: `get/keys/pop/__delitem__/…` are not overridden and act
    on the base `dict`, which `LRUCache` never fills; `cache.get(k)` misses a cached key. -/
theorem inherited_get_misses :
    ∃ (c : CLru Nat Nat) (os : List (Out Nat Nat)),
      crun (empty 3 ⟨none, none, 0, 0⟩) [.set 0 10] = some (c, os) ∧
      contains c 0 = true ∧ inheritedGet c 0 = none := by
  refine ⟨_, _, rfl, by decide, rfl⟩

/-! ### tie to the class as it is now (generated table `Genshi/Gen/Loader.lean`) -/

/-- the methods the model's operations stand for -/
def modelledMethods : List (List Char) := [
  ['_', '_', 'c', 'o', 'n', 't', 'a', 'i', 'n', 's', '_', '_'],
  ['_', '_', 'g', 'e', 't', 'i', 't', 'e', 'm', '_', '_'],
  ['_', '_', 'i', 't', 'e', 'r', '_', '_'],
  ['_', '_', 'l', 'e', 'n', '_', '_'],
  ['_', '_', 's', 'e', 't', 'i', 't', 'e', 'm', '_', '_']]

/-- Every operation of the model is a method the class defines itself (if one of them were
    dropped, the base `dict`'s would take over).  Methods the class defines beyond these are
    listed in the evidence by the harness (`unmodelled own methods`). -/
theorem model_alphabet_is_overridden_interface :
    ∀ m ∈ modelledMethods, m ∈ Genshi.Gen.Loader.lruOwnMethods := by decide

/-! ## the loader -/
section Loader
open Genshi.Loader

/-- A load that parses returns a template made from the file found first on the search path
    of that call, with the content the file has now (`firstOnPath` is the specification:
    the first path item under which the name exists). -/
theorem load_parses_first_on_path (cfg : Cfg) (fs : FS) (s s' : LState) (r : Req) (t : Tmpl)
    (h : load cfg fs s r = some (s', .ok t)) (hparsed : s'.nextObj = s.nextObj + 1)
    (hf : r.fault = .none) :
    ∃ key entries isabs f, resolve cfg.path.isEmpty r = some key ∧
      searchPath cfg r key = some (entries, isabs) ∧
      firstOnPath fs key entries = some (t.loc, f) ∧ f.bad = false ∧ t.content = f.content ∧
      t.obj = s.nextObj := by
  obtain ⟨key, entries, isabs, f, h1, h2, h3, h4, h5⟩ := load_parses_first h hparsed hf
  exact ⟨key, entries, isabs, f, h1, h2, h3, h4, by rw [h5], by rw [h5]⟩

/-- The same with the faults of load functions in the specification (`firstOnPathF`: a load
    function raising IOError is passed over, one raising anything else ends the walk), and as a
    complete case analysis: a load that is not answered from the cache — the key is not cached
    (never loaded, evicted) or, with automatic reloading, its file changed — ends exactly as the
    walk over the search path of that call says: no search path configured; `TemplateNotFound`;
    the load function's exception; for the file found first its syntax error, the callback's
    exception, or the template parsed from its current content with a fresh identity. -/
theorem load_outcome_is_first_on_path (cfg : Cfg) (fs : FS) (s s' : LState) (r : Req) (res : Res) (key : Key)
    (hk : resolve cfg.path.isEmpty r = some key)
    (hno : alookup key s.cache.items = none ∨ (cfg.autoReload = true ∧ stillCurrent fs s key = false))
    (h : load cfg fs s r = some (s', res)) :
    (searchPath cfg r key = none ∧ res = .err .noSearchPath) ∨
    ∃ entries isabs, searchPath cfg r key = some (entries, isabs) ∧
      match firstOnPathF fs r.fault key entries with
      | .nothing => res = .err .notFound
      | .raised => res = .err .loadFunc
      | .file loc f =>
        (f.bad = true ∧ res = .err .syntaxError) ∨
        (f.bad = false ∧ cfg.hasCallback = true ∧ r.cbRaise = true ∧ res = .err .callback) ∨
        (f.bad = false ∧ res = .ok ⟨s.nextObj, loc, f.content, r.cls, r.enc, isabs⟩) :=
  load_by_firstF hk hno h

/-- A returned template is either the cached object (nothing parsed, no callback) or a
    template parsed in this call (a fresh object, stored under the key). -/
theorem served_or_parsed (cfg : Cfg) (fs : FS) (s s' : LState) (r : Req) (t : Tmpl)
    (h : load cfg fs s r = some (s', .ok t)) :
    ∃ key, resolve cfg.path.isEmpty r = some key ∧
    ((alookup key s.cache.items = some t ∧ s'.nextObj = s.nextObj ∧ s'.cbLog = s.cbLog) ∨
     (t.obj = s.nextObj ∧ s'.nextObj = s.nextObj + 1 ∧
       alookup key s'.cache.items = if s.cache.cap = 0 then none else some t)) := by
  obtain ⟨key, hk, hok⟩ := load_ok h
  refine ⟨key, hk, ?_⟩
  rcases hok with ⟨hl, _, hs⟩ | ⟨_, _, _, _, _, _, h6, _, _, h9, _, h11⟩
  · left; rw [hs]; exact ⟨hl, (touched_fields s key).2.1, (touched_fields s key).2.2.1⟩
  · right
    refine ⟨h6, h11, ?_⟩
    rw [h9]
    simp only [astep, touched_cap]
    cases hc : s.cache.cap with
    | zero => simp [alookup]
    | succ n => simp [alookup]

/-- Once a template has been evicted (or was never loaded) the next load parses the file found
    first on the search path now — with or without automatic reloading. -/
theorem load_after_eviction_parses (cfg : Cfg) (fs : FS) (s s' : LState) (r : Req) (t : Tmpl) (key : Key)
    (hk : resolve cfg.path.isEmpty r = some key) (hmiss : alookup key s.cache.items = none)
    (hf : r.fault = .none) (h : load cfg fs s r = some (s', .ok t)) :
    ∃ entries isabs f, searchPath cfg r key = some (entries, isabs) ∧
      firstOnPath fs key entries = some (t.loc, f) ∧ f.bad = false ∧ t.content = f.content ∧
      t.obj = s.nextObj := by
  obtain ⟨key', hk', hcase⟩ := served_or_parsed cfg fs s s' r t h
  rw [hk] at hk'; cases hk'
  rcases hcase with ⟨hl, _, _⟩ | ⟨_, hn, _⟩
  · rw [hmiss] at hl; cases hl
  · obtain ⟨key'', entries, isabs, f, h1, h2, h3, h4, h5, h6⟩ :=
      load_parses_first_on_path cfg fs s s' r t h hn hf
    rw [hk] at h1; cases h1
    exact ⟨entries, isabs, f, h2, h3, h4, h5, h6⟩

/-- With automatic reloading, after every history of writes, touches, deletions and loads
    (every modification with a new mtime), a load returns a template that has the current
    content of **the file it came from**.

    Full statement (false, known finding C15-shadow; see `reload_current_full_fails`):
    `… ∃ key entries isabs f, searchPath cfg r key = some (entries, isabs) ∧
        firstOnPath w.fs key entries = some (t.loc, f) ∧ f.content = t.content`
    — the file found first on the search path *now*.  Missing: a file created later under an
    earlier path item (or visible only to a different `relative_to`) is not noticed while the
    cached template's own file is unchanged. -/
theorem reload_current_partial (cfg : Cfg) (har : cfg.autoReload = true) (ops : List HOp) (r : Req)
    (ls' : LState) (t : Tmpl)
    (h : load cfg (hrun cfg (World.init cfg.cap) ops).1.fs (hrun cfg (World.init cfg.cap) ops).1.ls r
          = some (ls', .ok t)) :
    ∃ f, (hrun cfg (World.init cfg.cap) ops).1.fs t.loc = some f ∧ f.content = t.content :=
  load_current (inv_hrun (inv_init cfg.cap) ops) har h

/-- The same gap expressed as an excluding hypothesis (this is the form the generator of the
    loader histories enforces, `gen_loader.reveals_shadow`): if whenever the request would be
    served from the cache the cached template's file is the one found first on the search path
    now (`NoShadow`), then — after every history — the returned template has the current content
    of the file found first on the search path. -/
theorem reload_current_noshadow_partial (cfg : Cfg) (har : cfg.autoReload = true) (ops : List HOp)
    (r : Req) (hf : r.fault = .none) (ls' : LState) (t : Tmpl)
    (hns : NoShadow cfg (hrun cfg (World.init cfg.cap) ops).1 r)
    (h : load cfg (hrun cfg (World.init cfg.cap) ops).1.fs (hrun cfg (World.init cfg.cap) ops).1.ls r
          = some (ls', .ok t)) :
    ∃ key entries isabs f, resolve cfg.path.isEmpty r = some key ∧
      searchPath cfg r key = some (entries, isabs) ∧
      firstOnPath (hrun cfg (World.init cfg.cap) ops).1.fs key entries = some (t.loc, f) ∧
      f.content = t.content :=
  load_current_first (inv_hrun (inv_init cfg.cap) ops) har hf hns h

/-- `NoShadow` is not stronger than necessary: for a successful load with automatic reloading
    (no load-function fault in that call) the full statement — the returned template has the
    current content of the file found first on the search path now — holds **exactly** when
    `NoShadow` does.  The class excluded from `reload_current_noshadow_partial` is the class of
    finding C15-shadow and nothing else. -/
theorem reload_current_full_iff_noshadow (cfg : Cfg) (har : cfg.autoReload = true) (ops : List HOp)
    (r : Req) (hf : r.fault = .none) (ls' : LState) (t : Tmpl)
    (h : load cfg (hrun cfg (World.init cfg.cap) ops).1.fs (hrun cfg (World.init cfg.cap) ops).1.ls r
          = some (ls', .ok t)) :
    (∃ key entries isabs f, resolve cfg.path.isEmpty r = some key ∧
      searchPath cfg r key = some (entries, isabs) ∧
      firstOnPath (hrun cfg (World.init cfg.cap) ops).1.fs key entries = some (t.loc, f) ∧
      f.content = t.content) ↔ NoShadow cfg (hrun cfg (World.init cfg.cap) ops).1 r := by
  constructor
  · rintro ⟨key, entries, isabs, f, hk, hsp, hfp, _⟩ key' t0 hk' hl hcur
    rw [hk] at hk'; cases hk'
    have hs := load_served hk hl (Or.inr hcur)
    rw [hs] at h
    simp only [Option.some.injEq, Prod.mk.injEq, Res.ok.injEq] at h
    obtain ⟨_, rfl⟩ := h
    exact ⟨entries, isabs, f, hsp, hfp⟩
  · intro hns
    exact load_current_first (inv_hrun (inv_init cfg.cap) ops) har hf hns h

def shadowCfg : Cfg := { path := [.dir 0 false, .dir 1 false], autoReload := true, cap := 2 }
def shadowOps : List HOp :=
  [.write ⟨1, false, 0⟩ 100 false, .load { base := 0 }, .write ⟨0, false, 0⟩ 101 false]

/-- Witness that the full statement fails of the model (and of the code: the same history is
    the `input` of finding C15-shadow): after `t0` was loaded from directory 1, a `t0` created
    in directory 0 is first on the path, yet the load returns the cached v100. -/
theorem reload_current_full_fails :
    ∃ ls' t, load shadowCfg (hrun shadowCfg (World.init 2) shadowOps).1.fs
        (hrun shadowCfg (World.init 2) shadowOps).1.ls { base := 0 } = some (ls', .ok t) ∧
      t.content = 100 ∧ t.loc = ⟨1, false, 0⟩ ∧
      (firstOnPath (hrun shadowCfg (World.init 2) shadowOps).1.fs ⟨none, false, 0⟩ shadowCfg.path).map
        (fun p => (p.1, p.2.content)) = some (⟨0, false, 0⟩, 101) := by
  refine ⟨_, _, rfl, rfl, rfl, rfl⟩

/-- Without automatic reloading a cached template is returned as it is — the same object,
    nothing parsed, no callback — whatever happened to the files, as long as it is cached. -/
theorem no_reload_first_version_until_evicted (cfg : Cfg) (har : cfg.autoReload = false)
    (s : LState) (r : Req) (key : Key) (t : Tmpl)
    (hk : resolve cfg.path.isEmpty r = some key) (hc : alookup key s.cache.items = some t)
    (fs : FS) :
    ∃ s', load cfg fs s r = some (s', .ok t) ∧ s'.nextObj = s.nextObj ∧ s'.cbLog = s.cbLog ∧
      s'.utd = s.utd ∧ ∀ k, alookup k s'.cache.items = alookup k s.cache.items := by
  refine ⟨touched s key, load_served hk hc (Or.inl har), ?_, ?_, ?_, alookup_touched s key⟩
  · exact (touched_fields s key).2.1
  · exact (touched_fields s key).2.2.1
  · exact (touched_fields s key).1

/-- With automatic reloading the same object is returned, without parsing, while the file it
    came from has the mtime it was parsed at. -/
theorem same_object_while_unchanged (cfg : Cfg) (s : LState) (r : Req) (key : Key) (t : Tmpl)
    (fs : FS) (loc : Loc) (m : Nat) (f : File)
    (hk : resolve cfg.path.isEmpty r = some key) (hc : alookup key s.cache.items = some t)
    (hu : s.utd key = some (.mtime loc m)) (hf : fs loc = some f) (hm : f.mtime = m) :
    ∃ s', load cfg fs s r = some (s', .ok t) ∧ s'.nextObj = s.nextObj ∧ s'.cbLog = s.cbLog ∧
      s'.parsed = s.parsed := by
  have hsc : stillCurrent fs s key = true := by simp [stillCurrent, hu, hf, hm]
  refine ⟨touched s key, load_served hk hc (Or.inr hsc), ?_, ?_, ?_⟩
  · exact (touched_fields s key).2.1
  · exact (touched_fields s key).2.2.1
  · exact (touched_fields s key).2.2.2.1

/-- The callback has been called exactly once with every template parsed, in order, and no
    template was parsed twice — after every history. -/
theorem callback_once_per_parse (cfg : Cfg) (hcb : cfg.hasCallback = true) (ops : List HOp) :
    (hrun cfg (World.init cfg.cap) ops).1.ls.cbLog = (hrun cfg (World.init cfg.cap) ops).1.ls.parsed ∧
    (hrun cfg (World.init cfg.cap) ops).1.ls.parsed.Nodup := by
  have := cbInv_hrun (cfg := cfg) (w := World.init cfg.cap)
    ⟨fun _ => rfl, List.nodup_nil, by simp [World.init, LState.init]⟩ ops
  exact ⟨this.same hcb, this.nodup⟩

/-- One load parses at most once, and calls the callback exactly when it parsed. -/
theorem callback_once_per_load (cfg : Cfg) (fs : FS) (s s' : LState) (r : Req) (res : Res)
    (h : load cfg fs s r = some (s', res)) :
    (s'.nextObj = s.nextObj ∧ s'.parsed = s.parsed ∧ s'.cbLog = s.cbLog) ∨
    (s'.nextObj = s.nextObj + 1 ∧ s'.parsed = s.nextObj :: s.parsed ∧
      s'.cbLog = if cfg.hasCallback then s.nextObj :: s.cbLog else s.cbLog) := by
  obtain ⟨_, _, he⟩ := load_effect h
  exact he.counters

/-- A failing load (missing file, syntax error, callback or load function raising, no search
    path) leaves the cached templates, `_uptodate` and the lock as they were; the only trace
    is that the lookup of a cached key counted as a use of it. -/
theorem failed_load_is_noop (cfg : Cfg) (fs : FS) (s s' : LState) (r : Req) (e : Err)
    (h : load cfg fs s r = some (s', .err e)) :
    (∀ k, alookup k s'.cache.items = alookup k s.cache.items) ∧ s'.utd = s.utd ∧ s'.lock = s.lock ∧
    ∃ key, resolve cfg.path.isEmpty r = some key ∧ s'.cache = (touched s key).cache := by
  obtain ⟨key, hk, he⟩ := load_effect h
  obtain ⟨hc, hu⟩ := he.failed e rfl
  exact ⟨fun k => by rw [hc]; exact alookup_touched s key k, hu, he.lock, key, hk, hc⟩

/-- The lock is released on every exit. -/
theorem lock_balanced (cfg : Cfg) (fs : FS) (s s' : LState) (r : Req) (res : Res)
    (h : load cfg fs s r = some (s', res)) : s'.lock = s.lock := by
  obtain ⟨_, _, he⟩ := load_effect h
  exact he.lock

/-- After every history the loader holds at most `max_cache_size` templates, under distinct
    keys (and evicts least recently used first: the cache is the bounded LRU map above, on
    which `load` only performs `get` and `set`). -/
theorem loader_cache_bounded (cfg : Cfg) (ops : List HOp) :
    (hrun cfg (World.init cfg.cap) ops).1.ls.cache.items.length ≤ cfg.cap ∧
    (akeys (hrun cfg (World.init cfg.cap) ops).1.ls.cache.items).Nodup := by
  have hi := inv_hrun (cfg := cfg) (inv_init cfg.cap) ops
  have hc := hrun_cap cfg (World.init cfg.cap) ops
  have hc' : (hrun cfg (World.init cfg.cap) ops).1.ls.cache.cap = cfg.cap := hc
  exact ⟨Nat.le_trans hi.awf.1 (Nat.le_of_eq hc'), hi.awf.2⟩

/-- The chain closed: `load` touches its cache only through `__getitem__` and `__setitem__`,
    so after every history the abstract cache the loader theorems speak about is represented by
    a well-formed concrete `LRUCache` structure — the one those container operations build
    from `LRUCache(max_cache_size)`. -/
theorem loader_cache_is_wellformed_lru (cfg : Cfg) (ops : List HOp) (d : Node Key Tmpl) :
    ∃ (cops : List (Op Key Tmpl)) (c : CLru Key Tmpl) (outs : List (Out Key Tmpl)),
      crun (Genshi.Lru.empty cfg.cap d) cops = some (c, outs) ∧ Wf c ∧
      abs c = some (hrun cfg (World.init cfg.cap) ops).1.ls.cache :=
  hrun_concrete cfg ops d

/-- … in particular with the constructor's default `max_cache_size`. -/
theorem default_loader_bounded (path : List Entry) (ar : Bool) (ops : List HOp) :
    (hrun ⟨path, ar, Genshi.Gen.Loader.defaultMaxCacheSize, true⟩
        (World.init Genshi.Gen.Loader.defaultMaxCacheSize) ops).1.ls.cache.items.length
      ≤ Genshi.Gen.Loader.defaultMaxCacheSize :=
  (loader_cache_bounded ⟨path, ar, Genshi.Gen.Loader.defaultMaxCacheSize, true⟩ ops).1

/-! ### a file replaced while a load is running (fault sequences: a write at a point inside `load`) -/

/-- The code takes the modification time of the file it opened (probed on `directory()` on every
    run: the file is replaced right after `open` returned; the up-to-date check handed out says
    "changed").  The theorems below are about the model with this behaviour; `gdrv` runs the
    model with the generated constant. -/
theorem code_takes_mtime_of_opened_file : Genshi.Gen.Loader.mtimeOfOpenedFile = true := rfl

/-- **One racing load is linearizable.**  After every history (racing loads included), a load
    during which the file it opens is replaced — after the cache check and before `open`, or right
    after `open` — leaves file system, clock and loader state, and returns the result, of the plain
    history `linearise`: the load then the write (after `open`), the write then the load (before
    `open`), or the load alone when no directory file was opened. -/
theorem racing_write_is_linearizable (cfg : Cfg) (ops : List HOpR)
    (hv : ValidR cfg (World.init cfg.cap) ops) (r : Req) (rw : RaceW) :
    let w := (hrunR true cfg (World.init cfg.cap) ops).1
    (hrun cfg w (linearise r rw (firedAt cfg w r rw))).1 = (hstepR true cfg w (.loadRace r rw)).1 ∧
    (hrun cfg w (linearise r rw (firedAt cfg w r rw))).2.filterMap id =
      [(hstepR true cfg w (.loadRace r rw)).2].filterMap id :=
  hstepR_linear (inv_hrunR ops (inv_init cfg.cap) hv) r rw

/-- **Histories with racing replacements are plain histories**: same final world, same results
    of the loads in order.  Every theorem of this file about `hrun` therefore speaks about
    histories in which files are replaced while they are being loaded. -/
theorem racing_history_is_plain_history (cfg : Cfg) (ops : List HOpR)
    (hno : ∀ op ∈ ops, op.isWriteAt = false) :
    ∃ ops' : List HOp,
      (hrun cfg (World.init cfg.cap) ops').1 = (hrunR true cfg (World.init cfg.cap) ops).1 ∧
      (hrun cfg (World.init cfg.cap) ops').2.filterMap id =
        (hrunR true cfg (World.init cfg.cap) ops).2.filterMap id :=
  hrunR_plain cfg ops hno _ (inv_init cfg.cap)

/-- **Modification times need not grow.**  `reload_current_partial` for histories in which
    files are replaced while they are loaded *and* modifications set any modification time —
    older ones included (`HOpR.writeAt`: restore from a backup, checkout of an older revision,
    `rsync -t`) — as long as the time set *differs* from every time the loader remembers for that
    file (`ValidR` / `FreshTime`; `write` and `touch`, stamped by the clock, always do): a load
    with automatic reloading returns a template with the current content of the file it came
    from.  The code compares the remembered time with `==`; a comparison by order (`<=`: "stale
    only if the file is newer") fails this theorem's history class (seeded change C15-4).
    (Partial for the same reason as `reload_current_partial`: finding C15-shadow.  A different
    content under a remembered time is the limit of reloading by modification time:
    `mtime_reuse_serves_stale`.) -/
theorem reload_current_racing_partial (cfg : Cfg) (har : cfg.autoReload = true) (ops : List HOpR)
    (hv : ValidR cfg (World.init cfg.cap) ops) (r : Req) (ls' : LState) (t : Tmpl)
    (h : load cfg (hrunR true cfg (World.init cfg.cap) ops).1.fs
          (hrunR true cfg (World.init cfg.cap) ops).1.ls r = some (ls', .ok t)) :
    ∃ f, (hrunR true cfg (World.init cfg.cap) ops).1.fs t.loc = some f ∧ f.content = t.content :=
  load_current (inv_hrunR ops (inv_init cfg.cap) hv) har h

/-- … and `reload_current_noshadow_partial` for the same histories: under `NoShadow` the
    returned template has the current content of the file found first on the search path. -/
theorem reload_current_noshadow_racing_partial (cfg : Cfg) (har : cfg.autoReload = true) (ops : List HOpR)
    (hv : ValidR cfg (World.init cfg.cap) ops) (r : Req) (hf : r.fault = .none) (ls' : LState) (t : Tmpl)
    (hns : NoShadow cfg (hrunR true cfg (World.init cfg.cap) ops).1 r)
    (h : load cfg (hrunR true cfg (World.init cfg.cap) ops).1.fs
          (hrunR true cfg (World.init cfg.cap) ops).1.ls r = some (ls', .ok t)) :
    ∃ key entries isabs f, resolve cfg.path.isEmpty r = some key ∧
      searchPath cfg r key = some (entries, isabs) ∧
      firstOnPath (hrunR true cfg (World.init cfg.cap) ops).1.fs key entries = some (t.loc, f) ∧
      f.content = t.content :=
  load_current_first (inv_hrunR ops (inv_init cfg.cap) hv) har hf hns h

def raceCfg : Cfg := { path := [.dir 0 false], autoReload := true, cap := 2 }
def reuseOps : List HOpR :=
  [.plain (.write ⟨0, false, 0⟩ 100 false), .plain (.load { base := 0 }), .writeAt ⟨0, false, 0⟩ 101 false 1]

/-- The limit of reloading by modification time, and why `FreshTime` is needed: a different
    content stored under the very time the loader remembers (`writeAt … 1` after the file was
    parsed at time 1) is served stale — by any implementation that only looks at the time. -/
theorem mtime_reuse_serves_stale :
    ¬ ValidR raceCfg (World.init 2) reuseOps ∧
    ∃ ls' t, load raceCfg (hrunR true raceCfg (World.init 2) reuseOps).1.fs
        (hrunR true raceCfg (World.init 2) reuseOps).1.ls { base := 0 } = some (ls', .ok t) ∧
      t.content = 100 ∧
      ((hrunR true raceCfg (World.init 2) reuseOps).1.fs t.loc).map (·.content) = some 101 := by
  refine ⟨?_, _, _, rfl, rfl, rfl⟩
  intro h
  have hf : FreshTime (hrunR true raceCfg (World.init 2)
      [.plain (.write ⟨0, false, 0⟩ 100 false), .plain (.load { base := 0 })]).1 ⟨0, false, 0⟩ 1 := h.2.2.1
  exact hf ⟨none, false, 0⟩ ⟨0, ⟨0, false, 0⟩, 100, 0, 0, false⟩ 1 (by decide) rfl rfl

def raceOps : List HOpR :=
  [.plain (.write ⟨0, false, 0⟩ 100 false), .loadRace { base := 0 } ⟨false, 101, false⟩]

/-- Why the modification time must be the opened file's (the code before `fix: directory() takes
    the modification time from the file it opened` asked the *path* after `open`): in that model
    (`fstat = false`) the history "write v100; load while the file is replaced by v101 right after
    `open`" leaves v100 cached with the time of v101, and the next load serves v100 although the
    file holds v101 — for good.  With the opened file's time the same history reloads. -/
theorem stat_after_open_serves_stale :
    (∃ ls' t, load raceCfg (hrunR false raceCfg (World.init 2) raceOps).1.fs
        (hrunR false raceCfg (World.init 2) raceOps).1.ls { base := 0 } = some (ls', .ok t) ∧
      t.content = 100 ∧
      ((hrunR false raceCfg (World.init 2) raceOps).1.fs t.loc).map (·.content) = some 101) ∧
    (∃ ls' t, load raceCfg (hrunR true raceCfg (World.init 2) raceOps).1.fs
        (hrunR true raceCfg (World.init 2) raceOps).1.ls { base := 0 } = some (ls', .ok t) ∧
      t.content = 101) := by
  refine ⟨⟨_, _, rfl, rfl, rfl⟩, ⟨_, _, rfl, rfl⟩⟩

end Loader

/-! ### non-vacuity -/
section
open Genshi.Loader
-- a parse, a cached hit, a reload after a touch, a failing reload that keeps the cache
example : (hrun ⟨[.dir 0 false], true, 2, true⟩ (World.init 2)
    [.write ⟨0, false, 0⟩ 100 false, .load { base := 0 }, .load { base := 0 }, .touch ⟨0, false, 0⟩,
     .load { base := 0 }, .write ⟨0, false, 0⟩ 101 true, .load { base := 0 }]).2 =
    [none, some (.ok ⟨0, ⟨0, false, 0⟩, 100, 0, 0, false⟩), some (.ok ⟨0, ⟨0, false, 0⟩, 100, 0, 0, false⟩),
     none, some (.ok ⟨1, ⟨0, false, 0⟩, 100, 0, 0, false⟩), none, some (.err .syntaxError)] := by
  decide
end

section
open Genshi.Loader
-- the specification with faults: a load function raising IOError is passed over, another
-- exception ends the walk, otherwise the first file decides
example : firstOnPathF (fsSet (fsSet (fun _ => none) ⟨1, false, 0⟩ (some ⟨7, false, 1⟩)) ⟨2, false, 0⟩ (some ⟨8, false, 2⟩))
    .io ⟨none, false, 0⟩ [.dir 0 false, .fn 1 true, .dir 2 false] = .file ⟨2, false, 0⟩ ⟨8, false, 2⟩ := by decide
example : firstOnPathF (fsSet (fun _ => none) ⟨1, false, 0⟩ (some ⟨7, false, 1⟩))
    .other ⟨none, false, 0⟩ [.dir 0 false, .fn 1 true, .dir 2 false] = .raised := by decide
example : firstOnPathF (fsSet (fun _ => none) ⟨1, false, 0⟩ (some ⟨7, false, 1⟩))
    .none ⟨none, false, 0⟩ [.dir 0 false, .fn 1 true, .dir 2 false] = .file ⟨1, false, 0⟩ ⟨7, false, 1⟩ := by decide
-- a modification with an *older* time (3 → 1) is noticed, a valid history
example : (hrunR true ⟨[.dir 0 false], true, 2, true⟩ (World.init 2)
    [.writeAt ⟨0, false, 0⟩ 100 false 3, .plain (.load { base := 0 }), .writeAt ⟨0, false, 0⟩ 101 false 1,
     .plain (.load { base := 0 })]).2.map
      (fun o => o.map fun r => match r with | .ok t => t.content | .err _ => 0) =
    [none, some 100, none, some 101] := by
  decide
example : ValidR ⟨[.dir 0 false], true, 2, true⟩ (World.init 2)
    [.writeAt ⟨0, false, 0⟩ 100 false 3, .plain (.load { base := 0 }), .writeAt ⟨0, false, 0⟩ 101 false 1] := by
  refine ⟨?_, trivial, ?_, trivial⟩
  · intro k t m' hm; simp [World.init, LState.init, Genshi.Lru.aempty] at hm
  · intro k t m' hm hu
    have hk : k = ⟨none, false, 0⟩ := by
      have : (k, t) ∈ [((⟨none, false, 0⟩ : Key), (⟨0, ⟨0, false, 0⟩, 100, 0, 0, false⟩ : Tmpl))] := hm
      simp at this; exact this.1
    subst hk
    have : (some (Utd.mtime ⟨0, false, 0⟩ 3) : Option Utd) = some (.mtime ⟨0, false, 0⟩ m') := hu
    simp at this; omega
-- racing replacements that land: after `open` (the old content is returned, the next load
-- reloads), before `open` (the new content is returned)
example : (hrunR true ⟨[.dir 0 false], true, 2, true⟩ (World.init 2)
    [.plain (.write ⟨0, false, 0⟩ 100 false), .loadRace { base := 0 } ⟨false, 101, false⟩,
     .plain (.load { base := 0 }), .loadRace { base := 0 } ⟨true, 102, false⟩,
     .plain (.touch ⟨0, false, 0⟩), .loadRace { base := 0 } ⟨true, 103, false⟩]).2.map
      (fun o => o.map fun r => match r with | .ok t => t.content | .err _ => 0) =
    [none, some 100, some 101, some 101, none, some 103] := by
  decide
end

example : (crun (empty 2 ⟨none, none, 0, 0⟩ : CLru Nat Nat)
      [.set 0 10, .set 1 11, .get 0, .set 2 12, .iter, .get 1]).map (·.2) =
    some [.unit, .unit, .val 10, .unit, .keys [2, 0], .keyError] := by decide
example : (arun (aempty 0 : ALru Nat Nat) [.set 0 10, .len, .get 0]).2 =
    [.unit, .nat 0, .keyError] := by decide
example : (astep (⟨2, [(1, 11), (0, 10)]⟩ : ALru Nat Nat) (.set 2 12)).1.items = [(2, 12), (1, 11)] := by
  decide


/-! ## the loader over string-level path names (`Genshi/Model/LoaderPath.lean`)

  `posixpath.normpath` / `join` / `dirname` / `isabs` on character lists (any depth, `.`, `..`,
  repeated slashes), search-path items = directory names, callables returning
  `(filepath, filename, fileobj, uptodate)` (mtime check or `None`, own `filename`), and
  `prefixed(**delegates)`.  The theorems hold for every path name, search path and file system. -/
section LoaderPath
open Genshi.LoaderP

/-- `load_outcome_is_first_on_path` for the deep path algebra, every kind of search-path item
    included: a load that is not answered from the cache ends exactly as the walk over the
    search path of that call says (`firstOnPathF`: an item that does not have the name — IOError,
    `prefixed()`'s TemplateNotFound, no such file — is passed over; any other exception ends the
    walk): no search path; TemplateNotFound; the load function's exception; for the file found
    first its syntax error, the callback's exception, or the template parsed from its current
    content, with a fresh identity, the `filepath` the item returned and the `filename` it
    reported (the `filepath` when the name or `relative_to` is absolute). -/
theorem pathload_outcome_is_first_on_path (cfg : LoaderP.Cfg) (fs : LoaderP.FS) (s : LoaderP.LState)
    (r : LoaderP.Req)
    (hno : alookup (LoaderP.resolve cfg.path.isEmpty r) s.cache.items = none ∨
      (cfg.autoReload = true ∧ LoaderP.stillCurrent fs s (LoaderP.resolve cfg.path.isEmpty r) = false)) :
    let key := LoaderP.resolve cfg.path.isEmpty r
    let res := (LoaderP.load cfg fs s r).2
    (LoaderP.searchPath cfg r key = none ∧ res = .err .noSearchPath) ∨
    ∃ entries isabs, LoaderP.searchPath cfg r key = some (entries, isabs) ∧
      match LoaderP.firstOnPathF fs r.fault key entries with
      | .nothing => res = .err .notFound
      | .raised => res = .err .loadFunc
      | .file fp name f =>
        (f.bad = true ∧ res = .err .syntaxError) ∨
        (f.bad = false ∧ cfg.hasCallback = true ∧ r.cbRaise = true ∧ res = .err .callback) ∨
        (f.bad = false ∧ res = .ok ⟨s.nextObj, fp, if isabs then fp else name, f.content, r.cls, r.enc⟩) :=
  LoaderP.load_by_firstF cfg fs s r hno

/-- A failed load (whatever the path item that failed: directory, callable, `prefixed()`)
    changes neither the mapping of the cache nor `_uptodate` nor the lock; the lookup of a cached
    key still counts as a use. -/
theorem pathload_failed_load_is_noop (cfg : LoaderP.Cfg) (fs : LoaderP.FS) (s : LoaderP.LState)
    (r : LoaderP.Req) (e : Genshi.Loader.Err) (h : (LoaderP.load cfg fs s r).2 = .err e) :
    (LoaderP.load cfg fs s r).1.cache = (LoaderP.touched s (LoaderP.resolve cfg.path.isEmpty r)).cache ∧
    (∀ k, alookup k (LoaderP.load cfg fs s r).1.cache.items = alookup k s.cache.items) ∧
    (LoaderP.load cfg fs s r).1.utd = s.utd ∧ (LoaderP.load cfg fs s r).1.lock = s.lock ∧
    (LoaderP.load cfg fs s r).1.nextObj - s.nextObj ≤ 1 := by
  have he := LoaderP.load_effect cfg fs s r
  obtain ⟨hc, hu⟩ := he.failed e h
  refine ⟨hc, ?_, hu, he.lock, ?_⟩
  · intro k
    rw [hc]
    unfold LoaderP.touched
    cases hl : alookup (LoaderP.resolve cfg.path.isEmpty r) s.cache.items with
    | none => rfl
    | some v =>
      simp only [astep, hl]
      by_cases hk : LoaderP.resolve cfg.path.isEmpty r = k
      · subst hk; simp [alookup, hl]
      · simp only [alookup, hk, ↓reduceIte]
        exact Genshi.Loader.alookup_aerase_ne (fun h => hk h.symm)
  · rcases he.counters with ⟨h1, _, _⟩ | ⟨h1, _, _⟩ <;> omega

/-- Cache-key uniqueness: after every history of writes, touches, deletions and loads — with
    any mixture of directories, callables and `prefixed()` items, relative and absolute names —
    no key is cached twice and the cache is within its bound. -/
theorem pathload_cache_keys_unique (cfg : LoaderP.Cfg) (ops : List LoaderP.HOp) :
    (akeys (LoaderP.hrun cfg (LoaderP.World.init cfg.cap) ops).1.ls.cache.items).Nodup ∧
    (LoaderP.hrun cfg (LoaderP.World.init cfg.cap) ops).1.ls.cache.items.length ≤
      (LoaderP.hrun cfg (LoaderP.World.init cfg.cap) ops).1.ls.cache.cap := by
  have h := LoaderP.hrun_awf cfg (LoaderP.World.init cfg.cap) ops (aempty_awf cfg.cap)
  exact ⟨h.2, h.1⟩

-- non-vacuity: a search path of a `prefixed()` item and a directory; files `/a/t` (content 7),
-- `/b/t` (content 8, served under the prefix `p`) and a file that does not parse
def exFs : LoaderP.FS := fun p =>
  if p = ['/', 'a', '/', 't'] then some ⟨7, false, 1⟩
  else if p = ['/', 'b', '/', 't'] then some ⟨8, false, 2⟩
  else if p = ['/', 'a', '/', 'x'] then some ⟨9, true, 3⟩ else none
def exCfg : LoaderP.Cfg := ⟨[.prefixed [(['p'], .dir ['/', 'b'])], .dir ['/', 'a', '/', '.', '/']], true, 2, true⟩
-- `s/../t` is the key `t`; the prefixed item does not have it, the directory does
example : (LoaderP.load exCfg exFs (LoaderP.LState.init 2) { filename := ['s', '/', '.', '.', '/', 't'] }).2 =
    .ok ⟨0, ['/', 'a', '/', '.', '/', 't'], ['t'], 7, 0, 0⟩ := by decide
-- `p//t` goes to the delegate of the prefix `p` with the name `t`; `filename` stays `p/t`
example : (LoaderP.load exCfg exFs (LoaderP.LState.init 2) { filename := ['p', '/', '/', 't'] }).2 =
    .ok ⟨0, ['/', 'b', '/', 't'], ['p', '/', 't'], 8, 0, 0⟩ := by decide
-- an absolute `relative_to` with a search path: the name is not joined (key `../b/t`), the
-- directory `/b` is appended, the first item that has `../b/t` is `/a/./`, names are absolute
example : (LoaderP.load exCfg exFs (LoaderP.LState.init 2)
      { filename := ['.', '.', '/', 'b', '/', 't'], relTo := some ['/', 'b', '/', 'i'] }).2 =
    .ok ⟨0, ['/', 'a', '/', '.', '/', '.', '.', '/', 'b', '/', 't'], ['/', 'a', '/', '.', '/', '.', '.', '/', 'b', '/', 't'], 8, 0, 0⟩ := by decide
-- failures: nothing found / a file that does not parse; the state is as before
example : (LoaderP.load exCfg exFs (LoaderP.LState.init 2) { filename := ['q'] }).2 = .err .notFound ∧
    (LoaderP.load exCfg exFs (LoaderP.LState.init 2) { filename := ['x'] }).2 = .err .syntaxError ∧
    (LoaderP.load exCfg exFs (LoaderP.LState.init 2) { filename := ['x'] }).1.cache.items = [] := by decide
-- two spellings of one name share one cache entry; a third name makes two entries
example : ((LoaderP.hrun exCfg ⟨exFs, 5, LoaderP.LState.init 2⟩
      [.load { filename := ['t'] }, .load { filename := ['.', '/', 's', '/', '.', '.', '/', 't'] },
       .load { filename := ['p', '/', 't'] }]).1.ls.cache.items.map (·.1)) = [['p', '/', 't'], ['t']] := by decide

/-- … and a load touches the entry of its own key only — the normalised name
    `normpath(join(dirname(relative_to), filename))` — whatever path item delivers the file and
    whatever `filename` that item reports: what is cached under any other key afterwards was
    cached under it before (it can only disappear, as the least recently used entry). -/
theorem pathload_touches_only_its_key (cfg : LoaderP.Cfg) (fs : LoaderP.FS) (s : LoaderP.LState)
    (r : LoaderP.Req) (k : LoaderP.Key) (t : LoaderP.Tmpl)
    (hk : k ≠ LoaderP.resolve cfg.path.isEmpty r)
    (h : alookup k (LoaderP.load cfg fs s r).1.cache.items = some t) :
    alookup k s.cache.items = some t :=
  LoaderP.load_other_key cfg fs s r k t hk h

/-- The `uptodate` half of the callable contract: a template delivered with `uptodate=None`
    (what `package()` returns) is never considered current — with automatic reloading every load
    of its key walks the search path again, so `pathload_outcome_is_first_on_path` applies to it
    (it always reflects the current content; it is parsed on every load). -/
theorem pathload_uptodate_none_always_reloads (cfg : LoaderP.Cfg) (har : cfg.autoReload = true)
    (fs : LoaderP.FS) (s : LoaderP.LState) (r : LoaderP.Req)
    (hu : s.utd (LoaderP.resolve cfg.path.isEmpty r) = some .never) :
    alookup (LoaderP.resolve cfg.path.isEmpty r) s.cache.items = none ∨
      (cfg.autoReload = true ∧ LoaderP.stillCurrent fs s (LoaderP.resolve cfg.path.isEmpty r) = false) := by
  right
  exact ⟨har, by simp [LoaderP.stillCurrent, hu]⟩

-- a callable without an up-to-date check: the second load parses again (identity 1), also when
-- nothing changed
example : ((LoaderP.hrun ⟨[.fn ['/', 'a'] false true], true, 2, true⟩ ⟨exFs, 5, LoaderP.LState.init 2⟩
      [.load { filename := ['t'] }, .load { filename := ['t'] }]).2) =
    [some (.ok ⟨0, ['/', 'a', '/', 't'], ['@', 't'], 7, 0, 0⟩), some (.ok ⟨1, ['/', 'a', '/', 't'], ['@', 't'], 7, 0, 0⟩)] := by decide

/-- **A file rewritten in place while it is being read** (content new / time old; open end 2):
    `directory()` — and any callable that takes the time right after `open` — remembers the
    modification time the file had before the rewrite, the template class then reads the new
    content.  The load returns the new content, and with automatic reloading the entry it stores
    is not current afterwards (the file's time has moved on; `f.mtime < w.clock`: every
    modification gets a new time): the next load of the key is decided by the walk over the
    search path again (`pathload_outcome_is_first_on_path` applies), so the mismatch between the
    remembered time and the parsed content can never make the loader serve stale content. -/
theorem inplace_rewrite_is_noticed (cfg : LoaderP.Cfg) (w : LoaderP.World) (r : LoaderP.Req)
    (c : Nat) (b : Bool) (p : LoaderP.Str) (f : Genshi.Loader.File) (t : LoaderP.Tmpl)
    (hopen : LoaderP.wouldOpen cfg w.fs w.ls r = some p) (hf : w.fs p = some f)
    (hfresh : f.mtime < w.clock)
    (hres : (LoaderP.hstepW cfg w (.loadRewrite r c b)).2 = some (.ok t)) :
    t.content = c ∧ (LoaderP.hstepW cfg w (.loadRewrite r c b)).1.fs p = some ⟨c, b, w.clock⟩ ∧
    LoaderP.stillCurrent (LoaderP.hstepW cfg w (.loadRewrite r c b)).1.fs
      (LoaderP.hstepW cfg w (.loadRewrite r c b)).1.ls (LoaderP.resolve cfg.path.isEmpty r) = false :=
  LoaderP.inplace_noticed cfg w r c b p f t hopen hf hfresh hres

-- `/a/t` (content 7, time 1) is rewritten with content 70 while the first load reads it: that
-- load returns 70 and remembers time 1; the file now has time 5, so the second load parses again
example : ((LoaderP.hrunW ⟨[.dir ['/', 'a']], true, 2, true⟩ ⟨exFs, 5, LoaderP.LState.init 2⟩
      [.loadRewrite { filename := ['t'] } 70 false, .plain (.load { filename := ['t'] })]).2) =
    [some (.ok ⟨0, ['/', 'a', '/', 't'], ['t'], 70, 0, 0⟩), some (.ok ⟨1, ['/', 'a', '/', 't'], ['t'], 70, 0, 0⟩)] := by decide

end LoaderPath

end Genshi.Props.C15

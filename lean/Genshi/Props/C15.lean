/-
  C15 — The loader cache always serves the current template and stays within its
  bound; `LRUCache` is a bounded LRU map under every operation sequence.
  Property theorems only; the proofs live in `Genshi/Lemmas/Lru*.lean`.

  OBLIGATIONS (checked by the harness):
    lru_wf_preserved lru_wf_run lru_refines lru_refines_run lru_no_crash
    bounded lru_bounded evicts_least_recent set_with_room_keeps_all get_after_set
    iter_is_recency_order hit_moves_to_front set_moves_to_front reads_do_not_change
    wf_means inherited_get_misses
-/
import Genshi.Lemmas.Lru
import Genshi.Lemmas.LruAbs
namespace Genshi.Props.C15
open Genshi.Lru
variable {K V : Type} [DecidableEq K]

/-! ## the cache container -/

/-- Well-formedness (doubly-linked consistency; `_dict` = the nodes reachable from `head` =
    those reachable backwards from `tail`; no key twice — spelled out in `wf_means`) is
    preserved by every operation of the class, and no operation crashes, for every capacity. -/
theorem lru_wf_preserved (c : CLru K V) (op : Op K V) (h : Wf c) :
    ∃ c' o, cstep c op = some (c', o) ∧ Wf c' := by
  obtain ⟨ids, hr⟩ := h
  obtain ⟨c', ids', hs, hr', _⟩ := cstep_refines hr op
  exact ⟨c', _, hs, ids', hr'⟩

/-- … hence after every operation sequence from the empty cache, for every capacity
    (0 and 1 included). -/
theorem lru_wf_run (cap : Nat) (d : Node K V) (ops : List (Op K V)) :
    ∃ c' os, crun (empty cap d) ops = some (c', os) ∧ Wf c' := by
  obtain ⟨c', ids', hs, hr', _⟩ := crun_refines (empty_repr cap d) ops
  exact ⟨c', _, hs, ids', hr'⟩

/-- Refinement, one step: the abstraction function commutes with every operation and the
    outputs are equal. -/
theorem lru_refines (c : CLru K V) (op : Op K V) (h : Wf c) :
    ∃ a, abs c = some a ∧
      ∃ c', cstep c op = some (c', (astep a op).2) ∧ abs c' = some (astep a op).1 := by
  obtain ⟨ids, hr⟩ := h
  obtain ⟨c', ids', hs, hr', ha⟩ := cstep_refines hr op
  exact ⟨absOf c ids, hr.abs, c', hs, by rw [hr'.abs, ha]⟩

/-- Refinement, every operation sequence and every capacity: the concrete cache started
    empty yields exactly the outputs of the abstract bounded LRU map and represents its
    final recency list. -/
theorem lru_refines_run (cap : Nat) (d : Node K V) (ops : List (Op K V)) :
    ∃ c', crun (empty cap d) ops = some (c', (arun (aempty cap) ops).2) ∧
      abs c' = some (arun (aempty cap) ops).1 := by
  obtain ⟨c', ids', hs, hr', ha⟩ := crun_refines (empty_repr cap d) ops
  have e : absOf (empty cap d) [] = (aempty cap : ALru K V) := rfl
  rw [e] at hs ha
  exact ⟨c', hs, by rw [hr'.abs, ha]⟩

/-- No `AttributeError` on `None`, no `KeyError` from `del`, no endless walk. -/
theorem lru_no_crash (cap : Nat) (d : Node K V) (ops : List (Op K V)) :
    crun (empty cap d) ops ≠ none := by
  obtain ⟨c', hs, _⟩ := lru_refines_run cap d ops
  rw [hs]; simp

/-- The abstract map stays within its bound and never holds a key twice. -/
theorem bounded (cap : Nat) (ops : List (Op K V)) :
    (arun (aempty cap : ALru K V) ops).1.items.length ≤ cap ∧
    (akeys (arun (aempty cap : ALru K V) ops).1.items).Nodup := by
  obtain ⟨⟨h1, h2⟩, hc⟩ := arun_awf (aempty_awf cap) ops
  have hc' : (arun (aempty cap : ALru K V) ops).1.cap = cap := hc
  exact ⟨Nat.le_trans h1 (Nat.le_of_eq hc'), h2⟩

/-- … and so does the real structure: `len(cache) ≤ capacity` after every sequence. -/
theorem lru_bounded (cap : Nat) (d : Node K V) (ops : List (Op K V)) (c' : CLru K V)
    (os : List (Out K V)) (h : crun (empty cap d) ops = some (c', os)) : len c' ≤ cap := by
  obtain ⟨c'', ids', hs, hr', ha⟩ := crun_refines (empty_repr cap d) ops
  rw [h] at hs
  simp only [Option.some.injEq, Prod.mk.injEq] at hs
  obtain ⟨rfl, _⟩ := hs
  have e : absOf (empty cap d) [] = (aempty cap : ALru K V) := rfl
  rw [e] at ha
  have hb := (bounded (K := K) (V := V) cap ops).1
  rw [← ha] at hb
  simpa [len, absOf, kvOf, hr'.dict.size] using hb

/-- Least recently used first: storing a new key into a full cache drops exactly the last
    entry of the recency list. -/
theorem evicts_least_recent (a : ALru K V) (k : K) (v : V) (hk : alookup k a.items = none)
    (hfull : a.items.length = a.cap) (hpos : 0 < a.cap) :
    (astep a (.set k v)).1.items = (k, v) :: a.items.dropLast :=
  aset_full_evicts_last v hk hfull hpos

theorem set_with_room_keeps_all (a : ALru K V) (k : K) (v : V) (hk : alookup k a.items = none)
    (hroom : a.items.length < a.cap) :
    (astep a (.set k v)).1.items = (k, v) :: a.items :=
  aset_room_keeps_all v hk hroom

theorem get_after_set (a : ALru K V) (k : K) (v : V) (hpos : 0 < a.cap) :
    (astep (astep a (.set k v)).1 (.get k)).2 = .val v :=
  aget_after_set a k v hpos

/-- `__iter__` yields the keys most recently used first … -/
theorem iter_is_recency_order (a : ALru K V) : astep a .iter = (a, .keys (akeys a.items)) := rfl

/-- … where a hit makes its key the most recent and keeps the order of the others, -/
theorem hit_moves_to_front (a : ALru K V) (k : K) (v : V) (h : alookup k a.items = some v) :
    akeys (astep a (.get k)).1.items = k :: (akeys a.items).filter (· ≠ k) :=
  aget_hit_order h

/-- … and so does a store (cut at the capacity). -/
theorem set_moves_to_front (a : ALru K V) (k : K) (v : V) :
    akeys (astep a (.set k v)).1.items = (k :: (akeys a.items).filter (· ≠ k)).take a.cap :=
  aset_order a k v

/-- `in`, `len`, iteration and a miss leave the map as it was. -/
theorem reads_do_not_change (a : ALru K V) (k : K) :
    (astep a (.contains k)).1 = a ∧ (astep a .len).1 = a ∧ (astep a .iter).1 = a ∧
    (alookup k a.items = none → (astep a (.get k)).1 = a) :=
  ⟨rfl, rfl, rfl, fun h => by rw [aget_miss_noop h]⟩

/-- What `Wf` means in terms of walks over the real fields. -/
theorem wf_means (c : CLru K V) (h : Wf c) : ∃ ids : List Id,
    walkNxt c.heap (c.size + 1) c.head = some ids ∧
    walkPrv c.heap (c.size + 1) c.tail = some ids.reverse ∧
    ids.Nodup ∧ (ids.map fun i => (c.heap i).key).Nodup ∧ c.size = ids.length ∧
    (∀ i ∈ ids, c.dict (c.heap i).key = some i) ∧
    (∀ k i, c.dict k = some i → i ∈ ids ∧ (c.heap i).key = k) := by
  obtain ⟨ids, hr⟩ := h
  exact ⟨ids, hr.meaning⟩

/-- Known finding C15-inherited-dict: `get/keys/pop/__delitem__/…` are not overridden and act
    on the base `dict`, which `LRUCache` never fills; `cache.get(k)` misses a cached key. -/
theorem inherited_get_misses :
    ∃ (c : CLru Nat Nat) (os : List (Out Nat Nat)),
      crun (empty 3 ⟨none, none, 0, 0⟩) [.set 0 10] = some (c, os) ∧
      contains c 0 = true ∧ inheritedGet c 0 = none := by
  refine ⟨_, _, rfl, by decide, rfl⟩

/-! ### non-vacuity -/
example : (crun (empty 2 ⟨none, none, 0, 0⟩ : CLru Nat Nat)
      [.set 0 10, .set 1 11, .get 0, .set 2 12, .iter, .get 1]).map (·.2) =
    some [.unit, .unit, .val 10, .unit, .keys [2, 0], .keyError] := by decide
example : (arun (aempty 0 : ALru Nat Nat) [.set 0 10, .len, .get 0]).2 =
    [.unit, .nat 0, .keyError] := by decide
example : (astep (⟨2, [(1, 11), (0, 10)]⟩ : ALru Nat Nat) (.set 2 12)).1.items = [(2, 12), (1, 11)] := by
  decide

end Genshi.Props.C15

/-
  C19 — Identity translation is transparent and message extraction is complete.
  Property theorems only; the model is `Genshi/Model/I18n*.lean`, helper lemmas are in
  `Genshi/Lemmas/I18n*.lean`.

  OBLIGATIONS (checked against `Genshi/Audit.lean` by the harness):
    replace_self translate_identity attr_space_not_transparent translate_forest
    excluded_untouched attrs_outside_include_untouched interpolated_attrs_untouched
    extract_text_false_untouched default_cfg_excludes_script_style reorder_is_permutation
    parse_format translate_tree translate_tree_sub placeholders_once_each translate_format_id
    msg_identity_attr msg_identity_elem
    adjacent_not_transparent backslash_not_transparent placeholder_text_raises percent_raises
    drop_nested_unbalanced fragments_looked_up_not_extracted nested_directives_raise
    default_cfg_include_attrs i18n_directives_sort_first contexted_table
    lookups_subset_extract_partial choose_identity msg_lookup_extracted identity_transparent_msg
    choose_lookup_extracted choose_outer_text_not_looked_up msg_lookup_extracted_elem
    code_calls_extracted identity_transparent_msg_sub choose_extract_succeeds
    sub_attrs_not_extracted wide_of_plain identity_transparent_msg_reorder
    translate_format_id_brackets msg_identity_brackets msg_identity_elem_brackets brackets_of_clean
    placeholder_text_straddles msg_element_first_child_mismatch
    code_call_reported code_literal_call_reported code_reported_is_call code_reported_exactly nested_call_was_missed
    code_call_sites_extracted code_list_is_call_sites
    lookups_subset_extract_args identity_transparent_msg_skip skip_generalises_reorder
    branch_directive_ids_mismatch
-/
import Genshi.Lemmas.I18nTree
import Genshi.Lemmas.I18nStarts
import Genshi.Lemmas.I18nLookups
import Genshi.Lemmas.I18nChoose
import Genshi.Lemmas.I18nMsgLookup
import Genshi.Lemmas.I18nLookups2
import Genshi.Lemmas.I18nLookups3
import Genshi.Lemmas.I18nChooseLookup
import Genshi.Lemmas.I18nCode
import Genshi.Lemmas.I18nPyExpr
import Genshi.Lemmas.I18nPassEq
import Genshi.Lemmas.I18nPassReorder
import Genshi.Lemmas.I18nPyStream
import Genshi.Lemmas.I18nPassSkip
import Genshi.Model.I18nExtract
namespace Genshi.Props.C19
open Genshi Genshi.I18n

/-- `data.replace(text, text) = data`: what the identity catalogue does to a text node. -/
theorem replace_self (pat s : Str) : Str.replace pat pat s = s := Genshi.I18n.replace_self pat s

/-- **identity_transparent, translation pass** (`Translator.__call__`).  Under the identity
    catalogue, for every context, flag setting and skip depth, the pass returns its input up
    to the order of the directives of SUB events, provided no included plain attribute value
    has white space at its edges (finding C19-attr-space: `attr_space_not_transparent`).
    The message directives are covered by `msg_identity` below. -/
theorem translate_identity (cfg : Cfg) (ctx : Ctx) (tt ta : Bool) (s : TStream)
    (h : cleanList cfg s = true) :
    sameList s (translate cfg Catalog.id ctx tt ta s) = true :=
  trList_id_same cfg ctx _ _ 0 s h

example : cleanList Cfg.default
    [.start ⟨[], ['p']⟩ [(⟨[], ['t','i','t','l','e']⟩, .str ['H','i'])], .text [' ', 'a', ' '],
     .sub [.msg [], .domain ['d']] [.text ['x']], .end_ ⟨[], ['p']⟩] = true := by decide

/-- the hypothesis of `translate_identity` cannot be dropped: `title=" Foo "` comes back
    as `title="Foo"` under the identity catalogue (known finding C19-attr-space). -/
theorem attr_space_not_transparent :
    translate Cfg.default Catalog.id [] true true
      [.start ⟨[], ['p']⟩ [(⟨[], ['t','i','t','l','e']⟩, .str [' ', 'F', 'o', 'o', ' '])]] =
      [.start ⟨[], ['p']⟩ [(⟨[], ['t','i','t','l','e']⟩, .str ['F', 'o', 'o'])]] := by decide

/-- The pass is a tree homomorphism: on the flattening of a forest it works node by node
    (`trNode`), for **any** catalogue; `trNode` returns an excluded element unchanged. -/
theorem translate_forest (cfg : Cfg) (cat : Catalog) (ctx : Ctx) (tt ta : Bool) (ns : List TNode)
    (rest : TStream) (h : okNodes ns = true) :
    trList cfg cat ctx tt ta 0 (flattenNodes ns ++ rest) =
      flattenNodes (trNodes cfg cat ctx tt ta ns) ++ trList cfg cat ctx tt ta 0 rest :=
  trList_nodes cfg cat ctx tt ta ns rest h

/-- **excluded_untouched (tag / xml:lang)**: an element whose tag is in `ignore_tags` or that
    carries a literal `xml:lang` passes with its whole sub-tree unchanged, whatever the
    catalogue, the context and the flags, and translation resumes after it. -/
theorem excluded_untouched (cfg : Cfg) (cat : Catalog) (ctx : Ctx) (tt ta : Bool)
    (t : QName) (a : TAttrs) (ks : List TNode) (rest : TStream)
    (hx : excluded cfg t a = true) (hk : okNodes ks = true) :
    trList cfg cat ctx tt ta 0 ((TNode.elem t a ks).flatten ++ rest) =
      (TNode.elem t a ks).flatten ++ trList cfg cat ctx tt ta 0 rest := by
  rw [trList_node cfg cat ctx tt ta _ rest (by simpa [TNode.ok] using hk)]
  simp [trNode, hx]

example : excluded Cfg.default ⟨[], ['p']⟩ [(xmlLang, .str ['e', 'n'])] = true := by decide
example : excluded Cfg.default ⟨[], ['p']⟩ [(xmlLang, .parts [.expr []])] = false := by decide

/-- **excluded_untouched (include_attrs)**: an attribute whose name is not in `include_attrs`
    keeps its value under any catalogue. -/
theorem attrs_outside_include_untouched (cfg : Cfg) (gt : Str → Str) (ta : Bool) (n : QName) (v : AVal)
    (h : cfg.includeAttrs.contains n.text = false) : trAttr cfg gt ta (n, v) = (n, v) := by
  cases v with
  | parts ps => simp [trAttr]
  | str s =>
    have h' : ¬ (n.text ∈ cfg.includeAttrs) := by simpa using h
    simp [trAttr, h']

/-- interpolated attribute values are never translated. -/
theorem interpolated_attrs_untouched (cfg : Cfg) (gt : Str → Str) (ta : Bool) (n : QName) (ps : List APart) :
    trAttr cfg gt ta (n, .parts ps) = (n, .parts ps) := by simp [trAttr]

/-- **excluded_untouched (configuration)**: with `extract_text=False` the pass changes no
    text and no attribute, for any catalogue. -/
theorem extract_text_false_untouched (cfg : Cfg) (cat : Catalog) (ctx : Ctx) (tt ta : Bool) (s : TStream)
    (h : cfg.extractText = false) : sameList s (translate cfg cat ctx tt ta s) = true := by
  unfold translate; simp only [h, Bool.false_and]
  exact trList_off_same cfg cat ctx h 0 s

/-- the default configuration (generated from `Translator.IGNORE_TAGS`) excludes `script`
    and `style`, with and without the XHTML namespace. -/
theorem default_cfg_excludes_script_style (a : TAttrs) :
    excluded Cfg.default ⟨[], ['s','c','r','i','p','t']⟩ a = true ∧
    excluded Cfg.default ⟨[], ['s','t','y','l','e']⟩ a = true ∧
    excluded Cfg.default ⟨['h','t','t','p',':','/','/','w','w','w','.','w','3','.','o','r','g','/','1','9','9','9','/','x','h','t','m','l'], ['s','c','r','i','p','t']⟩ a = true ∧
    excluded Cfg.default ⟨['h','t','t','p',':','/','/','w','w','w','.','w','3','.','o','r','g','/','1','9','9','9','/','x','h','t','m','l'], ['s','t','y','l','e']⟩ a = true := by
  refine ⟨?_, ?_, ?_, ?_⟩ <;>
    (unfold excluded; simp only [Bool.or_eq_true]; left; decide)

/-- the default `include_attrs` (generated from `Translator.INCLUDE_ATTRS`) are the eight
    documented attribute names. -/
theorem default_cfg_include_attrs :
    Cfg.default.includeAttrs = [['a','b','b','r'], ['a','l','t'], ['l','a','b','e','l'],
      ['p','l','a','c','e','h','o','l','d','e','r'], ['p','r','o','m','p','t'], ['s','t','a','n','d','b','y'],
      ['s','u','m','m','a','r','y'], ['t','i','t','l','e']] := by decide

/-- "directive registration ahead of template directives": the seven i18n directives are
    registered in the order domain, comment, ctxt, msg, choose, singular, plural; msg and
    choose are the extractable ones, singular and plural the branches; and every
    `Translator.get_directive_index` is negative, so on a SUB event they sort in front of
    the template's own directives (whose indices are ≥ 0). -/
theorem i18n_directives_sort_first :
    Gen.I18n.directives.map (fun d => (d.2.1, d.2.2.1, d.2.2.2)) =
      [(['d','o','m','a','i','n'], false, false), (['c','o','m','m','e','n','t'], false, false),
       (['c','t','x','t'], false, false), (['m','s','g'], true, false), (['c','h','o','o','s','e'], true, false),
       (['s','i','n','g','u','l','a','r'], false, true), (['p','l','u','r','a','l'], false, true)] ∧
    (∀ i ∈ Gen.I18n.directiveIndex, i < 0) ∧
    Gen.I18n.directiveIndex.Pairwise (· < ·) := by
  refine ⟨by decide, by decide, by decide⟩

/-- the `contexted` table used by `contextify`: plain messages become `pgettext`, plural
    ones `pngettext` (extraction under `i18n:ctxt` never hits the ValueError branch). -/
theorem contexted_table :
    contextedGet none = some pgettextName ∧
    contextedGet (some ngettextName) = some ['p','n','g','e','t','t','e','x','t'] := by
  refine ⟨by decide, by decide⟩

/-- the directive list of a SUB event is only permuted by the pass (domain first, context next). -/
theorem reorder_is_permutation (ds : List Dir) : (reorder ds).dirs.Perm ds := reorder_perm ds


/-! ## look-ups ⊆ extraction -/

/-- **lookups_subset_extract** (partial).
    Full statement: every message id containing a letter that rendering passes to the
    catalogue is among the messages `Translator.extract` reports for the same stream.
    Proved, by a simultaneous induction over `Translator.__call__` and `Translator.extract`
    with the skip counter shared, for every template stream (`WideList`) built from
      * any nesting of py: directives, i18n:domain / ctxt / comment (including the loops that
        edit the directive list under their own iterator), ignored tags, xml:lang;
      * message directives `<t i18n:msg="ps" …>content</t>` or `<i18n:msg params="ps">content</i18n:msg>`
        (the latter neither starting nor ending with an element: finding
        C19-msg-element-first-child) that may share their element with any other directives
        (`i18n:comment`, `i18n:ctxt`, `i18n:domain`, `py:if` …: `OneDir`), whose content is any event
        list — text, expressions, elements, and **directive-carrying elements** (SUB events) that
        are quiet: no text with a letter and no included attribute value with a letter in them
        (what the pass looks up there is not extracted: findings C19-fragments, C19-sub-attrs;
        witnesses `fragments_looked_up_not_extracted`, `sub_attrs_not_extracted`) and no message
        directive of their own;
      * plural choices `<t i18n:choose="n; ps" …> pre <ts i18n:singular="">cS</ts> mid
        <tp i18n:plural="">cP</tp> post </t>` with white space, comments, code blocks outside the
        branches (finding C19-choose-outer-text, `choose_outer_text_not_looked_up`) and branch
        contents whose text outside expressions has no letter and whose directive-carrying
        elements are quiet (findings C19-fragments, C19-sub-attrs);
      * message buffers that can be built (as many parameters as expressions, balanced content);
    for any configuration and context:
      * extraction never raises;
      * every id the translation pass looks up (text nodes, included attributes, also the
        attributes inside messages and plural choices) is extracted unless it has no letter;
      * every message id an `i18n:msg` directive looks up while rendering is extracted
        (`msgIdsW`: the id of the template's own stream; for content without directive-carrying
        elements the stream the directive sees after the pass gives the same id for every
        catalogue, `msg_lookup_extracted`; inside a directive-carrying element the pass hands the
        letter-free text fragments to the catalogue as well — finding C19-fragments — and the
        id is the same whenever the catalogue leaves those alone).
    The pair of ids an `i18n:choose` hands to `ngettext` is `choose_lookup_extracted`; the
    gettext calls made by template code are `code_calls_extracted`.  The remaining hypotheses
    are the recorded findings named above, each with its `decide`-checked witness. -/
theorem lookups_subset_extract_partial (cfg : Cfg) (ctx : Ctx) (s : TStream) (h : WideList cfg s) :
    ∃ ms, extract cfg s = .ok ms ∧
      (∀ l ∈ lookups cfg ctx true true s, hasLetter l.msgid = true → l.msgid ∈ idsOf ms) ∧
      (∀ id ∈ msgIdsW s, id ∈ idsOf ms) :=
  lookups_subset_extract_wide cfg ctx s h

/-- **lookups_subset_extract with every argument of the two entry points quantified** (wave 4).
    `lookups_subset_extract_partial` fixes the arguments at their defaults; here
      * `Translator.__call__(stream, ctxt, translate_text=tt, translate_attrs=ta)` — both flags and
        the template context (`_i18n.domain` / `_i18n.context` frames) arbitrary,
      * `Translator.extract(stream, search_text=st, comment_stack=cs, context_stack=xs)` — any
        comment and context stacks (a non-empty context stack turns every message into its
        `pgettext` / `npgettext` form: `contextify`), `search_text` either `True` or — only when
        the instance has `extract_text=False`, where the pass looks no text up — `False`
        (`extractWith`; correspondence stream `extractw`),
      * the instance: `ignore_tags`, `include_attrs`, `extract_text` arbitrary (`cfg`), literal
        `xml:lang` handled inside (`excluded`).
    `Translator.setup` only registers the filter and the directives (exercised by the oracle). -/
theorem lookups_subset_extract_args (cfg : Cfg) (ctx : Ctx) (s : TStream) (h : WideList cfg s)
    (tt ta st : Bool) (cs xs : List Str) (hst : st = true ∨ cfg.extractText = false) :
    ∃ ms, extractWith cfg st cs xs s = .ok ms ∧
      (∀ l ∈ lookups cfg ctx tt ta s, hasLetter l.msgid = true → l.msgid ∈ idsOf ms) ∧
      (∀ id ∈ msgIdsW s, id ∈ idsOf ms) :=
  Genshi.I18n.lookups_subset_extract_args cfg ctx s h tt ta st cs xs hst

/-- `<p title="Tip">Hi</p>` extracted with `comment_stack=['c']`, `context_stack=['m']`: the text
    comes out as `pgettext('m', 'Hi')` with the comment, the attribute plain; the pass (under a
    domain frame, attributes only) looks `Tip` up -/
example :
    okMsgList [.start ⟨[], ['p']⟩ [(⟨[], ['t','i','t','l','e']⟩, .str ['T','i','p'])], .text ['H','i'], .end_ ⟨[], ['p']⟩] = true ∧
    extractWith Cfg.default true [['c']] [['m']]
      [.start ⟨[], ['p']⟩ [(⟨[], ['t','i','t','l','e']⟩, .str ['T','i','p'])], .text ['H','i'], .end_ ⟨[], ['p']⟩] =
      .ok [⟨none, .one (some ['T','i','p']), []⟩,
           ⟨some ['p','g','e','t','t','e','x','t'], .many [some ['m'], some ['H','i']], [['c']]⟩] ∧
    (lookups Cfg.default [.domain ['d']] false true
      [.start ⟨[], ['p']⟩ [(⟨[], ['t','i','t','l','e']⟩, .str ['T','i','p'])], .text ['H','i'], .end_ ⟨[], ['p']⟩]).map
        Lookup.msgid = [['T','i','p']] := by
  refine ⟨by decide +kernel, by decide +kernel, by decide +kernel⟩

/-- the streams of the first version of the theorem — message directives alone on their
    element, content without directive-carrying elements (`okMsgList`, decidable) — are among them -/
theorem wide_of_plain (cfg : Cfg) (s : TStream) (h : okMsgList s = true) : WideList cfg s :=
  wide_of_okMsgList cfg s h

/-- `<p i18n:comment="c" i18n:msg="n" py:if="x">Hi <b py:if="y" title="1">${n} 2</b>!</p>`:
    the message shares its element with two other directives, its content holds a
    directive-carrying element (quiet: `2`, `title="1"`); the id looked up is extracted -/
example :
    WideList Cfg.default
      [.sub [.comment ['c'], .msg [['n']], .other ['i','f']]
        [.start ⟨[], ['p']⟩ [], .text ['H','i',' '],
         .sub [.other ['i','f']] [.start ⟨[], ['b']⟩ [(⟨[], ['t','i','t','l','e']⟩, .str ['1'])], .expr 0 [], .text [' ','2'], .end_ ⟨[], ['b']⟩],
         .text ['!'], .end_ ⟨[], ['p']⟩]] ∧
    msgIdsW
      [.sub [.comment ['c'], .msg [['n']], .other ['i','f']]
        [.start ⟨[], ['p']⟩ [], .text ['H','i',' '],
         .sub [.other ['i','f']] [.start ⟨[], ['b']⟩ [(⟨[], ['t','i','t','l','e']⟩, .str ['1'])], .expr 0 [], .text [' ','2'], .end_ ⟨[], ['b']⟩],
         .text ['!'], .end_ ⟨[], ['p']⟩]] = [['H','i',' ','[','1',':','%','(','n',')','s',' ','2',']','!']] := by
  refine ⟨⟨Or.inl ⟨[['n']], ⟨by decide, by decide⟩, Or.inl ?_⟩, trivial⟩, by decide +kernel⟩
  obtain ⟨B, hB⟩ := ok_of_isOk (x := mbAppendList (MB.new [['n']])
    [.text ['H','i',' '],
     .sub [.other ['i','f']] [.start ⟨[], ['b']⟩ [(⟨[], ['t','i','t','l','e']⟩, .str ['1'])], .expr 0 [], .text [' ','2'], .end_ ⟨[], ['b']⟩],
     .text ['!']]) (by decide +kernel)
  exact ⟨_, _, _, .end_ ⟨[], ['p']⟩, B, rfl, by decide +kernel, rfl, by decide +kernel, hB⟩

/-- `<div i18n:choose="n; n" i18n:domain="d"> <p i18n:singular="" title="One">1 ${n}</p> <!-- c -->
    <p i18n:plural="">${n} <b py:if="c">2</b></p> </div>`: a plural choice inside the induction;
    the pass looks up `One` (attribute), `1` and `2` (fragments without letter) -/
example :
    WideList Cfg.default
      [.sub [.domain ['d'], .choose [['n']]]
        (.start ⟨[], ['d']⟩ [] :: (([.text [' ']] ++
          .sub [.singular] (.start ⟨[], ['p']⟩ [(⟨[], ['t','i','t','l','e']⟩, .str ['O','n','e'])] ::
              ([.text ['1',' '], .expr 0 []] ++ [.end_ ⟨[], ['p']⟩])) ::
          ([.text [' '], .other ['c'], .text [' ']] ++
          .sub [.plural] (.start ⟨[], ['p']⟩ [] :: ([.expr 0 [], .text [' '],
              .sub [.other ['i','f']] [.start ⟨[], ['b']⟩ [], .text ['2'], .end_ ⟨[], ['b']⟩]] ++ [.end_ ⟨[], ['p']⟩])) ::
          [.text [' ']])) ++ [.end_ ⟨[], ['d']⟩]))] ∧
    (lookups Cfg.default [] true true
      [.sub [.domain ['d'], .choose [['n']]]
        (.start ⟨[], ['d']⟩ [] :: (([.text [' ']] ++
          .sub [.singular] (.start ⟨[], ['p']⟩ [(⟨[], ['t','i','t','l','e']⟩, .str ['O','n','e'])] ::
              ([.text ['1',' '], .expr 0 []] ++ [.end_ ⟨[], ['p']⟩])) ::
          ([.text [' '], .other ['c'], .text [' ']] ++
          .sub [.plural] (.start ⟨[], ['p']⟩ [] :: ([.expr 0 [], .text [' '],
              .sub [.other ['i','f']] [.start ⟨[], ['b']⟩ [], .text ['2'], .end_ ⟨[], ['b']⟩]] ++ [.end_ ⟨[], ['p']⟩])) ::
          [.text [' ']])) ++ [.end_ ⟨[], ['d']⟩]))]).map Lookup.msgid = [['O','n','e'], ['1'], ['2']] := by
  refine ⟨⟨Or.inr (Or.inl ⟨[['n']], ⟨by decide, by decide⟩, ?_⟩), trivial⟩, by decide +kernel⟩
  obtain ⟨C, hC, hCs⟩ := ok_stack_of_isOk (x := mbAppendList (MB.new [['n']]) [.text ['1',' '], .expr 0 []]) (by decide +kernel)
  obtain ⟨D, hD, hDs⟩ := ok_stack_of_isOk (x := mbAppendList (MB.new [['n']]) [.expr 0 [], .text [' '],
      .sub [.other ['i','f']] [.start ⟨[], ['b']⟩ [], .text ['2'], .end_ ⟨[], ['b']⟩]]) (by decide +kernel)
  exact ⟨_, _, _, _, _, _, _, _, _, _, _, _, _, _, C, D, rfl, by decide, by decide, by decide,
    by decide +kernel, by decide +kernel, hC, hD, hCs, hDs⟩

/-- C19-sub-attrs: the `title` of a directive-carrying element inside a message is looked up by
    the pass but not extracted (`MsgDirective.extract` looks at the START events of the top
    level of its sub-stream only): the quietness hypothesis on such elements cannot be dropped. -/
theorem sub_attrs_not_extracted :
    (lookups Cfg.default [] true true [.sub [.msg []] [.start ⟨[], ['p']⟩ [], .text ['a',' '],
      .sub [.other ['i','f']] [.start ⟨[], ['b']⟩ [(⟨[], ['t','i','t','l','e']⟩, .str ['F','o','o'])], .text ['1'], .end_ ⟨[], ['b']⟩],
      .end_ ⟨[], ['p']⟩]]).map Lookup.msgid = [['F','o','o'], ['1']] ∧
    extract Cfg.default [.sub [.msg []] [.start ⟨[], ['p']⟩ [], .text ['a',' '],
      .sub [.other ['i','f']] [.start ⟨[], ['b']⟩ [(⟨[], ['t','i','t','l','e']⟩, .str ['F','o','o'])], .text ['1'], .end_ ⟨[], ['b']⟩],
      .end_ ⟨[], ['p']⟩]] = .ok [⟨none, .one (some ['a',' ','[','1',':','1',']']), []⟩] := by
  refine ⟨by decide +kernel, by decide +kernel⟩

example : okMsgList
    [.start ⟨[], ['d']⟩ [], .text ['H','i'],
     .sub [.msg []] [.start ⟨[], ['p']⟩ [(⟨[], ['t','i','t','l','e']⟩, .str ['T'])], .text ['a',' '],
                     .start ⟨[], ['b']⟩ [(⟨[], ['a','l','t']⟩, .str ['A'])], .text ['x'], .end_ ⟨[], ['b']⟩, .end_ ⟨[], ['p']⟩],
     .end_ ⟨[], ['d']⟩] = true ∧
    msgIdsList
      [.start ⟨[], ['d']⟩ [], .text ['H','i'],
       .sub [.msg []] [.start ⟨[], ['p']⟩ [(⟨[], ['t','i','t','l','e']⟩, .str ['T'])], .text ['a',' '],
                       .start ⟨[], ['b']⟩ [(⟨[], ['a','l','t']⟩, .str ['A'])], .text ['x'], .end_ ⟨[], ['b']⟩, .end_ ⟨[], ['p']⟩],
       .end_ ⟨[], ['d']⟩] = [['a',' ','[','1',':','x',']']] := by
  refine ⟨by decide +kernel, by decide +kernel⟩

example : noMsgList
    [.start ⟨[], ['p']⟩ [(⟨[], ['t','i','t','l','e']⟩, .str ['T','i','p'])], .text [' ', 'H', 'i', ' '],
     .sub [.other ['i','f'], .ctxt ['m']] [.start ⟨[], ['b']⟩ [], .text ['x', '1'], .end_ ⟨[], ['b']⟩],
     .end_ ⟨[], ['p']⟩] = true ∧
    (lookups Cfg.default [] true true
      [.start ⟨[], ['p']⟩ [(⟨[], ['t','i','t','l','e']⟩, .str ['T','i','p'])], .text [' ', 'H', 'i', ' '],
       .sub [.other ['i','f'], .ctxt ['m']] [.start ⟨[], ['b']⟩ [], .text ['x', '1'], .end_ ⟨[], ['b']⟩],
       .end_ ⟨[], ['p']⟩]).map Lookup.msgid = [['T','i','p'], ['H','i'], ['x','1']] := by
  refine ⟨by decide +kernel, by decide +kernel⟩

/-- the element form is among the streams of `lookups_subset_extract_partial`:
    `<i18n:msg params="n">Hi <b title="T">x</b> ${n}</i18n:msg>` -/
example :
    okMsgList
      [.sub [.msg [['n']]] [.text ['H','i',' '], .start ⟨[], ['b']⟩ [(⟨[], ['t','i','t','l','e']⟩, .str ['T'])],
         .text ['x'], .end_ ⟨[], ['b']⟩, .text [' '], .expr 0 []]] = true ∧
    msgIdsList
      [.sub [.msg [['n']]] [.text ['H','i',' '], .start ⟨[], ['b']⟩ [(⟨[], ['t','i','t','l','e']⟩, .str ['T'])],
         .text ['x'], .end_ ⟨[], ['b']⟩, .text [' '], .expr 0 []]] =
      [['H','i',' ','[','1',':','x',']',' ','%','(','n',')','s']] := by
  refine ⟨by decide +kernel, by decide +kernel⟩

/-- C19-msg-element-first-child: `<i18n:msg><b>x</b> y</i18n:msg>` — the element form takes a
    leading element for its own start tag: rendering looks up `x y`, extraction reports `x`; the
    hypothesis of `GoodMsg` on the first event of the element form cannot be dropped. -/
theorem msg_element_first_child_mismatch :
    msgId [] [.start ⟨[], ['b']⟩ [], .text ['x'], .end_ ⟨[], ['b']⟩, .text [' ','y']] = .ok (some ['x',' ','y']) ∧
    msgExtract Cfg.default [] true [] [] [.start ⟨[], ['b']⟩ [], .text ['x'], .end_ ⟨[], ['b']⟩, .text [' ','y']] =
      .ok [⟨none, .one (some ['x']), []⟩] := by
  refine ⟨by decide +kernel, by decide +kernel⟩

/-- **lookups_subset_extract, gettext calls made by template code.**  For every stream as in
    `lookups_subset_extract_partial` (any nesting of py: directives, i18n:domain / ctxt /
    comment, excluded elements; message directives plain): extraction never raises and reports
    every gettext call `extract_from_code` finds (expressions are opaque and carry that result)
      * in every EXPR and EXEC event, at any depth, also inside excluded elements,
      * in the interpolated attribute values of every START event — also of excluded elements
        and inside them (repaired: fix 3dc8094),
      * in the expressions and interpolated attributes of the content of a message directive
        (repaired: fix 3c6e4de — the directive `extract` methods skipped EXPR events),
    as `(function, strings)` with an empty comment list (`codeList` collects exactly these). -/
theorem code_calls_extracted (cfg : Cfg) (s : TStream) (h : okMsgList s = true) :
    ∃ ms, extract cfg s = .ok ms ∧ ∀ c ∈ codeList cfg s, codeMessage c ∈ ms :=
  Genshi.I18n.code_calls_extracted cfg s h

/-- `<p i18n:msg="n">Hi ${_('W')}<b title="${_('T')}">x</b></p><script type="${_('A')}">${_('S')}</script>`:
    the four calls are in `codeList` (and the stream is one the theorem speaks about) -/
example :
    okMsgList
      [.sub [.msg [['n']]] [.start ⟨[], ['p']⟩ [], .text ['H','i',' '], .expr 0 [⟨['_'], .one (some ['W'])⟩],
          .start ⟨[], ['b']⟩ [(⟨[], ['t','i','t','l','e']⟩, .parts [.expr [⟨['_'], .one (some ['T'])⟩]])],
          .text ['x'], .end_ ⟨[], ['b']⟩, .end_ ⟨[], ['p']⟩],
       .start ⟨[], ['s','c','r','i','p','t']⟩ [(⟨[], ['t','y','p','e']⟩, .parts [.expr [⟨['_'], .one (some ['A'])⟩]])],
       .expr 1 [⟨['_'], .one (some ['S'])⟩], .end_ ⟨[], ['s','c','r','i','p','t']⟩] = true ∧
    codeList Cfg.default
      [.sub [.msg [['n']]] [.start ⟨[], ['p']⟩ [], .text ['H','i',' '], .expr 0 [⟨['_'], .one (some ['W'])⟩],
          .start ⟨[], ['b']⟩ [(⟨[], ['t','i','t','l','e']⟩, .parts [.expr [⟨['_'], .one (some ['T'])⟩]])],
          .text ['x'], .end_ ⟨[], ['b']⟩, .end_ ⟨[], ['p']⟩],
       .start ⟨[], ['s','c','r','i','p','t']⟩ [(⟨[], ['t','y','p','e']⟩, .parts [.expr [⟨['_'], .one (some ['A'])⟩]])],
       .expr 1 [⟨['_'], .one (some ['S'])⟩], .end_ ⟨[], ['s','c','r','i','p','t']⟩] =
      [⟨['_'], .one (some ['W'])⟩, ⟨['_'], .one (some ['T'])⟩, ⟨['_'], .one (some ['A'])⟩, ⟨['_'], .one (some ['S'])⟩] := by
  refine ⟨by decide +kernel, by decide +kernel⟩


/-! ### `extract_from_code`: what an EXPR / EXEC event carries

`code_calls_extracted` takes the list an expression carries as given; the theorems below are
about the function that computes it (model `extractFromCode` over the syntax tree `PyExpr`,
`Genshi/Model/I18nPyExpr.lean`, compared with the real `extract_from_code` on the trees genshi
builds: correspondence stream `pycode`). -/

/-- **every gettext call of the code is reported** (`extract_from_code`, as repaired by fix
    fbd47f1): a call `f(args…, kw=…)` of a plain name `f` among the gettext functions,
    occurring ANYWHERE in the expression or code block — also inside the arguments of another
    gettext call — is reported as `(f, strings)` with one entry per positional argument: the
    text of a string (or utf-8 bytes) literal, `None` for anything else; a single entry bare,
    otherwise a tuple. -/
theorem code_call_reported (gf : List Str) (e : PyExpr) (f : Str) (args kws : List PyExpr)
    (hs : SubExpr (.call (.name f) args kws) e) (hf : f ∈ gf) :
    ⟨f, argVal args⟩ ∈ extractFromCode gf e :=
  Genshi.I18n.code_call_reported gf e f args kws hs hf

/-- `ngettext('a', 'b', len(_('U')))`: the inner call is a sub-expression and `_` a gettext function -/
example : SubExpr (.call (.name ['_']) [.str ['U']] [])
      (.call (.name ['n','g','e','t','t','e','x','t'])
        [.str ['a'], .str ['b'], .call (.name ['l','e','n']) [.call (.name ['_']) [.str ['U']] []] []] []) ∧
    ['_'] ∈ Gen.I18n.gettextFunctions ∧ argVal [.str ['U']] = .one (some ['U']) :=
  ⟨SubExpr.arg _ _ (a := .call (.name ['l','e','n']) [.call (.name ['_']) [.str ['U']] []] []) (by simp)
     (SubExpr.arg _ _ (List.mem_singleton.2 rfl) (SubExpr.refl _)), by decide, by decide⟩

/-- … and when all positional arguments are string literals the reported value holds exactly
    those strings, in order. -/
theorem code_literal_call_reported (gf : List Str) (e : PyExpr) (f : Str) (ss : List Str)
    (kws : List PyExpr) (hs : SubExpr (.call (.name f) (literalArgs ss) kws) e) (hf : f ∈ gf) :
    ⟨f, match ss with | [s] => .one (some s) | _ => .many (ss.map some)⟩ ∈ extractFromCode gf e :=
  Genshi.I18n.code_literal_call_reported gf e f ss kws hs hf

example : extractFromCode Gen.I18n.gettextFunctions
    (.call (.name ['n','g','e','t','t','e','x','t']) (literalArgs [['a'], ['b']]) [.name ['n']]) =
    [⟨['n','g','e','t','t','e','x','t'], .many [some ['a'], some ['b']]⟩] := by decide

/-- **nothing else is reported**: every reported pair is the report of a call of one of the
    gettext functions that occurs in the code. -/
theorem code_reported_is_call (gf : List Str) (e : PyExpr) (m : CodeMsg)
    (h : m ∈ extractFromCode gf e) :
    ∃ args kws, SubExpr (.call (.name m.func) args kws) e ∧ m.func ∈ gf ∧ m.val = argVal args :=
  Genshi.I18n.code_reported_is_call gf e m h

example : (⟨['_'], .many []⟩ : CodeMsg) ∈
    extractFromCode Gen.I18n.gettextFunctions (.node [.call (.name ['_']) [] [], .call (.name ['l','e','n']) [.str ['x']] []]) := by
  decide

/-- the exact answer: the calls of the gettext functions in source order (a call before the
    calls inside it), one report per call. -/
theorem code_reported_exactly (gf : List Str) (e : PyExpr) :
    extractFromCode gf e = (gettextCalls gf e).map callReport :=
  Genshi.I18n.extractFromCode_eq_gettextCalls gf e

example : (gettextCalls Gen.I18n.gettextFunctions nestedExample).map Prod.fst =
    [['n','g','e','t','t','e','x','t'], ['_']] := by decide

/-- fix fbd47f1 documented: before it (`elif node._fields:`) the walk stopped at a gettext call
    and `_('Unknown')` in `ngettext('one', 'many', len(_('Unknown')))` was not reported. -/
theorem nested_call_was_missed :
    (⟨['_'], .one (some ['U','n','k','n','o','w','n'])⟩ : CodeMsg) ∉
        extractFromCodeOld Gen.I18n.gettextFunctions nestedExample ∧
    SubExpr (.call (.name ['_']) [.str ['U','n','k','n','o','w','n']] []) nestedExample ∧
    extractFromCode Gen.I18n.gettextFunctions nestedExample =
      [⟨['n','g','e','t','t','e','x','t'], .many [some ['o','n','e'], some ['m','a','n','y'], none]⟩,
       ⟨['_'], .one (some ['U','n','k','n','o','w','n'])⟩] :=
  Genshi.I18n.nested_call_was_missed

/-! ### composition: the call sites of template code (wave 4)

`PStream` (`Model/I18nPyStream.lean`) is the template stream with the syntax tree (`PyExpr`) in the
place of every piece of code — EXPR / EXEC events, expressions inside interpolated attribute
values; `extractP cfg gf s` is `Translator(cfg…).extract(stream, gettext_functions=gf)`: where
`Translator.extract` meets code it calls `extract_from_code(code, gettext_functions)` (`lowerList`).
Tie: correspondence stream `extractp` (the harness sends the trees genshi built, `code.ast`, and
the `gettext_functions` argument; nothing the real `extract_from_code` computed reaches the model). -/

/-- **every gettext call site of the template code is extracted**, for every configuration and every
    `gettext_functions` argument `gf`: extraction returns, and for every piece of code `e` of the
    template (`codeExprs`: EXPR / EXEC events at any depth of directive nesting, interpolated
    attribute values of all elements — excluded ones included —, expressions and attributes inside
    the content of a plain `i18n:msg`) and every call `f(args…, kw=…)` of a plain name `f ∈ gf`
    occurring ANYWHERE in `e` (nested in the arguments of another gettext call, in a keyword value, in
    any other syntax), the message `(f, strings, [])` is extracted, where `strings` has one entry per
    POSITIONAL argument (the text of a string / utf-8 bytes literal, `None` for a non-literal; a single
    entry bare, otherwise a tuple: `argVal`); keyword arguments contribute no entry. -/
theorem code_call_sites_extracted (cfg : Cfg) (gf : List Str) (s : PStream)
    (h : okMsgList (lowerList gf s) = true) :
    ∃ ms, extractP cfg gf s = .ok ms ∧
      ∀ e ∈ codeExprs s, ∀ (f : Str) (args kws : List PyExpr),
        SubExpr (.call (.name f) args kws) e → f ∈ gf → (⟨some f, argVal args, []⟩ : Message) ∈ ms :=
  Genshi.I18n.code_call_sites_extracted cfg gf s h

/-- what the code contributes to the extracted messages is exactly the report of its call sites, in
    source order: `codeList` of the stream `Translator.extract` works on = the gettext calls
    (`gettextCalls`: calls of a plain name in `gf`, pre-order, at any depth) of every piece of code -/
theorem code_list_is_call_sites (cfg : Cfg) (gf : List Str) (s : PStream) :
    codeList cfg (lowerList gf s) = (codeExprs s).flatMap fun e => (gettextCalls gf e).map callReport :=
  Genshi.I18n.codeList_lower_calls cfg gf s

/-- `<p i18n:msg="n">Hi ${ngettext('a', 'b', len(_('U')))}</p><script type="${tr(x, k=_('A'))}">${_(s1)}</script>`
    with `gettext_functions = ('_', 'ngettext')`: the stream is one the theorem speaks about; the
    pieces of code are the three expressions; the nested `_('U')`, the `_('A')` in a keyword value
    and the non-literal `_(s1)` are call sites, reported as `'U'`, `'A'` and `None` -/
example :
    let gf : List Str := [['_'], ['n','g','e','t','t','e','x','t']]
    let e1 : PyExpr := .call (.name ['n','g','e','t','t','e','x','t'])
        [.str ['a'], .str ['b'], .call (.name ['l','e','n']) [.call (.name ['_']) [.str ['U']] []] []] []
    let e2 : PyExpr := .call (.name ['t','r']) [.name ['x']] [.call (.name ['_']) [.str ['A']] []]
    let e3 : PyExpr := .call (.name ['_']) [.name ['s','1']] []
    let s : PStream :=
      [.sub [.msg [['n']]] [.start ⟨[], ['p']⟩ [], .text ['H','i',' '], .expr 0 e1, .end_ ⟨[], ['p']⟩],
       .start ⟨[], ['s','c','r','i','p','t']⟩ [(⟨[], ['t','y','p','e']⟩, .parts [.expr e2])],
       .expr 1 e3, .end_ ⟨[], ['s','c','r','i','p','t']⟩]
    okMsgList (lowerList gf s) = true ∧ codeExprs s = [e1, e2, e3] ∧
    extractP Cfg.default gf s = .ok
      [⟨some ['n','g','e','t','t','e','x','t'], .many [some ['a'], some ['b'], none], []⟩,
       ⟨some ['_'], .one (some ['U']), []⟩,
       ⟨none, .one (some ['H','i',' ','%','(','n',')','s']), []⟩,
       ⟨some ['_'], .one (some ['A']), []⟩,
       ⟨some ['_'], .one none, []⟩] := by
  refine ⟨by decide +kernel, rfl, by decide +kernel⟩

/-- **lookups_subset_extract, message directives.**  For `<t i18n:msg="ps">content</t>` whose
    content holds no nested directive — any events otherwise, any catalogue, context and skip
    depth: the message id `MsgDirective.__call__` looks up for the stream the translation pass
    hands on is among the ids `MsgDirective.extract` reports for the template's own stream
    (the pass runs with `translate_text=False` there and only touches attributes; both
    directives then fill the same buffer). -/
theorem msg_lookup_extracted (cfg : Cfg) (cat : Catalog) (ctx : Ctx) (ta : Bool) (skip : Nat)
    (ps : List Str) (st : Bool) (cs xs : List Str) (t t' : QName) (a : TAttrs) (mid : List TEvent)
    (hmid : noSubList mid = true) (id : Str)
    (h : msgId ps (trList cfg cat ctx false ta skip (.start t a :: (mid ++ [.end_ t']))) = .ok (some id)) :
    ∃ ms, msgExtract cfg ps st cs xs (.start t a :: (mid ++ [.end_ t'])) = .ok ms ∧ id ∈ idsOf ms :=
  Genshi.I18n.msg_lookup_extracted cfg cat ctx ta skip ps st cs xs t t' a mid hmid id h

example : msgId [] (trList Cfg.default ⟨fun _ _ s => s ++ ['!']⟩ [] false true 0
      [.start ⟨[], ['p']⟩ [(⟨[], ['t','i','t','l','e']⟩, .str ['T'])], .text ['H','i',' '],
       .start ⟨[], ['b']⟩ [], .text ['x'], .end_ ⟨[], ['b']⟩, .end_ ⟨[], ['p']⟩]) =
    .ok (some ['H','i',' ','[','1',':','x',']']) := by decide +kernel

/-- the same for the element form `<i18n:msg params="ps">first … last</i18n:msg>` whose content
    neither starts with a START nor ends with an END event (else: finding
    C19-msg-element-first-child) and holds no nested directive. -/
theorem msg_lookup_extracted_elem (cfg : Cfg) (cat : Catalog) (ctx : Ctx) (ta : Bool) (skip : Nat)
    (ps : List Str) (st : Bool) (cs xs : List Str) (first last : TEvent) (mid : List TEvent)
    (hf : first.isStart = false) (hl : last.isEnd = false)
    (hns : noSubList (first :: (mid ++ [last])) = true) (id : Str)
    (h : msgId ps (trList cfg cat ctx false ta skip (first :: (mid ++ [last]))) = .ok (some id)) :
    ∃ ms, msgExtract cfg ps st cs xs (first :: (mid ++ [last])) = .ok ms ∧ id ∈ idsOf ms :=
  Genshi.I18n.msg_lookup_extracted_elem cfg cat ctx ta skip ps st cs xs first last mid hf hl hns id h

example : msgId [['n']] (trList Cfg.default ⟨fun _ _ s => s ++ ['!']⟩ [] false true 0
      [.text ['H','i',' '], .start ⟨[], ['b']⟩ [(⟨[], ['t','i','t','l','e']⟩, .str ['T'])], .text ['x'], .end_ ⟨[], ['b']⟩,
       .text [' '], .expr 0 []]) =
    .ok (some ['H','i',' ','[','1',':','x',']',' ','%','(','n',')','s']) := by decide +kernel

/-- **lookups_subset_extract, plural choice.**  For
    `<t i18n:choose="n; ps"> pre <ts i18n:singular="">cS</ts> mid <tp i18n:plural="">cP</tp> post </t>`
    whose `pre`, `mid`, `post` are white space, comments or code blocks (other text there:
    finding C19-choose-outer-text, `choose_outer_text_not_looked_up`) and **arbitrary** branch
    contents (nested elements, expressions, directive-carrying elements): whenever
    `ChooseDirective.extract` returns messages `ms`, they hold two ids `idS`, `idP` such that
    `ChooseDirective.__call__` consults the catalogue at `ngettext(idS, idP, numeral)` and
    nowhere else — two catalogues that agree there give the same output (when the singular form
    is selected the plural branch is not even read and the empty string stands for `idP`).
    `extract` files outer events and branch content into one buffer per form, `__call__` gives
    each branch a fresh buffer; the strings differ by white space `format()` strips.  (The
    fragment look-ups the translation pass makes inside the branches are finding C19-fragments.) -/
theorem choose_lookup_extracted (cfg : Cfg) (params : List Str) (st : Bool) (cs xs : List Str) (pl : Bool)
    (t t' ts tp : QName) (a as ap : TAttrs) (pre mid post cS cP : List TEvent)
    (hpre : ∀ e ∈ pre, outerEv e = true) (hmid : ∀ e ∈ mid, outerEv e = true) (hpost : ∀ e ∈ post, outerEv e = true)
    (ms : List Message)
    (hex : chooseExtract cfg params st cs xs
      (.start t a :: ((pre ++ .sub [.singular] (.start ts as :: (cS ++ [.end_ ts])) ::
        (mid ++ .sub [.plural] (.start tp ap :: (cP ++ [.end_ tp])) :: post)) ++ [.end_ t'])) = .ok ms) :
    ∃ idS idP, idS ∈ idsOf ms ∧ idP ∈ idsOf ms ∧
      ∀ (ngt ngt' : Str → Str → Str),
        ngt idS (if pl then idP else []) = ngt' idS (if pl then idP else []) →
        chooseCall params pl ngt
          (.start t a :: ((pre ++ .sub [.singular] (.start ts as :: (cS ++ [.end_ ts])) ::
            (mid ++ .sub [.plural] (.start tp ap :: (cP ++ [.end_ tp])) :: post)) ++ [.end_ t'])) =
        chooseCall params pl ngt'
          (.start t a :: ((pre ++ .sub [.singular] (.start ts as :: (cS ++ [.end_ ts])) ::
            (mid ++ .sub [.plural] (.start tp ap :: (cP ++ [.end_ tp])) :: post)) ++ [.end_ t'])) :=
  chooseCall_lookup_extracted cfg params st cs xs pl t t' ts tp a as ap pre mid post cS cP hpre hmid hpost ms hex

/-- … and extraction does return: `ChooseDirective.extract` succeeds on such an element whenever
    the buffer of each branch content can be built on its own (as many parameters as
    expressions …) and leaves the buffer's stack non-empty, which balanced content does.  With
    `choose_lookup_extracted`: the pair of ids the directive looks up is extracted. -/
theorem choose_extract_succeeds (cfg : Cfg) (params : List Str) (st : Bool) (cs xs : List Str)
    (t t' ts tp : QName) (a as ap : TAttrs) (pre mid post cS cP : List TEvent)
    (hpre : ∀ e ∈ pre, outerEv e = true) (hmid : ∀ e ∈ mid, outerEv e = true) (hpost : ∀ e ∈ post, outerEv e = true)
    (C D : MB) (hC : mbAppendList (MB.new params) cS = .ok C) (hD : mbAppendList (MB.new params) cP = .ok D)
    (hCs : C.stack ≠ []) (hDs : D.stack ≠ []) :
    ∃ ms, chooseExtract cfg params st cs xs
      (.start t a :: ((pre ++ .sub [.singular] (.start ts as :: (cS ++ [.end_ ts])) ::
        (mid ++ .sub [.plural] (.start tp ap :: (cP ++ [.end_ tp])) :: post)) ++ [.end_ t'])) = .ok ms :=
  chooseExtract_ok cfg params st cs xs t t' ts ts tp tp a as ap pre mid post cS cP hpre hmid hpost C D hC hD hCs hDs

example :
    (mbAppendList (MB.new [['n']]) [.text ['O','n','e',' '], .expr 0 [], .text [' '],
        .sub [.other ['i','f']] [.start ⟨[], ['b']⟩ [], .text ['c','o','i','n'], .end_ ⟨[], ['b']⟩]]).map (fun b => b.stack) =
      .ok [0] := by decide +kernel

/-- `<div i18n:choose="n; n"> <p i18n:singular="">One ${n} <b py:if="c">coin</b></p> <!-- c -->
    <p i18n:plural="">${n} coins</p> </div>`: extraction succeeds, with the two ids -/
example :
    chooseExtract Cfg.default [['n']] true [] []
      (.start ⟨[], ['d']⟩ [] :: (([.text [' ']] ++
        .sub [.singular] (.start ⟨[], ['p']⟩ [] :: ([.text ['O','n','e',' '], .expr 0 [], .text [' '],
            .sub [.other ['i','f']] [.start ⟨[], ['b']⟩ [], .text ['c','o','i','n'], .end_ ⟨[], ['b']⟩]] ++ [.end_ ⟨[], ['p']⟩])) ::
        ([.text [' '], .other ['c'], .text [' ']] ++
        .sub [.plural] (.start ⟨[], ['p']⟩ [] :: ([.expr 0 [], .text [' ','c','o','i','n','s']] ++ [.end_ ⟨[], ['p']⟩])) ::
        [.text [' ']])) ++ [.end_ ⟨[], ['d']⟩])) =
    .ok [⟨some ngettextName, .many [some ['O','n','e',' ','%','(','n',')','s',' ','[','1',':','c','o','i','n',']'],
                                     some ['%','(','n',')','s',' ','c','o','i','n','s']], []⟩] := by decide +kernel

/-- C19-choose-outer-text: with text outside the branches (`x` before the singular branch)
    the extracted singular id is `x One` while rendering asks the catalogue for `One`: the
    hypothesis on `pre` / `mid` / `post` of `choose_lookup_extracted` cannot be dropped. -/
theorem choose_outer_text_not_looked_up :
    chooseExtract Cfg.default [] true [] []
      [.start ⟨[], ['d']⟩ [], .text ['x',' '],
       .sub [.singular] [.start ⟨[], ['p']⟩ [], .text ['O','n','e'], .end_ ⟨[], ['p']⟩],
       .sub [.plural] [.start ⟨[], ['p']⟩ [], .text ['M','a','n','y'], .end_ ⟨[], ['p']⟩],
       .end_ ⟨[], ['d']⟩] =
      .ok [⟨some ngettextName, .many [some ['x',' ','O','n','e'], some ['x',' ','M','a','n','y']], []⟩] ∧
    chooseCall [] false (fun s _ => if s = ['O','n','e'] then ['U','n','o'] else s)
      [.start ⟨[], ['d']⟩ [], .text ['x',' '],
       .sub [.singular] [.start ⟨[], ['p']⟩ [], .text ['O','n','e'], .end_ ⟨[], ['p']⟩],
       .sub [.plural] [.start ⟨[], ['p']⟩ [], .text ['M','a','n','y'], .end_ ⟨[], ['p']⟩],
       .end_ ⟨[], ['d']⟩] =
      some (.ok [.start ⟨[], ['d']⟩ [], .text ['x',' '],
                 .start ⟨[], ['p']⟩ [], .text ['U','n','o'], .end_ ⟨[], ['p']⟩, .end_ ⟨[], ['d']⟩]) := by
  refine ⟨by decide +kernel, by decide +kernel⟩

/-! ## the message format: `parse_msg`, `MessageBuffer`, `MsgDirective` -/

/-- **parse_msg ∘ format**: parsing the linearisation `s0 [n₁:…] seg₁ …` of any translation
    tree whose text segments are plain (`plainSeg`: every bracket is escaped `\[` / `\]`, every
    backslash escapes a bracket, no `\[<digits>:` — in particular segments without bracket and
    backslash, `plainSeg_of_bare`) yields exactly its parts
    `(level, text)`, in order (empty parts are kept inside placeholders and dropped at the
    top level, as `parse_msg` does). -/
theorem parse_format (s0 : Str) (r : XRest) (h0 : plainSeg s0 = true) (h : r.plain = true) :
    parseMsg (s0 ++ r.fmt) = .ok (XRest.parts 0 s0 r) := parseMsg_fmt s0 r h0 h

example : parseMsg ['S','e','e',' ','[','1',':','H','e','l','p',']','.'] =
    .ok [(0, ['S','e','e',' ']), (1, ['H','e','l','p']), (0, ['.'])] := by decide +kernel

/-- **MessageBuffer.translate on any translation tree**, relative to the buffered groups:
    if every placeholder of the tree names an order whose groups are intact and "good"
    (one group per gap between child elements), all placeholder numbers are distinct and
    `yield_parts` accepts the segments, then the output is the tree with every placeholder
    replaced by the START/END events filed under its number. -/
theorem translate_tree (b : MB) (W : World) (Y : Str → List TEvent) (s0 : Str) (r : XRest)
    (hp0 : plainSeg s0 = true) (hp : r.plain = true)
    (hgood : r.good W b.events) (hnd : r.nums.Nodup)
    (hseg : ∀ s ∈ s0 :: r.segs, yieldParts b.values s = .ok (Y s))
    (htop : (∀ s ∈ s0 :: r.topSegs, s = []) ∨ Textual0 b.events) :
    b.translate (s0 ++ r.fmt) = .ok (Y s0 ++ r.render W Y) :=
  Genshi.I18n.translate_tree b W Y s0 r hp0 hp hgood hnd hseg htop

/-- **MessageBuffer.translate on any translation tree, directive-carrying elements included.**
    As `translate_tree`, with elements of two kinds: a plain element comes out as its START
    event, the translated content, its END event; an element that carries directives (a SUB
    event in the template, filed by `append` as SUB_START … SUB_END with its directives under
    its number) comes out as **one SUB event** holding its directives and, as sub-stream, its
    START event, the translated content and its END event.  Such an element must not lie
    inside another one (finding C19-nested-directives). -/
theorem translate_tree_sub (b : MB) (W : WorldK) (Y : Str → List TEvent) (s0 : Str) (r : XRest)
    (hp0 : plainSeg s0 = true) (hp : r.plain = true)
    (hgood : r.goodK W (assocGet b.subdirs) b.events false) (hnd : r.nums.Nodup)
    (hseg : ∀ s ∈ s0 :: r.segs, yieldParts b.values s = .ok (Y s))
    (htop : (∀ s ∈ s0 :: r.topSegs, s = []) ∨ Textual0 b.events) :
    b.translate (s0 ++ r.fmt) = .ok (Y s0 ++ r.renderK W Y) :=
  Genshi.I18n.translate_treeK b W Y s0 r hp0 hp hgood hnd hseg htop

theorem length_filterMap_isSome {α β} (f : α → Option β) : ∀ (l : List α), (∀ x ∈ l, (f x).isSome = true) →
    (l.filterMap f).length = l.length
  | [], _ => rfl
  | x :: xs, h => by
      have hx := h x (by simp)
      cases hf : f x with
      | none => simp [hf] at hx
      | some y =>
        simp only [List.filterMap_cons, hf, List.length_cons]
        rw [length_filterMap_isSome f xs (fun z hz => h z (by simp [hz]))]

/-- **placeholders_once_each.**  Let `F` be the content of a message (text, expressions
    bound to the directive's parameters, elements — plain ones and elements carrying
    directives, i.e. SUB events; no two child elements adjacent inside an element: finding
    C19-adjacent).  For **every** translation the catalogue may return whose placeholders are
    distinct, name elements of `F`, keep each element's number of child placeholders and do not
    move a directive-carrying element into another one (this covers the identity, every
    permutation of sibling placeholders at any level, every rewording of the text, dropping
    text parts and dropping whole top-level placeholders), `MessageBuffer.translate` returns
    the translation with each placeholder `[n:…]` replaced by the original element `n` (a
    directive-carrying one as a SUB event with its directives): the START events of the output
    — also those inside SUB events — are the original tags and attributes of the placeholders,
    each exactly once, in the order of the translation. -/
theorem placeholders_once_each (F : List MNode) (extra : List Str) (Y : Str → List TEvent) (s0 : Str) (r : XRest)
    (hna : deepNoAdjM F = true) (hc : XRest.compat (infoM 1 F) false r) (hnd : r.nums.Nodup)
    (hp0 : plainSeg s0 = true) (hp : r.plain = true)
    (hseg : ∀ s ∈ s0 :: r.segs, yieldParts (valsM F).reverse s = .ok (Y s))
    (htop : (∀ s ∈ s0 :: r.topSegs, s = []) ∨ hasTopText F = true) :
    ∃ b out, mbAppendList (MB.new (namesM F ++ extra)) (flattenM F) = .ok b ∧
      b.translate (s0 ++ r.fmt) = .ok out ∧
      out = Y s0 ++ r.renderK (worldOf F) Y ∧
      startsOf out = r.nums.filterMap (tagOf (worldOf F)) ∧
      (r.nums.filterMap (tagOf (worldOf F))).length = r.nums.length := by
  obtain ⟨b, hrun, _, htr⟩ := translate_message F extra Y s0 r hna hc hnd hp0 hp hseg htop
  have hsome := XRest.compat_isSome F r false hc
  have hsome' : ∀ n ∈ r.nums, (tagOf (worldOf F) n).isSome = true := fun n hn => by
    have := hsome n hn
    simpa [tagOf] using this
  have hvals : ∀ p ∈ (valsM F).reverse, startsOf [p.2] = [] := fun p hp' => valsM_noStart F p (by simpa using hp')
  refine ⟨b, _, hrun, htr, rfl, ?_, length_filterMap_isSome _ _ hsome'⟩
  rw [startsOf_append, yieldParts_noStart _ hvals s0 (Y s0) (hseg s0 (by simp))]
  exact XRest.render_starts (worldOf F) Y r
    (fun s hs => yieldParts_noStart _ hvals s (Y s) (hseg s (by simp [hs]))) hsome

/-- `a<b>x</b>c<i>d</i>` translated as `[2:d]a[1:x]c`: the two elements change places. -/
example :
    (do let b ← mbAppendList (MB.new [])
          [.text ['a'], .start ⟨[], ['b']⟩ [], .text ['x'], .end_ ⟨[], ['b']⟩, .text ['c'],
           .start ⟨[], ['i']⟩ [], .text ['d'], .end_ ⟨[], ['i']⟩]
        b.translate ['[','2',':','d',']','a','[','1',':','x',']','c']) =
    .ok [.start ⟨[], ['i']⟩ [], .text ['d'], .end_ ⟨[], ['i']⟩, .text ['a'],
         .start ⟨[], ['b']⟩ [], .text ['x'], .end_ ⟨[], ['b']⟩, .text ['c']] := by decide +kernel

/-- the hypotheses of `placeholders_once_each` are satisfiable by that example -/
example :
    deepNoAdjM [.text ['a'], .elem none ⟨[], ['b']⟩ [] [.text ['x']], .text ['c'], .elem none ⟨[], ['i']⟩ [] [.text ['d']]] = true ∧
    XRest.compat
      (infoM 1 [.text ['a'], .elem none ⟨[], ['b']⟩ [] [.text ['x']], .text ['c'], .elem none ⟨[], ['i']⟩ [] [.text ['d']]]) false
      (XRest.cons (.ph 2 ['d'] .nil) ['a'] (.cons (.ph 1 ['x'] .nil) ['c'] .nil)) ∧
    (XRest.cons (.ph 2 ['d'] .nil) ['a'] (.cons (.ph 1 ['x'] .nil) ['c'] .nil)).nums.Nodup ∧
    (XRest.cons (.ph 2 ['d'] .nil) ['a'] (.cons (.ph 1 ['x'] .nil) ['c'] .nil)).plain = true := by
  refine ⟨by decide +kernel,
    ⟨⟨⟨⟨[], ['i']⟩, [], none, by decide +kernel⟩, by decide +kernel, trivial⟩,
     ⟨⟨⟨[], ['b']⟩, [], none, by decide +kernel⟩, by decide +kernel, trivial⟩, trivial⟩,
    by decide +kernel, by decide +kernel⟩

/-- `a<b py:if="c">x</b>c<i>d</i>` (the `<b>` carries a directive: a SUB event) translated as
    `[2:d]a[1:y]c`: the elements change places, the SUB event keeps its directive and gets the
    translated content. -/
example :
    (do let b ← mbAppendList (MB.new [])
          [.text ['a'], .sub [.other ['i','f']] [.start ⟨[], ['b']⟩ [], .text ['x'], .end_ ⟨[], ['b']⟩], .text ['c'],
           .start ⟨[], ['i']⟩ [], .text ['d'], .end_ ⟨[], ['i']⟩]
        b.translate ['[','2',':','d',']','a','[','1',':','y',']','c']) =
    .ok [.start ⟨[], ['i']⟩ [], .text ['d'], .end_ ⟨[], ['i']⟩, .text ['a'],
         .sub [.other ['i','f']] [.start ⟨[], ['b']⟩ [], .text ['y'], .end_ ⟨[], ['b']⟩], .text ['c']] := by decide +kernel

/-- … and the hypotheses of `placeholders_once_each` hold for it -/
example :
    deepNoAdjM [.text ['a'], .elem (some [.other ['i','f']]) ⟨[], ['b']⟩ [] [.text ['x']], .text ['c'], .elem none ⟨[], ['i']⟩ [] [.text ['d']]] = true ∧
    flattenM [.text ['a'], .elem (some [.other ['i','f']]) ⟨[], ['b']⟩ [] [.text ['x']], .text ['c'], .elem none ⟨[], ['i']⟩ [] [.text ['d']]] =
      [.text ['a'], .sub [.other ['i','f']] [.start ⟨[], ['b']⟩ [], .text ['x'], .end_ ⟨[], ['b']⟩], .text ['c'],
       .start ⟨[], ['i']⟩ [], .text ['d'], .end_ ⟨[], ['i']⟩] ∧
    XRest.compat
      (infoM 1 [.text ['a'], .elem (some [.other ['i','f']]) ⟨[], ['b']⟩ [] [.text ['x']], .text ['c'], .elem none ⟨[], ['i']⟩ [] [.text ['d']]]) false
      (XRest.cons (.ph 2 ['d'] .nil) ['a'] (.cons (.ph 1 ['y'] .nil) ['c'] .nil)) := by
  refine ⟨by decide +kernel, by decide +kernel,
    ⟨⟨⟨[], ['i']⟩, [], none, by decide +kernel⟩, by decide +kernel, trivial⟩,
     ⟨⟨⟨[], ['b']⟩, [], some [.other ['i','f']], by decide +kernel⟩, by decide +kernel, trivial⟩, trivial⟩

/-- **translate_format_id.**  For every message content `F` with clean text (no bracket,
    backslash or percent sign: findings C19-backslash, C19-placeholder-text, C19-percent),
    word-like distinct parameter names, no two adjacent child elements inside an element
    (finding C19-adjacent) and no directive-carrying element inside another one (finding
    C19-nested-directives): the buffer of `F`, asked to translate its own `format()`,
    reproduces the events of `F` without the white space at the two edges of the message,
    adjacent text merged. -/
theorem translate_format_id (F : List MNode) (extra : List Str)
    (hc : cleanM F = true) (hna : deepNoAdjM F = true) (hnd : (namesM F).Nodup) (hso : subsOKM false F = true) :
    ∃ b, mbAppendList (MB.new (namesM F ++ extra)) (flattenM F) = .ok b ∧
      b.translate b.format = .ok (coalesce (flattenM (trimF F))) :=
  translate_format_self F extra hc hna hnd hso

/-- **translate_format_id, brackets in the text.**  `MessageBuffer.append` escapes the brackets
    of the text (`see [here]` is filed as `see \[here\]`), `parse_msg` leaves escaped brackets
    alone and `yield_parts` removes the backslashes again: the identity holds for text with
    brackets as well (`cleanB`: no backslash, no percent sign) **provided the message string
    holds no `\[<digits>:`** (`segsOK`, a condition on the segments of the whole `format()`
    string: `parse_msg` takes `\[12:` for a placeholder in spite of the backslash — finding
    C19-placeholder-text — and the digits and the colon may come from different text events,
    witness `placeholder_text_straddles`). -/
theorem translate_format_id_brackets (F : List MNode) (extra : List Str)
    (hc : cleanB F = true) (hsg : segsOK (trimF F) = true)
    (hna : deepNoAdjM F = true) (hnd : (namesM F).Nodup) (hso : subsOKM false F = true) :
    ∃ b, mbAppendList (MB.new (namesM F ++ extra)) (flattenM F) = .ok b ∧
      b.translate b.format = .ok (coalesce (flattenM (trimF F))) :=
  translate_format_selfB F extra hc hsg hna hnd hso

/-- … and `MsgDirective.__call__` under the identity catalogue, attribute and element form -/
theorem msg_identity_brackets (t : QName) (a : TAttrs) (F : List MNode) (extra : List Str)
    (hc : cleanB F = true) (hsg : segsOK (trimF F) = true)
    (hna : deepNoAdjM F = true) (hnd : (namesM F).Nodup) (hso : subsOKM false F = true) :
    msgGenerate (namesM F ++ extra) (fun s => s) (.start t a :: (flattenM F ++ [.end_ t])) =
      .ok (.start t a :: (coalesce (flattenM (trimF F)) ++ [.end_ t])) :=
  msgGenerate_identity_attrB t a F extra hc hsg hna hnd hso

theorem msg_identity_elem_brackets (n : MNode) (mid : List MNode) (l : MNode) (extra : List Str)
    (hn : n.isElem = false) (hl : l.isElem = false)
    (hc : cleanB (n :: (mid ++ [l])) = true) (hsg : segsOK (trimF (n :: (mid ++ [l]))) = true)
    (hna : deepNoAdjM (n :: (mid ++ [l])) = true)
    (hnd : (namesM (n :: (mid ++ [l]))).Nodup) (hso : subsOKM false (n :: (mid ++ [l])) = true) :
    msgGenerate (namesM (n :: (mid ++ [l])) ++ extra) (fun s => s) (flattenM (n :: (mid ++ [l]))) =
      .ok (coalesce (flattenM (trimF (n :: (mid ++ [l]))))) :=
  msgGenerate_identity_elemB n mid l extra hn hl hc hsg hna hnd hso

/-- the bracket-free hypothesis of `translate_format_id` is a special case -/
theorem brackets_of_clean (F : List MNode) (h : cleanM F = true) : cleanB F = true ∧ segsOK (trimF F) = true :=
  ⟨cleanB_of_cleanM F h, segsOK_of_cleanM _ (cleanM_trimF F h)⟩

/-- `<p i18n:msg="n"> see [here] and <b>a[${n}]</b> [12 </p>`: the hypotheses hold (the message
    string is `see \[here\] and [1:a\[%(n)s\]] \[12`) and the model returns the content -/
example :
    cleanB [.text [' ','s','e','e',' ','[','h','e','r','e',']',' ','a','n','d',' '],
            .elem none ⟨[], ['b']⟩ [] [.text ['a','['], .expr ['n'] 0 [], .text [']']], .text [' ','[','1','2',' ']] = true ∧
    segsOK (trimF [.text [' ','s','e','e',' ','[','h','e','r','e',']',' ','a','n','d',' '],
            .elem none ⟨[], ['b']⟩ [] [.text ['a','['], .expr ['n'] 0 [], .text [']']], .text [' ','[','1','2',' ']]) = true ∧
    msgGenerate [['n']] (fun s => s)
      [.start ⟨[], ['p']⟩ [], .text [' ','s','e','e',' ','[','h','e','r','e',']',' ','a','n','d',' '],
       .start ⟨[], ['b']⟩ [], .text ['a','['], .expr 0 [], .text [']'], .end_ ⟨[], ['b']⟩, .text [' ','[','1','2',' '],
       .end_ ⟨[], ['p']⟩] =
    .ok [.start ⟨[], ['p']⟩ [], .text ['s','e','e',' ','[','h','e','r','e',']',' ','a','n','d',' '],
       .start ⟨[], ['b']⟩ [], .text ['a','['], .expr 0 [], .text [']'], .end_ ⟨[], ['b']⟩, .text [' ','[','1','2'],
       .end_ ⟨[], ['p']⟩] := by
  refine ⟨by decide +kernel, by decide +kernel, by decide +kernel⟩

/-- C19-placeholder-text, straddling two text events: `a [12` and `:x] b` are harmless on their
    own (`segsOK` holds for each), together the message string holds `\[12:` — `segsOK` fails and
    rendering raises KeyError: the condition has to look at the whole `format()` string. -/
theorem placeholder_text_straddles :
    segsOK (trimF [.text ['a',' ','[','1','2']]) = true ∧ segsOK (trimF [.text [':','x',']',' ','b']]) = true ∧
    segsOK (trimF [.text ['a',' ','[','1','2'], .text [':','x',']',' ','b']]) = false ∧
    msgGenerate [] (fun s => s)
      [.start ⟨[], ['p']⟩ [], .text ['a',' ','[','1','2'], .text [':','x',']',' ','b'], .end_ ⟨[], ['p']⟩] =
    .error .keyError := by
  refine ⟨by decide +kernel, by decide +kernel, by decide +kernel, by decide +kernel⟩

/-- **identity_transparent, message directive in attribute form** (`<p i18n:msg="…">`):
    under the identity catalogue `MsgDirective.__call__` returns its element with the content
    unchanged up to the white space at the edges of the message (and the chunking of text). -/
theorem msg_identity_attr (t : QName) (a : TAttrs) (F : List MNode) (extra : List Str)
    (hc : cleanM F = true) (hna : deepNoAdjM F = true) (hnd : (namesM F).Nodup) (hso : subsOKM false F = true) :
    msgGenerate (namesM F ++ extra) (fun s => s) (.start t a :: (flattenM F ++ [.end_ t])) =
      .ok (.start t a :: (coalesce (flattenM (trimF F)) ++ [.end_ t])) :=
  msgGenerate_identity_attr t a F extra hc hna hnd hso

/-- **identity_transparent, message directive in element form** (`<i18n:msg params="…">`),
    the content neither starting nor ending with an element (finding C19-msg-element-first-child). -/
theorem msg_identity_elem (n : MNode) (mid : List MNode) (l : MNode) (extra : List Str)
    (hn : n.isElem = false) (hl : l.isElem = false)
    (hc : cleanM (n :: (mid ++ [l])) = true) (hna : deepNoAdjM (n :: (mid ++ [l])) = true)
    (hnd : (namesM (n :: (mid ++ [l]))).Nodup) (hso : subsOKM false (n :: (mid ++ [l])) = true) :
    msgGenerate (namesM (n :: (mid ++ [l])) ++ extra) (fun s => s) (flattenM (n :: (mid ++ [l]))) =
      .ok (coalesce (flattenM (trimF (n :: (mid ++ [l]))))) :=
  msgGenerate_identity_elem n mid l extra hn hl hc hna hnd hso

/-- `<p i18n:msg="n"> Hi, <b>${n}</b>! </p>`: the hypotheses hold, the edges are trimmed -/
example :
    cleanM [.text [' ','H','i',',',' '], .elem none ⟨[], ['b']⟩ [] [.expr ['n'] 0 []], .text ['!',' ']] = true ∧
    deepNoAdjM [.text [' ','H','i',',',' '], .elem none ⟨[], ['b']⟩ [] [.expr ['n'] 0 []], .text ['!',' ']] = true ∧
    (namesM [.text [' ','H','i',',',' '], .elem none ⟨[], ['b']⟩ [] [.expr ['n'] 0 []], .text ['!',' ']]).Nodup ∧
    coalesce (flattenM (trimF [.text [' ','H','i',',',' '], .elem none ⟨[], ['b']⟩ [] [.expr ['n'] 0 []], .text ['!',' ']])) =
      [.text ['H','i',',',' '], .start ⟨[], ['b']⟩ [], .expr 0 [], .end_ ⟨[], ['b']⟩, .text ['!']] := by
  refine ⟨by decide +kernel, by decide +kernel, by decide +kernel, by decide +kernel⟩

/-- `<p i18n:msg="n"> Hi, <b py:if="c">${n}</b>! </p>` — the `<b>` carries a directive — the
    hypotheses hold and the directive call, run by the model, returns the SUB event intact -/
example :
    cleanM [.text [' ','H','i',',',' '], .elem (some [.other ['i','f']]) ⟨[], ['b']⟩ [] [.expr ['n'] 0 []], .text ['!',' ']] = true ∧
    deepNoAdjM [.text [' ','H','i',',',' '], .elem (some [.other ['i','f']]) ⟨[], ['b']⟩ [] [.expr ['n'] 0 []], .text ['!',' ']] = true ∧
    subsOKM false [.text [' ','H','i',',',' '], .elem (some [.other ['i','f']]) ⟨[], ['b']⟩ [] [.expr ['n'] 0 []], .text ['!',' ']] = true ∧
    msgGenerate [['n']] (fun s => s)
      [.start ⟨[], ['p']⟩ [], .text [' ','H','i',',',' '],
       .sub [.other ['i','f']] [.start ⟨[], ['b']⟩ [], .expr 0 [], .end_ ⟨[], ['b']⟩], .text ['!',' '], .end_ ⟨[], ['p']⟩] =
      .ok [.start ⟨[], ['p']⟩ [], .text ['H','i',',',' '],
       .sub [.other ['i','f']] [.start ⟨[], ['b']⟩ [], .expr 0 [], .end_ ⟨[], ['b']⟩], .text ['!'], .end_ ⟨[], ['p']⟩] := by
  refine ⟨by decide +kernel, by decide +kernel, by decide +kernel, by decide +kernel⟩

/-- C19-nested-directives: a directive-carrying element inside another one — `subsOKM` fails
    and `MessageBuffer.translate` raises TypeError (`None + list`), so the hypothesis of
    `translate_format_id` / `msg_identity_*` cannot be dropped. -/
theorem nested_directives_raise :
    subsOKM false [.elem (some [.other ['i','f']]) ⟨[], ['b']⟩ []
        [.text ['x'], .elem (some [.other ['i','f']]) ⟨[], ['i']⟩ [] [.text ['y']], .text ['z']]] = false ∧
    msgGenerate [] (fun s => s)
      (.start ⟨[], ['p']⟩ [] :: (flattenM [.elem (some [.other ['i','f']]) ⟨[], ['b']⟩ []
        [.text ['x'], .elem (some [.other ['i','f']]) ⟨[], ['i']⟩ [] [.text ['y']], .text ['z']]] ++ [.end_ ⟨[], ['p']⟩])) =
      .error .typeError := by
  refine ⟨by decide +kernel, by decide +kernel⟩

/-- **identity_transparent, pass and directive together.**  For `<t i18n:msg="…">F</t>`
    (attribute values of the element and inside the message free of edge white space —
    finding C19-attr-space — `F` as in `translate_format_id` and without directive-carrying
    elements, `plainM`): the translation pass under
    the identity catalogue followed by `MsgDirective.__call__` under the identity catalogue
    returns the element with its content unchanged up to the white space at the edges of the
    message and the chunking of text — for every configuration, context and flag. -/
theorem identity_transparent_msg (cfg : Cfg) (ctx : Ctx) (ta : Bool) (t : QName) (a : TAttrs) (F : List MNode)
    (extra : List Str) (hc : cleanM F = true) (hna : deepNoAdjM F = true) (hnd : (namesM F).Nodup)
    (hpl : plainM F = true)
    (hattr : cleanList cfg (.start t a :: (flattenM F ++ [.end_ t])) = true) :
    msgGenerate (namesM F ++ extra) (fun s => s)
        (trList cfg Catalog.id ctx false ta 0 (.start t a :: (flattenM F ++ [.end_ t]))) =
      .ok (.start t a :: (coalesce (flattenM (trimF F)) ++ [.end_ t])) :=
  pass_then_msg_identity cfg ctx ta t a F extra hc hna hnd hpl hattr

/-- **identity_transparent, pass and directive together, directive-carrying elements.**  As
    `identity_transparent_msg`, for content `F` that may hold elements carrying directives
    (`<b py:if="…">`: SUB events), none inside another one, none with an `i18n:domain` /
    `i18n:ctxt` directive (`stableList`: the pass then leaves the directive lists in place).
    The fragment look-ups the pass makes inside such elements (finding C19-fragments) are
    answered by the identity catalogue and change nothing. -/
theorem identity_transparent_msg_sub (cfg : Cfg) (ctx : Ctx) (ta : Bool) (t : QName) (a : TAttrs) (F : List MNode)
    (extra : List Str) (hc : cleanM F = true) (hna : deepNoAdjM F = true) (hnd : (namesM F).Nodup)
    (hso : subsOKM false F = true) (hst : stableList (flattenM F) = true)
    (hattr : cleanList cfg (.start t a :: (flattenM F ++ [.end_ t])) = true) :
    msgGenerate (namesM F ++ extra) (fun s => s)
        (trList cfg Catalog.id ctx false ta 0 (.start t a :: (flattenM F ++ [.end_ t]))) =
      .ok (.start t a :: (coalesce (flattenM (trimF F)) ++ [.end_ t])) :=
  pass_then_msg_identity_sub cfg ctx ta t a F extra hc hna hnd hso hst hattr

example :
    stableList (flattenM [.text [' ','H','i',',',' '], .elem (some [.other ['i','f']]) ⟨[], ['b']⟩ [] [.expr ['n'] 0 []], .text ['!',' ']]) = true ∧
    cleanList Cfg.default (.start ⟨[], ['p']⟩ [] ::
      (flattenM [.text [' ','H','i',',',' '], .elem (some [.other ['i','f']]) ⟨[], ['b']⟩ [] [.expr ['n'] 0 []], .text ['!',' ']] ++
        [.end_ ⟨[], ['p']⟩])) = true := by
  refine ⟨by decide +kernel, by decide +kernel⟩

/-- **identity_transparent, pass and directive together, `i18n:domain` / `i18n:ctxt` on
    directive-carrying elements.**  As `identity_transparent_msg_sub` without the restriction
    on the directives: an element inside the message may carry `i18n:domain`, `i18n:ctxt` next to
    its other directives.  The pass moves those to the front of the directive list of the SUB
    event (`reordM` applies `reorder` to every list — a permutation: `reorder_is_permutation`)
    and changes nothing else; every hypothesis of `msg_identity_attr` is blind to that order, so
    the directive returns the content with the re-ordered lists, unchanged up to the white space
    at the edges of the message and the chunking of text.  Stated for messages without excluded
    elements (`noExclList`: inside `ignore_tags` / literal `xml:lang` elements the pass does not
    re-order; that case without domain / context is `identity_transparent_msg_sub`). -/
theorem identity_transparent_msg_reorder (cfg : Cfg) (ctx : Ctx) (ta : Bool) (t : QName) (a : TAttrs) (F : List MNode)
    (extra : List Str) (hc : cleanM F = true) (hna : deepNoAdjM F = true) (hnd : (namesM F).Nodup)
    (hso : subsOKM false F = true)
    (hx : noExclList cfg (.start t a :: (flattenM F ++ [.end_ t])) = true)
    (hattr : cleanList cfg (.start t a :: (flattenM F ++ [.end_ t])) = true) :
    msgGenerate (namesM F ++ extra) (fun s => s)
        (trList cfg Catalog.id ctx false ta 0 (.start t a :: (flattenM F ++ [.end_ t]))) =
      .ok (.start t a :: (coalesce (flattenM (trimF (reordM F))) ++ [.end_ t])) :=
  pass_then_msg_identity_reord cfg ctx ta t a F extra hc hna hnd hso hx hattr

/-- `<p i18n:msg="n"> Hi, <b py:if="c" i18n:ctxt="m" i18n:domain="d">${n}</b>! </p>`: the
    hypotheses hold; the pass puts domain and context first, the directive keeps the element -/
example :
    cleanM [.text [' ','H','i',',',' '], .elem (some [.other ['i','f'], .ctxt ['m'], .domain ['d']]) ⟨[], ['b']⟩ [] [.expr ['n'] 0 []], .text ['!',' ']] = true ∧
    subsOKM false [.text [' ','H','i',',',' '], .elem (some [.other ['i','f'], .ctxt ['m'], .domain ['d']]) ⟨[], ['b']⟩ [] [.expr ['n'] 0 []], .text ['!',' ']] = true ∧
    noExclList Cfg.default (.start ⟨[], ['p']⟩ [] ::
      (flattenM [.text [' ','H','i',',',' '], .elem (some [.other ['i','f'], .ctxt ['m'], .domain ['d']]) ⟨[], ['b']⟩ [] [.expr ['n'] 0 []], .text ['!',' ']] ++
        [.end_ ⟨[], ['p']⟩])) = true ∧
    cleanList Cfg.default (.start ⟨[], ['p']⟩ [] ::
      (flattenM [.text [' ','H','i',',',' '], .elem (some [.other ['i','f'], .ctxt ['m'], .domain ['d']]) ⟨[], ['b']⟩ [] [.expr ['n'] 0 []], .text ['!',' ']] ++
        [.end_ ⟨[], ['p']⟩])) = true ∧
    coalesce (flattenM (trimF (reordM
      [.text [' ','H','i',',',' '], .elem (some [.other ['i','f'], .ctxt ['m'], .domain ['d']]) ⟨[], ['b']⟩ [] [.expr ['n'] 0 []], .text ['!',' ']]))) =
      [.text ['H','i',',',' '],
       .sub [.domain ['d'], .ctxt ['m'], .other ['i','f']] [.start ⟨[], ['b']⟩ [], .expr 0 [], .end_ ⟨[], ['b']⟩],
       .text ['!']] := by
  refine ⟨by decide +kernel, by decide +kernel, by decide +kernel, by decide +kernel, by decide +kernel⟩

/-- **identity_transparent, pass and directive together, in one statement** (wave 4: the skip
    counter read on the tree).  `identity_transparent_msg_sub` allows excluded elements inside
    the message but no `i18n:domain` / `i18n:ctxt` on its directive-carrying elements;
    `identity_transparent_msg_reorder` allows those but no excluded element.  Here both: inside
    an element excluded by `ignore_tags` or a literal `xml:lang` the pass hands every event on
    untouched — SUB events with their directive lists included (`trListM_skip`: a forest passes,
    the counter comes back) —, everywhere else it re-orders the directive lists and changes
    nothing (`trListM_idX`); on the forest of the message that is `reordXM cfg`.  The message
    directive then returns the content unchanged up to the white space at the edges of the
    message and the chunking of text.  (`if excluded cfg t a`: the element carrying `i18n:msg` may
    itself be excluded — finding C19-msg-in-excluded: it is still translated — and then nothing
    inside is re-ordered.) -/
theorem identity_transparent_msg_skip (cfg : Cfg) (ctx : Ctx) (ta : Bool) (t : QName) (a : TAttrs) (F : List MNode)
    (extra : List Str) (hc : cleanM F = true) (hna : deepNoAdjM F = true) (hnd : (namesM F).Nodup)
    (hso : subsOKM false F = true)
    (hattr : cleanList cfg (.start t a :: (flattenM F ++ [.end_ t])) = true) :
    msgGenerate (namesM F ++ extra) (fun s => s)
        (trList cfg Catalog.id ctx false ta 0 (.start t a :: (flattenM F ++ [.end_ t]))) =
      .ok (.start t a :: (coalesce (flattenM (trimF (if excluded cfg t a then F else reordXM cfg F))) ++ [.end_ t])) :=
  pass_then_msg_identity_skip cfg ctx ta t a F extra hc hna hnd hso hattr

/-- it contains `identity_transparent_msg_reorder`: without excluded elements `reordXM` is `reordM` -/
theorem skip_generalises_reorder (cfg : Cfg) (F : List MNode) (h : noExclList cfg (flattenM F) = true) :
    reordXM cfg F = reordM F :=
  reordXM_eq_reordM cfg F h

/-- `<p i18n:msg="n"> Hi, <b py:if="c" i18n:ctxt="m">${n}</b><script><i py:if="c" i18n:ctxt="m">x</i></script>! </p>`:
    the directive list outside the ignored `script` is re-ordered, the one inside is not -/
example :
    let F : List MNode :=
      [.text [' ','H','i',',',' '], .elem (some [.other ['i','f'], .ctxt ['m']]) ⟨[], ['b']⟩ [] [.expr ['n'] 0 []],
       .elem none ⟨[], ['s','c','r','i','p','t']⟩ [] [.elem (some [.other ['i','f'], .ctxt ['m']]) ⟨[], ['i']⟩ [] [.text ['x']]],
       .text ['!',' ']]
    cleanM F = true ∧ deepNoAdjM F = true ∧ subsOKM false F = true ∧
    cleanList Cfg.default (.start ⟨[], ['p']⟩ [] :: (flattenM F ++ [.end_ ⟨[], ['p']⟩])) = true ∧
    noExclList Cfg.default (flattenM F) = false ∧
    coalesce (flattenM (trimF (reordXM Cfg.default F))) =
      [.text ['H','i',',',' '],
       .sub [.ctxt ['m'], .other ['i','f']] [.start ⟨[], ['b']⟩ [], .expr 0 [], .end_ ⟨[], ['b']⟩],
       .start ⟨[], ['s','c','r','i','p','t']⟩ [],
       .sub [.other ['i','f'], .ctxt ['m']] [.start ⟨[], ['i']⟩ [], .text ['x'], .end_ ⟨[], ['i']⟩],
       .end_ ⟨[], ['s','c','r','i','p','t']⟩,
       .text ['!']] := by
  refine ⟨by decide +kernel, by decide +kernel, by decide +kernel, by decide +kernel, by decide +kernel, by decide +kernel⟩

/-- finding C19-branch-directives (wave 4): a control-flow directive on a choose BRANCH.
    `<div i18n:choose="n"><p i18n:singular="">one</p><p i18n:plural="" py:if="c">many</p></div>`:
    the loop of `ChooseDirective.extract` over the directives of the branch's SUB event lets the
    `py:if` append the whole branch to BOTH buffers as a nested element, so extraction reports the
    ids `one[1:many]` / `many[1:many]`, while rendering hands `one` / `many` to `ngettext`
    (`ChooseDirective.__call__` applies the directives of a branch in order).  The streams of
    `lookups_subset_extract_partial` keep such branches out (`GoodChoose`: a branch carries
    `i18n:singular` / `i18n:plural`, optionally `py:strip`). -/
theorem branch_directive_ids_mismatch :
    extract Cfg.default
      [.sub [.choose []]
        [.start ⟨[], ['d','i','v']⟩ [],
         .sub [.singular] [.start ⟨[], ['p']⟩ [], .text ['o','n','e'], .end_ ⟨[], ['p']⟩],
         .sub [.plural, .other ['i','f']] [.start ⟨[], ['p']⟩ [], .text ['m','a','n','y'], .end_ ⟨[], ['p']⟩],
         .end_ ⟨[], ['d','i','v']⟩]] =
      .ok [⟨some ['n','g','e','t','t','e','x','t'],
            .many [some ['o','n','e','[','1',':','m','a','n','y',']'], some ['m','a','n','y','[','1',':','m','a','n','y',']']], []⟩] := by
  decide +kernel

/-- **identity_transparent, plural choice** (`ChooseDirective.__call__` with
    `ChooseBranchDirective.__call__`).  For `pre <ts i18n:singular>Fs</ts> mid
    <tp i18n:plural>Fp</tp> post` (no further branch in `pre`, `mid`, `post`; both branches
    clean in the sense of `translate_format_id`) and a catalogue whose `ngettext` answers with
    the selected message id unchanged, the output is `pre`, the selected branch — its content
    unchanged up to the white space at its edges — in the place of the singular branch, `mid`,
    `post`; the other branch is dropped.  (The fragment-wise look-ups of the translation pass
    inside the branches are finding C19-fragments and leave this theorem alone: it is about the
    directive, whatever its input stream is.) -/
theorem choose_identity (pre mid post : List TEvent) (ts tp : QName) (as ap : TAttrs)
    (Fs Fp : List MNode) (es ep : List Str) (params : List Str) (isPlural : Bool)
    (hpre : ∀ e ∈ pre, isBranchSub e = false) (hmid : ∀ e ∈ mid, isBranchSub e = false)
    (hpost : ∀ e ∈ post, isBranchSub e = false)
    (hps : params = namesM Fs ++ es) (hpp : params = namesM Fp ++ ep)
    (hcs : cleanM Fs = true) (hnas : deepNoAdjM Fs = true) (hnds : (namesM Fs).Nodup)
    (hcp : cleanM Fp = true) (hnap : deepNoAdjM Fp = true) (hndp : (namesM Fp).Nodup)
    (hsos : subsOKM false Fs = true) (hsop : subsOKM false Fp = true) :
    chooseCall params isPlural (fun s p => if isPlural then p else s)
        (pre ++ .sub [.singular] (.start ts as :: (flattenM Fs ++ [.end_ ts])) ::
          (mid ++ .sub [.plural] (.start tp ap :: (flattenM Fp ++ [.end_ tp])) :: post)) =
      some (.ok (pre ++ ((if isPlural then .start tp ap :: (coalesce (flattenM (trimF Fp)) ++ [.end_ tp])
                          else .start ts as :: (coalesce (flattenM (trimF Fs)) ++ [.end_ ts])) ++ (mid ++ post)))) :=
  chooseCall_identity pre mid post ts tp as ap Fs Fp es ep params isPlural hpre hmid hpost hps hpp
    hcs hnas hnds hcp hnap hndp hsos hsop

/-- `<div i18n:choose="n; n"> <p i18n:singular="">One ${n} coin</p> <p i18n:plural="">${n} coins </p> </div>`, plural chosen -/
example :
    chooseCall [['n']] true (fun _ p => p)
      [.start ⟨[], ['d']⟩ [], .text [' '],
       .sub [.singular] [.start ⟨[], ['p']⟩ [], .text ['O','n','e',' '], .expr 0 [], .text [' ','c','o','i','n'], .end_ ⟨[], ['p']⟩],
       .text [' '],
       .sub [.plural] [.start ⟨[], ['p']⟩ [], .expr 0 [], .text [' ','c','o','i','n','s',' '], .end_ ⟨[], ['p']⟩],
       .text [' '], .end_ ⟨[], ['d']⟩] =
    some (.ok [.start ⟨[], ['d']⟩ [], .text [' '], .start ⟨[], ['p']⟩ [], .expr 0 [], .text [' ','c','o','i','n','s'],
               .end_ ⟨[], ['p']⟩, .text [' '], .text [' '], .end_ ⟨[], ['d']⟩]) := by decide +kernel

/-! ## witnesses: the excluded inputs are real (known findings) -/

/-- C19-adjacent: two adjacent child elements inside an element — the parent's end tag comes
    out early, so `msg_identity_attr` fails without `deepNoAdjM`. -/
theorem adjacent_not_transparent :
    deepNoAdjM [.text ['a',' '], .elem none ⟨[], ['i']⟩ [] [.elem none ⟨[], ['b']⟩ [] [.text ['x']], .elem none ⟨[], ['e','m']⟩ [] [.text ['y']], .text ['z']]] = false ∧
    msgGenerate [] (fun s => s) (.start ⟨[], ['p']⟩ [] :: (flattenM
      [.text ['a',' '], .elem none ⟨[], ['i']⟩ [] [.elem none ⟨[], ['b']⟩ [] [.text ['x']], .elem none ⟨[], ['e','m']⟩ [] [.text ['y']], .text ['z']]]
        ++ [.end_ ⟨[], ['p']⟩])) =
      .ok [.start ⟨[], ['p']⟩ [], .text ['a',' '], .start ⟨[], ['i']⟩ [], .start ⟨[], ['b']⟩ [], .text ['x'],
           .end_ ⟨[], ['b']⟩, .end_ ⟨[], ['i']⟩, .start ⟨[], ['e','m']⟩ [], .text ['y'], .end_ ⟨[], ['e','m']⟩,
           .text ['z'], .end_ ⟨[], ['p']⟩] := by
  refine ⟨by decide +kernel, by decide +kernel⟩

/-- C19-backslash: `a<b>x\</b>c` comes back as `a<b>x]c</b>`. -/
theorem backslash_not_transparent :
    msgGenerate [] (fun s => s)
      [.start ⟨[], ['p']⟩ [], .text ['a'], .start ⟨[], ['b']⟩ [], .text ['x', '\\'], .end_ ⟨[], ['b']⟩, .text ['c'],
       .end_ ⟨[], ['p']⟩] =
    .ok [.start ⟨[], ['p']⟩ [], .text ['a'], .start ⟨[], ['b']⟩ [], .text ['x', ']', 'c'], .end_ ⟨[], ['b']⟩,
         .end_ ⟨[], ['p']⟩] := by decide +kernel

/-- C19-placeholder-text: literal `[1:` in the text of a message raises KeyError. -/
theorem placeholder_text_raises :
    msgGenerate [] (fun s => s)
      [.start ⟨[], ['p']⟩ [], .text ['s','e','e',' ','[','1',':','x',']',' ','a'], .end_ ⟨[], ['p']⟩] =
    .error .keyError := by decide +kernel

/-- C19-percent: literal `%(n)s` in the text of a message raises KeyError. -/
theorem percent_raises :
    msgGenerate [] (fun s => s)
      [.start ⟨[], ['p']⟩ [], .text ['1','0','0','%','(','n',')','s'], .end_ ⟨[], ['p']⟩] =
    .error .keyError := by decide +kernel

/-- C19-drop-nested: a translation that omits a nested placeholder (`a[1:xz]c` for
    `a[1:x[2:y]z]c`) leaves `<b>` without its end tag — the compatibility hypothesis of
    `placeholders_once_each` (same number of child placeholders) cannot be dropped. -/
theorem drop_nested_unbalanced :
    (do let b ← mbAppendList (MB.new [])
          [.text ['a'], .start ⟨[], ['b']⟩ [], .text ['x'], .start ⟨[], ['i']⟩ [], .text ['y'], .end_ ⟨[], ['i']⟩,
           .text ['z'], .end_ ⟨[], ['b']⟩, .text ['c']]
        b.translate ['a','[','1',':','x','z',']','c']) =
    .ok [.text ['a'], .start ⟨[], ['b']⟩ [], .text ['x','z'], .text ['c']] := by decide +kernel

/-- C19-fragments: the text inside `i18n:singular` / `i18n:plural` is looked up fragment by
    fragment by the translation pass, and extraction reports none of these ids. -/
theorem fragments_looked_up_not_extracted :
    (lookups Cfg.default [] true true [.sub [.choose [['n']]] [.start ⟨[], ['d']⟩ [],
      .sub [.singular] [.start ⟨[], ['p']⟩ [], .text ['O','n','e',' '], .expr 0 [], .text [' ','t','h','i','n','g'], .end_ ⟨[], ['p']⟩],
      .sub [.plural] [.start ⟨[], ['p']⟩ [], .text ['M','a','n','y',' '], .expr 0 [], .text [' ','t','h','i','n','g','s'], .end_ ⟨[], ['p']⟩],
      .end_ ⟨[], ['d']⟩]]).map Lookup.msgid =
      [['O','n','e'], ['t','h','i','n','g'], ['M','a','n','y'], ['t','h','i','n','g','s']] ∧
    extract Cfg.default [.sub [.choose [['n']]] [.start ⟨[], ['d']⟩ [],
      .sub [.singular] [.start ⟨[], ['p']⟩ [], .text ['O','n','e',' '], .expr 0 [], .text [' ','t','h','i','n','g'], .end_ ⟨[], ['p']⟩],
      .sub [.plural] [.start ⟨[], ['p']⟩ [], .text ['M','a','n','y',' '], .expr 0 [], .text [' ','t','h','i','n','g','s'], .end_ ⟨[], ['p']⟩],
      .end_ ⟨[], ['d']⟩]] = .ok [⟨some ngettextName,
      .many [some ['O','n','e',' ','%','(','n',')','s',' ','t','h','i','n','g'],
             some ['M','a','n','y',' ','%','(','n',')','s',' ','t','h','i','n','g','s']], []⟩] := by
  refine ⟨by decide +kernel, by decide +kernel⟩

end Genshi.Props.C19

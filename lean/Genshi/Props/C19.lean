/-
  C19 — Identity translation is transparent and message extraction is complete.
  Property theorems only; the model is `Genshi/Model/I18n*.lean`, helper lemmas are in
  `Genshi/Lemmas/I18n*.lean`.

  OBLIGATIONS (checked against `Genshi/Audit.lean` by the harness):
    replace_self translate_identity attr_space_not_transparent translate_forest
    excluded_untouched attrs_outside_include_untouched interpolated_attrs_untouched
    extract_text_false_untouched default_cfg_excludes_script_style reorder_is_permutation
-/
import Genshi.Lemmas.I18nTree
namespace Genshi.Props.C19
open Genshi Genshi.I18n

/-- `data.replace(text, text) = data`: what the identity catalogue does to a text node. -/
theorem replace_self (pat s : Str) : Str.replace pat pat s = s := Genshi.I18n.replace_self pat s

/-- **identity_transparent, translation pass** (`Translator.__call__`).  Under the identity
    catalogue, for every context, flag setting and skip depth, the pass returns its input up
    to the order of the directives of SUB events, provided no included plain attribute value
    has white space at its edges (finding C19-attr-space: `attr_space_not_transparent`).
    The message directives are covered by `msg_identity` below. -/
theorem translate_identity (cfg : Cfg) (ctx : Ctx) (tt ta : Bool) (s : TStream)
    (h : cleanList cfg s = true) :
    sameList s (translate cfg Catalog.id ctx tt ta s) = true :=
  trList_id_same cfg ctx _ _ 0 s h

example : cleanList Cfg.default
    [.start ⟨[], ['p']⟩ [(⟨[], ['t','i','t','l','e']⟩, .str ['H','i'])], .text [' ', 'a', ' '],
     .sub [.msg [], .domain ['d']] [.text ['x']], .end_ ⟨[], ['p']⟩] = true := by decide

/-- the hypothesis of `translate_identity` cannot be dropped: `title=" Foo "` comes back
    as `title="Foo"` under the identity catalogue (known finding C19-attr-space). -/
theorem attr_space_not_transparent :
    translate Cfg.default Catalog.id [] true true
      [.start ⟨[], ['p']⟩ [(⟨[], ['t','i','t','l','e']⟩, .str [' ', 'F', 'o', 'o', ' '])]] =
      [.start ⟨[], ['p']⟩ [(⟨[], ['t','i','t','l','e']⟩, .str ['F', 'o', 'o'])]] := by decide

/-- The pass is a tree homomorphism: on the flattening of a forest it works node by node
    (`trNode`), for **any** catalogue; `trNode` returns an excluded element unchanged. -/
theorem translate_forest (cfg : Cfg) (cat : Catalog) (ctx : Ctx) (tt ta : Bool) (ns : List TNode)
    (rest : TStream) (h : okNodes ns = true) :
    trList cfg cat ctx tt ta 0 (flattenNodes ns ++ rest) =
      flattenNodes (trNodes cfg cat ctx tt ta ns) ++ trList cfg cat ctx tt ta 0 rest :=
  trList_nodes cfg cat ctx tt ta ns rest h

/-- **excluded_untouched (tag / xml:lang)**: an element whose tag is in `ignore_tags` or that
    carries a literal `xml:lang` passes with its whole sub-tree unchanged, whatever the
    catalogue, the context and the flags, and translation resumes after it. -/
theorem excluded_untouched (cfg : Cfg) (cat : Catalog) (ctx : Ctx) (tt ta : Bool)
    (t : QName) (a : TAttrs) (ks : List TNode) (rest : TStream)
    (hx : excluded cfg t a = true) (hk : okNodes ks = true) :
    trList cfg cat ctx tt ta 0 ((TNode.elem t a ks).flatten ++ rest) =
      (TNode.elem t a ks).flatten ++ trList cfg cat ctx tt ta 0 rest := by
  rw [trList_node cfg cat ctx tt ta _ rest (by simpa [TNode.ok] using hk)]
  simp [trNode, hx]

example : excluded Cfg.default ⟨[], ['p']⟩ [(xmlLang, .str ['e', 'n'])] = true := by decide
example : excluded Cfg.default ⟨[], ['p']⟩ [(xmlLang, .parts [.expr []])] = false := by decide

/-- **excluded_untouched (include_attrs)**: an attribute whose name is not in `include_attrs`
    keeps its value under any catalogue. -/
theorem attrs_outside_include_untouched (cfg : Cfg) (gt : Str → Str) (ta : Bool) (n : QName) (v : AVal)
    (h : cfg.includeAttrs.contains n.text = false) : trAttr cfg gt ta (n, v) = (n, v) := by
  cases v with
  | parts ps => simp [trAttr]
  | str s =>
    have h' : ¬ (n.text ∈ cfg.includeAttrs) := by simpa using h
    simp [trAttr, h']

/-- interpolated attribute values are never translated. -/
theorem interpolated_attrs_untouched (cfg : Cfg) (gt : Str → Str) (ta : Bool) (n : QName) (ps : List APart) :
    trAttr cfg gt ta (n, .parts ps) = (n, .parts ps) := by simp [trAttr]

/-- **excluded_untouched (configuration)**: with `extract_text=False` the pass changes no
    text and no attribute, for any catalogue. -/
theorem extract_text_false_untouched (cfg : Cfg) (cat : Catalog) (ctx : Ctx) (tt ta : Bool) (s : TStream)
    (h : cfg.extractText = false) : sameList s (translate cfg cat ctx tt ta s) = true := by
  unfold translate; simp only [h, Bool.false_and]
  exact trList_off_same cfg cat ctx h 0 s

/-- the default configuration (generated from `Translator.IGNORE_TAGS`) excludes `script`
    and `style`, with and without the XHTML namespace. -/
theorem default_cfg_excludes_script_style (a : TAttrs) :
    excluded Cfg.default ⟨[], ['s','c','r','i','p','t']⟩ a = true ∧
    excluded Cfg.default ⟨[], ['s','t','y','l','e']⟩ a = true ∧
    excluded Cfg.default ⟨['h','t','t','p',':','/','/','w','w','w','.','w','3','.','o','r','g','/','1','9','9','9','/','x','h','t','m','l'], ['s','c','r','i','p','t']⟩ a = true ∧
    excluded Cfg.default ⟨['h','t','t','p',':','/','/','w','w','w','.','w','3','.','o','r','g','/','1','9','9','9','/','x','h','t','m','l'], ['s','t','y','l','e']⟩ a = true := by
  refine ⟨?_, ?_, ?_, ?_⟩ <;>
    (unfold excluded; simp only [Bool.or_eq_true]; left; decide)

/-- the directive list of a SUB event is only permuted by the pass (domain first, context next). -/
theorem reorder_is_permutation (ds : List Dir) : (reorder ds).dirs.Perm ds := reorder_perm ds

end Genshi.Props.C19

/-
  C06 — The HTML sanitizer emits only whitelisted, script-free markup and never fails.
  Property theorems only; models in `Genshi/Model/San*.lean`, lemmas in `Genshi/Lemmas/San*.lean`.
  Every theorem is about an arbitrary configuration `cfg` (the five sets are parameters) and an
  arbitrary event stream unless a hypothesis says otherwise.

  OBLIGATIONS (checked by the harness: `#print axioms` of each):
    sanitize_total stripentities_total sanitize_css_total
    only_safe_elems_attrs no_comments
    wellnested_in_out end_tags_safe dropped_subtree_absent
    uri_attrs_checked uri_attrs_safe_partial scheme_punct_witness
-/
import Genshi.Lemmas.SanNest
import Genshi.Lemmas.SanTree
import Genshi.Lemmas.SanForest
import Genshi.Lemmas.SanUri
namespace Genshi.Props.C06
open Genshi Genshi.San Genshi.San.Spec

/-! ## Totality -/

/-- The sanitizer never raises: for every configuration and every event stream (well nested or
    not, produced by a parser or not) the model returns a stream.  The failure points of the
    code (`chr`, `int`) are explicit in the model; the proof shows none is reachable. -/
theorem sanitize_total (cfg : Cfg) (s : Stream) : ∃ o, sanitize cfg s = .ok o :=
  sanitizeFrom_ok cfg St.init s

/-- `stripentities` never raises (numeric references beyond U+10FFFF, surrogates, `&#X…;`,
    over-long digit strings, unknown names). -/
theorem stripentities_total (s : Str) : ∃ r, stripentities s = .ok r := stripentities_ok s

/-- `sanitize_css` never raises (CSS escapes beyond U+10FFFF, surrogates). -/
theorem sanitize_css_total (cfg : Cfg) (s : Str) : ∃ r, sanitizeCss cfg s = .ok r := sanitizeCss_ok cfg s

-- the hostile numerics of findings C06-charref-range / C06-charref-upper-x / C06-css-escape-range
example : stripentities ['&', '#', '1', '1', '1', '4', '1', '1', '2', ';'] = .ok [replChar] := by decide +kernel
example : stripentities ['&', '#', 'X', '4', '1', ';'] = .ok ['A'] := by decide +kernel
example : sanitizeCss Cfg.default ['c', 'o', 'l', 'o', 'r', ':', '\\', '1', '1', '0', '0', '0', '0'] =
    .ok [['c', 'o', 'l', 'o', 'r', ':', replChar]] := by decide +kernel

/-! ## Whitelist -/

/-- Every START event of the output carries a tag of the safe set and only attributes of the
    safe set — for all input streams, whatever the state of the filter. -/
theorem only_safe_elems_attrs {cfg : Cfg} {s o : Stream} (h : sanitize cfg s = .ok o)
    {tag : QName} {attrs : AttrList} (hm : Event.start tag attrs ∈ o) :
    tag.text ∈ cfg.safeTags ∧ ∀ a ∈ attrs, a.1.text ∈ cfg.safeAttrs := by
  obtain ⟨st1, e, _, hem⟩ := sanitizeFrom_mem h _ hm
  cases hem with
  | start tag' attrs0 as he hw hsafe has =>
    refine ⟨?_, ?_⟩
    · unfold isSafeElem at hsafe
      simp only [Bool.and_eq_true] at hsafe
      simpa using hsafe.1
    · intro a ha
      obtain ⟨a0, _, hs⟩ := sanAttrs_mem has a ha
      have f := sanAttr_some hs
      rw [f.name]
      simpa using f.safe
  | other hw hns hnc => exact absurd rfl (hns tag attrs)

/-- No COMMENT event survives — for all input streams. -/
theorem no_comments {cfg : Cfg} {s o : Stream} (h : sanitize cfg s = .ok o) (c : Str) :
    Event.comment c ∉ o := by
  intro hm
  obtain ⟨st1, e, _, hem⟩ := sanitizeFrom_mem h _ hm
  cases hem with
  | other hw hns hnc => exact hnc c rfl

/-! ## Nesting and dropped subtrees -/

/-- A well-nested input gives a well-nested output. -/
theorem wellnested_in_out {cfg : Cfg} {s o : Stream} (hs : WellNested s) (h : sanitize cfg s = .ok o) :
    WellNested o := wellNested_sanitize hs h

/-- an END event of a balanced stream closes a START event of that stream or an element that was
    open before -/
theorem end_has_start : ∀ (o : Stream) (st st' : List QName), balance st o = some st' →
    ∀ t, Event.end_ t ∈ o → t ∈ st ∨ ∃ a, Event.start t a ∈ o := by
  intro o
  induction o with
  | nil => intro st st' _ t hm; simp at hm
  | cons e es ih =>
    intro st st' hb t hm
    cases e with
    | start u a =>
      simp only [balance] at hb
      simp at hm
      rcases ih (u :: st) st' hb t hm with h | ⟨a', h⟩
      · simp at h
        rcases h with rfl | h
        · exact Or.inr ⟨a, by simp⟩
        · exact Or.inl h
      · exact Or.inr ⟨a', by simp [h]⟩
    | end_ u =>
      cases st with
      | nil => simp [balance] at hb
      | cons t' st0 =>
        simp only [balance] at hb
        by_cases hu : u = t'
        · subst hu
          simp only [↓reduceIte] at hb
          simp at hm
          rcases hm with rfl | hm
          · exact Or.inl (by simp)
          · rcases ih st0 st' hb t hm with h | ⟨a', h⟩
            · exact Or.inl (by simp [h])
            · exact Or.inr ⟨a', by simp [h]⟩
        · simp [hu] at hb
    | text x f =>
      rw [balance_skip _ (by simp [Event.isStartEnd])] at hb
      simp at hm
      rcases ih st st' hb t hm with h | ⟨a', h⟩
      · exact Or.inl h
      · exact Or.inr ⟨a', by simp [h]⟩
    | comment x =>
      rw [balance_skip _ (by simp [Event.isStartEnd])] at hb
      simp at hm
      rcases ih st st' hb t hm with h | ⟨a', h⟩
      · exact Or.inl h
      · exact Or.inr ⟨a', by simp [h]⟩
    | pi x y =>
      rw [balance_skip _ (by simp [Event.isStartEnd])] at hb
      simp at hm
      rcases ih st st' hb t hm with h | ⟨a', h⟩
      · exact Or.inl h
      · exact Or.inr ⟨a', by simp [h]⟩
    | doctype x y z =>
      rw [balance_skip _ (by simp [Event.isStartEnd])] at hb
      simp at hm
      rcases ih st st' hb t hm with h | ⟨a', h⟩
      · exact Or.inl h
      · exact Or.inr ⟨a', by simp [h]⟩
    | xmlDecl x y z =>
      rw [balance_skip _ (by simp [Event.isStartEnd])] at hb
      simp at hm
      rcases ih st st' hb t hm with h | ⟨a', h⟩
      · exact Or.inl h
      · exact Or.inr ⟨a', by simp [h]⟩
    | startNs x y =>
      rw [balance_skip _ (by simp [Event.isStartEnd])] at hb
      simp at hm
      rcases ih st st' hb t hm with h | ⟨a', h⟩
      · exact Or.inl h
      · exact Or.inr ⟨a', by simp [h]⟩
    | endNs x =>
      rw [balance_skip _ (by simp [Event.isStartEnd])] at hb
      simp at hm
      rcases ih st st' hb t hm with h | ⟨a', h⟩
      · exact Or.inl h
      · exact Or.inr ⟨a', by simp [h]⟩
    | startCdata =>
      rw [balance_skip _ (by simp [Event.isStartEnd])] at hb
      simp at hm
      rcases ih st st' hb t hm with h | ⟨a', h⟩
      · exact Or.inl h
      · exact Or.inr ⟨a', by simp [h]⟩
    | endCdata =>
      rw [balance_skip _ (by simp [Event.isStartEnd])] at hb
      simp at hm
      rcases ih st st' hb t hm with h | ⟨a', h⟩
      · exact Or.inl h
      · exact Or.inr ⟨a', by simp [h]⟩

/-- For a well-nested input every END event of the output carries a tag of the safe set, too
    (for an ill-nested input a stray END event of the input is passed through: the theorem needs
    the hypothesis, see the example below). -/
theorem end_tags_safe {cfg : Cfg} {s o : Stream} (hs : WellNested s) (h : sanitize cfg s = .ok o)
    {tag : QName} (hm : Event.end_ tag ∈ o) : tag.text ∈ cfg.safeTags := by
  have hw := wellnested_in_out hs h
  rcases end_has_start o [] [] hw tag hm with h0 | ⟨a, ha⟩
  · simp at h0
  · exact (only_safe_elems_attrs h ha).1

/-- The output for a well-nested input is the flattening of the pruned forest: an element that
    is not safe is absent together with everything inside it, comments are absent, every other
    node is kept in place (elements with filtered attributes). -/
theorem dropped_subtree_absent {cfg : Cfg} {s : Stream} (hs : WellNested s) :
    ∃ ns, okList ns = true ∧ s = flattenList ns ∧
      sanitize cfg s = (do let p ← pruneList cfg ns; pure (flattenList p)) := by
  obtain ⟨ns, hok, rfl⟩ := wellNested_flatten_forest hs
  refine ⟨ns, hok, rfl, ?_⟩
  have := keep_list cfg ns [] hok
  simp only [List.append_nil] at this
  unfold sanitize
  rw [this]
  cases pruneList cfg ns with
  | error e => rfl
  | ok p => simp [sanitizeFrom]

/-! ## URI attributes -/

/-- Every attribute of the output whose name is in `uri_attrs` went through `is_safe_uri` and
    was accepted (for all input streams). -/
theorem uri_attrs_checked {cfg : Cfg} {s o : Stream} (h : sanitize cfg s = .ok o)
    {tag : QName} {attrs : AttrList} (hm : Event.start tag attrs ∈ o)
    {a : QName × Str} (ha : a ∈ attrs) (hu : a.1.text ∈ cfg.uriAttrs) : isSafeUri cfg a.2 = true := by
  obtain ⟨st1, e, _, hem⟩ := sanitizeFrom_mem h _ hm
  cases hem with
  | start tag' attrs0 as he hw hsafe has =>
    obtain ⟨a0, _, hs⟩ := sanAttrs_mem has a ha
    have f := sanAttr_some hs
    apply f.uri
    rw [← f.name]
    simpa using hu
  | other hw hns hnc => exact absurd rfl (hns tag attrs)

/-
  Full statement (the property): for every URI attribute `(n, v)` of the output,
      browserScheme v = none ∨ ∃ sch, browserScheme v = some sch ∧ sch ∈ cfg.safeSchemes.
  It is FALSE of the code: `is_safe_uri` deletes every non-alphanumeric character before it
  compares, so `h-t-t-p:` counts as `http` while a browser reads the scheme `h-t-t-p`
  (`scheme_punct_witness`, known finding C06-scheme-punct).  Proved below for every scheme
  without `+`, `-`, `.` — the only characters of a syntactically valid scheme that the code
  deletes and a browser keeps.
-/
/-- search: uri -/
theorem uri_attrs_safe_partial {cfg : Cfg} {s o : Stream} (h : sanitize cfg s = .ok o)
    {tag : QName} {attrs : AttrList} (hm : Event.start tag attrs ∈ o)
    {a : QName × Str} (ha : a ∈ attrs) (hu : a.1.text ∈ cfg.uriAttrs)
    {sch : Str} (hb : browserScheme a.2 = some sch) (hp : ∀ c ∈ sch, c ≠ '+' ∧ c ≠ '-' ∧ c ≠ '.') :
    sch ∈ cfg.safeSchemes :=
  isSafeUri_sound (uri_attrs_checked h hm ha hu) hb hp

def hrefName : QName := ⟨[], ['h', 'r', 'e', 'f']⟩
def aTag : QName := ⟨[], ['a']⟩
def scriptTag : QName := ⟨[], ['s', 'c', 'r', 'i', 'p', 't']⟩
def punctUri : Str := ['h', '-', 't', '-', 't', '-', 'p', ':', '/', '/', 'x']
def jsUri : Str := ['j', 'a', 'v', 'a', '\t', 's', 'c', 'r', 'i', 'p', 't', ':', 'x']

/-- Negation witness of the full statement: the default configuration emits `href="h-t-t-p://x"`,
    whose scheme as a browser reads it is `h-t-t-p`, not a safe scheme. -/
theorem scheme_punct_witness :
    sanitize Cfg.default [.start aTag [(hrefName, punctUri)], .end_ aTag] =
        .ok [.start aTag [(hrefName, punctUri)], .end_ aTag] ∧
      browserScheme punctUri = some ['h', '-', 't', '-', 't', '-', 'p'] ∧
      ['h', '-', 't', '-', 't', '-', 'p'] ∉ Cfg.default.safeSchemes := by
  decide +kernel

-- non-vacuity: a URI with an embedded tab is read as `javascript` by the browser-side reader,
-- is dropped by the filter, and an unsafe element nested in itself is dropped up to its own end
example : browserScheme jsUri = some ['j', 'a', 'v', 'a', 's', 'c', 'r', 'i', 'p', 't'] := by decide +kernel
example : sanitize Cfg.default
    [.start aTag [(hrefName, jsUri)], .start scriptTag [], .text ['x'] false, .start scriptTag [],
     .end_ scriptTag, .text ['y'] false, .end_ scriptTag, .comment ['c'], .end_ aTag] =
    .ok [.start aTag [], .end_ aTag] := by decide +kernel
-- `end_tags_safe` needs well-nested input: a stray END event is passed through
example : sanitize Cfg.default [.end_ scriptTag] = .ok [.end_ scriptTag] := by decide +kernel
-- `uri_attrs_safe_partial` is not vacuous: an accepted URI with a plain scheme
example : sanitize Cfg.default [.start aTag [(hrefName, ['H', 't', 'T', 'p', ':', 'x'])], .end_ aTag] =
    .ok [.start aTag [(hrefName, ['H', 't', 'T', 'p', ':', 'x'])], .end_ aTag] ∧
    browserScheme ['H', 't', 'T', 'p', ':', 'x'] = some ['h', 't', 't', 'p'] := by decide +kernel

end Genshi.Props.C06

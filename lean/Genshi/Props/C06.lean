/-
  C06 — The HTML sanitizer emits only whitelisted, script-free markup and never fails.
  Property theorems only; models in `Genshi/Model/San*.lean`, lemmas in `Genshi/Lemmas/San*.lean`.
  Every theorem is about an arbitrary configuration `cfg` (the five sets are parameters) and an
  arbitrary event stream unless a hypothesis says otherwise.

  OBLIGATIONS (checked by the harness: `#print axioms` of each):
    sanitize_total stripentities_total sanitize_css_total
    only_safe_elems_attrs no_comments no_cdata_markers no_gt_in_declarations
    wellnested_in_out end_tags_safe dropped_subtree_absent
    uri_attrs_checked uri_attrs_safe scheme_punct_rejected
    css_comments_dotall css_expression_classes_cover css_decode_fixed css_no_expression
    css_urls_safe css_scheme_punct_rejected
    attr_value_roundtrip uri_attrs_scheme_serialised default_config_script_free
    html_reparse_safe_partial xhtml_reparse_safe_partial default_config_markup_ok css_pass_order_matters
    attr_values_decode_stable html_reparse_events_safe_partial redecode_witness
    css_ok css_no_negative_margin password_inputs_dropped no_password_input no_password_input_after_decoding password_rule_reference_witness
    html_reparse_prolog_safe_partial xhtml_reparse_prolog_safe_partial xhtml_doctype_quote_witness
    decode_loop_fuel_independent comment_loop_fuel_independent loops_end_stable
    css_helpers_total strip_css_comments_complete unsafe_css_property_dropped default_css_no_scripting_properties
-/
import Genshi.Lemmas.SanNest
import Genshi.Lemmas.SanTree
import Genshi.Lemmas.SanForest
import Genshi.Lemmas.SanUri
import Genshi.Lemmas.SanCssUrl
import Genshi.Lemmas.SanRoundtrip
import Genshi.Lemmas.SanReparse
import Genshi.Lemmas.SanLayer
import Genshi.Lemmas.SanRules
import Genshi.Lemmas.SanReparseProlog
import Genshi.Lemmas.SanReparsePrologX
import Genshi.Lemmas.SanFuel
import Genshi.Props.C08
namespace Genshi.Props.C06
open Genshi Genshi.San Genshi.San.Spec

/-! ## Totality -/

/-- The sanitizer never raises: for every configuration and every event stream (well nested or
    not, produced by a parser or not) the model returns a stream.  The failure points of the
    code (`chr`, `int`) are explicit in the model; the proof shows none is reachable. -/
theorem sanitize_total (cfg : Cfg) (s : Stream) : ∃ o, sanitize cfg s = .ok o :=
  sanitizeFrom_ok cfg St.init s

/-- `stripentities` never raises (numeric references beyond U+10FFFF, surrogates, `&#X…;`,
    over-long digit strings, unknown names). -/
theorem stripentities_total (s : Str) : ∃ r, stripentities s = .ok r := stripentities_ok s

/-- `sanitize_css` never raises (CSS escapes beyond U+10FFFF, surrogates). -/
theorem sanitize_css_total (cfg : Cfg) (s : Str) : ∃ r, sanitizeCss cfg s = .ok r := sanitizeCss_ok cfg s

-- the hostile numerics of findings C06-charref-range / C06-charref-upper-x / C06-css-escape-range
example : stripentities ['&', '#', '1', '1', '1', '4', '1', '1', '2', ';'] = .ok [replChar] := by decide +kernel
example : stripentities ['&', '#', 'X', '4', '1', ';'] = .ok ['A'] := by decide +kernel
example : sanitizeCss Cfg.default ['c', 'o', 'l', 'o', 'r', ':', '\\', '1', '1', '0', '0', '0', '0'] =
    .ok [['c', 'o', 'l', 'o', 'r', ':', replChar]] := by decide +kernel

/-! ## Whitelist -/

/-- Every START event of the output carries a tag of the safe set and only attributes of the
    safe set — for all input streams, whatever the state of the filter. -/
theorem only_safe_elems_attrs {cfg : Cfg} {s o : Stream} (h : sanitize cfg s = .ok o)
    {tag : QName} {attrs : AttrList} (hm : Event.start tag attrs ∈ o) :
    tag.text ∈ cfg.safeTags ∧ ∀ a ∈ attrs, a.1.text ∈ cfg.safeAttrs := by
  obtain ⟨st1, e, _, hem⟩ := sanitizeFrom_mem h _ hm
  cases hem with
  | start tag' attrs0 as he hw hsafe has =>
    refine ⟨?_, ?_⟩
    · unfold isSafeElem at hsafe
      simp only [Bool.and_eq_true] at hsafe
      simpa using hsafe.1
    · intro a ha
      obtain ⟨a0, _, hs⟩ := sanAttrs_mem has a ha
      have f := sanAttr_some hs
      rw [f.name]
      simpa using f.safe
  | other hw hns hnc => exact absurd rfl (hns tag attrs)

/-- No COMMENT event survives — for all input streams. -/
theorem no_comments {cfg : Cfg} {s o : Stream} (h : sanitize cfg s = .ok o) (c : Str) :
    Event.comment c ∉ o := by
  intro hm
  obtain ⟨st1, e, _, hem⟩ := sanitizeFrom_mem h _ hm
  cases hem with
  | other hw hns hnc => exact hnc c rfl

/-- No CDATA section marker survives — for all input streams, balanced or not (finding
    C06-cdata-markers, repaired: the text between the markers of the input is therefore ordinary
    TEXT in the output, which every serializer escapes; before the repair the XML and XHTML
    serializers wrote it verbatim and `]]><script>…` — or an unclosed section — re-parsed as a
    live element). -/
theorem no_cdata_markers {cfg : Cfg} {s o : Stream} (h : sanitize cfg s = .ok o) :
    Event.startCdata ∉ o ∧ Event.endCdata ∉ o := by
  refine ⟨?_, ?_⟩ <;> intro hm <;> obtain ⟨st1, e, _, hem⟩ := sanitizeFrom_mem h _ hm <;> cases hem with
  | other hw hns hnc hsc hec => first | exact hsc rfl | exact hec rfl

/-- **Every declaration-like event that survives is closed where it says**: no processing
    instruction and no DOCTYPE declaration of the output holds a `>` (in target or data; in name,
    public or system identifier).  An HTML parser ends both at the first `>`, quoted or not, and
    reads the rest as markup (findings C06-pi-markup and C06-doctype-markup, repaired) — for all
    input streams. -/
theorem no_gt_in_declarations {cfg : Cfg} {s o : Stream} (h : sanitize cfg s = .ok o) :
    (∀ t d, Event.pi t d ∈ o → '>' ∉ t ∧ '>' ∉ d) ∧
    (∀ n p q, Event.doctype n p q ∈ o → dtHasGt n p q = false) := by
  refine ⟨?_, ?_⟩
  · intro t d hm
    obtain ⟨st1, e, _, hem⟩ := sanitizeFrom_mem h _ hm
    cases hem with
    | other hw hns hnc hsc hec hdt hpi =>
      have := hpi t d rfl
      simp only [Bool.or_eq_false_iff] at this
      exact ⟨by simpa using this.1, by simpa using this.2⟩
  · intro n p q hm
    obtain ⟨st1, e, _, hem⟩ := sanitizeFrom_mem h _ hm
    cases hem with
    | other hw hns hnc hsc hec hdt hpi => exact hdt n p q rfl

-- non-vacuity: the system identifier `x'><s>` (legal XML inside double quotes) and a PI with `>`
-- are dropped; a harmless DOCTYPE and PI pass
example : sanitize Cfg.default [.doctype ['h', 't', 'm', 'l'] none (some ['x', '\'', '>', '<', 's', '>']),
    .pi ['x'] ['a', '>'], .doctype ['h', 't', 'm', 'l'] (some ['-', '/', '/', 'W']) (some ['x', '.', 'd', 't', 'd']),
    .pi ['p', 'h', 'p'] ['e', 'c', 'h', 'o']] =
    .ok [.doctype ['h', 't', 'm', 'l'] (some ['-', '/', '/', 'W']) (some ['x', '.', 'd', 't', 'd']),
      .pi ['p', 'h', 'p'] ['e', 'c', 'h', 'o']] := by decide +kernel

-- non-vacuity: a section (closed, then unclosed) around hostile text; the text stays, as plain TEXT
example : sanitize Cfg.default [.startCdata, .text [']', ']', '>', '<', 's', '>'] false, .endCdata, .startCdata,
    .text ['x'] false] = .ok [.text [']', ']', '>', '<', 's', '>'] false, .text ['x'] false] := by decide +kernel

/-! ## Nesting and dropped subtrees -/

/-- A well-nested input gives a well-nested output. -/
theorem wellnested_in_out {cfg : Cfg} {s o : Stream} (hs : WellNested s) (h : sanitize cfg s = .ok o) :
    WellNested o := wellNested_sanitize hs h

/-- an END event of a balanced stream closes a START event of that stream or an element that was
    open before -/
theorem end_has_start : ∀ (o : Stream) (st st' : List QName), balance st o = some st' →
    ∀ t, Event.end_ t ∈ o → t ∈ st ∨ ∃ a, Event.start t a ∈ o := by
  intro o
  induction o with
  | nil => intro st st' _ t hm; simp at hm
  | cons e es ih =>
    intro st st' hb t hm
    cases e with
    | start u a =>
      simp only [balance] at hb
      simp at hm
      rcases ih (u :: st) st' hb t hm with h | ⟨a', h⟩
      · simp at h
        rcases h with rfl | h
        · exact Or.inr ⟨a, by simp⟩
        · exact Or.inl h
      · exact Or.inr ⟨a', by simp [h]⟩
    | end_ u =>
      cases st with
      | nil => simp [balance] at hb
      | cons t' st0 =>
        simp only [balance] at hb
        by_cases hu : u = t'
        · subst hu
          simp only [↓reduceIte] at hb
          simp at hm
          rcases hm with rfl | hm
          · exact Or.inl (by simp)
          · rcases ih st0 st' hb t hm with h | ⟨a', h⟩
            · exact Or.inl (by simp [h])
            · exact Or.inr ⟨a', by simp [h]⟩
        · simp [hu] at hb
    | text x f =>
      rw [balance_skip _ (by simp [Event.isStartEnd])] at hb
      simp at hm
      rcases ih st st' hb t hm with h | ⟨a', h⟩
      · exact Or.inl h
      · exact Or.inr ⟨a', by simp [h]⟩
    | comment x =>
      rw [balance_skip _ (by simp [Event.isStartEnd])] at hb
      simp at hm
      rcases ih st st' hb t hm with h | ⟨a', h⟩
      · exact Or.inl h
      · exact Or.inr ⟨a', by simp [h]⟩
    | pi x y =>
      rw [balance_skip _ (by simp [Event.isStartEnd])] at hb
      simp at hm
      rcases ih st st' hb t hm with h | ⟨a', h⟩
      · exact Or.inl h
      · exact Or.inr ⟨a', by simp [h]⟩
    | doctype x y z =>
      rw [balance_skip _ (by simp [Event.isStartEnd])] at hb
      simp at hm
      rcases ih st st' hb t hm with h | ⟨a', h⟩
      · exact Or.inl h
      · exact Or.inr ⟨a', by simp [h]⟩
    | xmlDecl x y z =>
      rw [balance_skip _ (by simp [Event.isStartEnd])] at hb
      simp at hm
      rcases ih st st' hb t hm with h | ⟨a', h⟩
      · exact Or.inl h
      · exact Or.inr ⟨a', by simp [h]⟩
    | startNs x y =>
      rw [balance_skip _ (by simp [Event.isStartEnd])] at hb
      simp at hm
      rcases ih st st' hb t hm with h | ⟨a', h⟩
      · exact Or.inl h
      · exact Or.inr ⟨a', by simp [h]⟩
    | endNs x =>
      rw [balance_skip _ (by simp [Event.isStartEnd])] at hb
      simp at hm
      rcases ih st st' hb t hm with h | ⟨a', h⟩
      · exact Or.inl h
      · exact Or.inr ⟨a', by simp [h]⟩
    | startCdata =>
      rw [balance_skip _ (by simp [Event.isStartEnd])] at hb
      simp at hm
      rcases ih st st' hb t hm with h | ⟨a', h⟩
      · exact Or.inl h
      · exact Or.inr ⟨a', by simp [h]⟩
    | endCdata =>
      rw [balance_skip _ (by simp [Event.isStartEnd])] at hb
      simp at hm
      rcases ih st st' hb t hm with h | ⟨a', h⟩
      · exact Or.inl h
      · exact Or.inr ⟨a', by simp [h]⟩

/-- For a well-nested input every END event of the output carries a tag of the safe set, too
    (for an ill-nested input a stray END event of the input is passed through: the theorem needs
    the hypothesis, see the example below). -/
theorem end_tags_safe {cfg : Cfg} {s o : Stream} (hs : WellNested s) (h : sanitize cfg s = .ok o)
    {tag : QName} (hm : Event.end_ tag ∈ o) : tag.text ∈ cfg.safeTags := by
  have hw := wellnested_in_out hs h
  rcases end_has_start o [] [] hw tag hm with h0 | ⟨a, ha⟩
  · simp at h0
  · exact (only_safe_elems_attrs h ha).1

/-- The output for a well-nested input is the flattening of the pruned forest: an element that
    is not safe is absent together with everything inside it, comments are absent, every other
    node is kept in place (elements with filtered attributes). -/
theorem dropped_subtree_absent {cfg : Cfg} {s : Stream} (hs : WellNested s) :
    ∃ ns, okList ns = true ∧ s = flattenList ns ∧
      sanitize cfg s = (do let p ← pruneList cfg ns; pure (flattenList p)) := by
  obtain ⟨ns, hok, rfl⟩ := wellNested_flatten_forest hs
  refine ⟨ns, hok, rfl, ?_⟩
  have := keep_list cfg ns [] hok
  simp only [List.append_nil] at this
  unfold sanitize
  rw [this]
  cases pruneList cfg ns with
  | error e => rfl
  | ok p => simp [sanitizeFrom]

/-! ## URI attributes -/

/-- Every attribute of the output whose name is in `uri_attrs` went through `is_safe_uri` and
    was accepted (for all input streams). -/
theorem uri_attrs_checked {cfg : Cfg} {s o : Stream} (h : sanitize cfg s = .ok o)
    {tag : QName} {attrs : AttrList} (hm : Event.start tag attrs ∈ o)
    {a : QName × Str} (ha : a ∈ attrs) (hu : a.1.text ∈ cfg.uriAttrs) : isSafeUri cfg a.2 = true := by
  obtain ⟨st1, e, _, hem⟩ := sanitizeFrom_mem h _ hm
  cases hem with
  | start tag' attrs0 as he hw hsafe has =>
    obtain ⟨a0, _, hs⟩ := sanAttrs_mem has a ha
    have f := sanAttr_some hs
    apply f.uri
    rw [← f.name]
    simpa using hu
  | other hw hns hnc => exact absurd rfl (hns tag attrs)

/-- **Every emitted URI attribute has a safe scheme, as a browser reads it** (white space and
    control characters removed, the text before the first colon if it has the syntax of a
    scheme, ASCII case folded) — for all configurations and all input streams.  Full strength
    since the repair of `is_safe_uri` (it used to delete `+ - .`, so `h-t-t-p:` counted as `http`). -/
theorem uri_attrs_safe {cfg : Cfg} {s o : Stream} (h : sanitize cfg s = .ok o)
    {tag : QName} {attrs : AttrList} (hm : Event.start tag attrs ∈ o)
    {a : QName × Str} (ha : a ∈ attrs) (hu : a.1.text ∈ cfg.uriAttrs)
    {sch : Str} (hb : browserScheme a.2 = some sch) : sch ∈ cfg.safeSchemes :=
  isSafeUri_sound (uri_attrs_checked h hm ha hu) hb

def hrefName : QName := ⟨[], ['h', 'r', 'e', 'f']⟩
def aTag : QName := ⟨[], ['a']⟩
def scriptTag : QName := ⟨[], ['s', 'c', 'r', 'i', 'p', 't']⟩
def punctUri : Str := ['h', '-', 't', '-', 't', '-', 'p', ':', '/', '/', 'x']
def jsUri : Str := ['j', 'a', 'v', 'a', '\t', 's', 'c', 'r', 'i', 'p', 't', ':', 'x']

/-- Regression of finding C06-scheme-punct (fixed): `href="h-t-t-p://x"`, whose scheme a browser
    reads as `h-t-t-p`, is dropped now. -/
theorem scheme_punct_rejected :
    sanitize Cfg.default [.start aTag [(hrefName, punctUri)], .end_ aTag] = .ok [.start aTag [], .end_ aTag] ∧
      browserScheme punctUri = some ['h', '-', 't', '-', 't', '-', 'p'] := by
  decide +kernel

-- non-vacuity: a URI with an embedded tab is read as `javascript` by the browser-side reader,
-- is dropped by the filter, and an unsafe element nested in itself is dropped up to its own end
example : browserScheme jsUri = some ['j', 'a', 'v', 'a', 's', 'c', 'r', 'i', 'p', 't'] := by decide +kernel
example : sanitize Cfg.default
    [.start aTag [(hrefName, jsUri)], .start scriptTag [], .text ['x'] false, .start scriptTag [],
     .end_ scriptTag, .text ['y'] false, .end_ scriptTag, .comment ['c'], .end_ aTag] =
    .ok [.start aTag [], .end_ aTag] := by decide +kernel
-- `end_tags_safe` needs well-nested input: a stray END event is passed through
example : sanitize Cfg.default [.end_ scriptTag] = .ok [.end_ scriptTag] := by decide +kernel
-- `uri_attrs_safe` is not vacuous: an accepted URI with a scheme
example : sanitize Cfg.default [.start aTag [(hrefName, ['H', 't', 'T', 'p', ':', 'x'])], .end_ aTag] =
    .ok [.start aTag [(hrefName, ['H', 't', 'T', 'p', ':', 'x'])], .end_ aTag] ∧
    browserScheme ['H', 't', 'T', 'p', ':', 'x'] = some ['h', 't', 't', 'p'] := by decide +kernel

/-! ## Style attributes

  The emitted value of a `style` attribute is `'; '.join(decls)`.  The browser-side reader of
  the spec half (`Spec.cssDecode`: escape decoding and comment removal until nothing changes;
  `Spec.hasExpression`; `Spec.urlArgs` + `Spec.trimArg` + `Spec.browserScheme`) is applied to
  that value.  Hypotheses on the configuration: `style` is not listed as a URI attribute (else
  the code never filters its CSS) and no CSS property name of `safe_css` holds a parenthesis. -/

/-- `_CSS_COMMENTS` is compiled with `re.DOTALL` (read from the pattern object by the translator):
    a comment that spans a line break is removed.  The CSS theorems depend on it. -/
theorem css_comments_dotall : Genshi.Gen.SanClass.commentsDotall = true := rfl

/-- Every spelling of `expression` that the browser-side reader accepts (upper and lower case,
    full-width forms, small capitals) is in the character classes of `_EXPRESSION_SEARCH` as
    compiled (the generated table). -/
theorem css_expression_classes_cover :
    classesSubset (wordClasses true expressionWord) Genshi.Gen.SanClass.expressionClasses = true :=
  expression_classes_cover

/-- where the value of an emitted `style` attribute comes from -/
theorem style_attr_emitted {cfg : Cfg} {s o : Stream} (h : sanitize cfg s = .ok o)
    {tag : QName} {attrs : AttrList} (hm : Event.start tag attrs ∈ o)
    {a : QName × Str} (ha : a ∈ attrs) (hs : a.1.text = styleWord) (hu : styleWord ∉ cfg.uriAttrs) :
    ∃ x decls, sanitizeCss cfg x = .ok decls ∧ a.2 = Genshi.Str.join declSep decls := by
  obtain ⟨st1, e, _, hem⟩ := sanitizeFrom_mem h _ hm
  cases hem with
  | start tag' attrs0 as he hw hsafe has =>
    obtain ⟨a0, _, hsa⟩ := sanAttrs_mem has a ha
    have f := sanAttr_some hsa
    have hname : a0.1.text = styleWord := by rw [← f.name]; exact hs
    obtain ⟨v, decls, _, hd, _, hj⟩ := f.style
      (by rw [hname]; cases hc : cfg.uriAttrs.contains styleWord with
          | false => rfl
          | true => exact absurd (by simpa using hc) hu)
      (by rw [hname]; simp)
    exact ⟨v, decls, hd, hj⟩
  | other hw hns hnc => exact absurd rfl (hns tag attrs)

/-- The browser's decoding (CSS escapes, comments; repeated until nothing changes) of an emitted
    style value is that value itself: what the filter checked is what the browser reads. -/
theorem css_decode_fixed {cfg : Cfg} {s o : Stream} (h : sanitize cfg s = .ok o)
    {tag : QName} {attrs : AttrList} (hm : Event.start tag attrs ∈ o)
    {a : QName × Str} (ha : a ∈ attrs) (hs : a.1.text = styleWord) (hu : styleWord ∉ cfg.uriAttrs) :
    cssDecode a.2 = a.2 := by
  obtain ⟨x, decls, hd, hj⟩ := style_attr_emitted h hm ha hs hu
  rw [hj]; exact sanitizeCss_decode_fixed css_comments_dotall hd

/-- No `expression(` (in any spelling, after decoding) in an emitted style value. -/
theorem css_no_expression {cfg : Cfg} (hcfg : CssNamesPlain cfg) {s o : Stream} (h : sanitize cfg s = .ok o)
    {tag : QName} {attrs : AttrList} (hm : Event.start tag attrs ∈ o)
    {a : QName × Str} (ha : a ∈ attrs) (hs : a.1.text = styleWord) (hu : styleWord ∉ cfg.uriAttrs) :
    hasExpression (cssDecode a.2) = false := by
  obtain ⟨x, decls, hd, hj⟩ := style_attr_emitted h hm ha hs hu
  rw [hj]; exact sanitizeCss_no_expression css_comments_dotall hcfg hd

/-- **Every `url(` argument of an emitted style value, as the browser decodes and reads it, has
    a safe scheme** (full strength since the repair of `is_safe_uri`). -/
theorem css_urls_safe {cfg : Cfg} (hcfg : CssNamesPlain cfg) {s o : Stream} (h : sanitize cfg s = .ok o)
    {tag : QName} {attrs : AttrList} (hm : Event.start tag attrs ∈ o)
    {a : QName × Str} (ha : a ∈ attrs) (hs : a.1.text = styleWord) (hu : styleWord ∉ cfg.uriAttrs)
    {arg : Str} (harg : arg ∈ urlArgs (cssDecode a.2))
    {sch : Str} (hb : browserScheme (trimArg arg) = some sch) : sch ∈ cfg.safeSchemes := by
  obtain ⟨x, decls, hd, hj⟩ := style_attr_emitted h hm ha hs hu
  rw [hj] at harg
  exact sanitizeCss_urls_safe css_comments_dotall hcfg hd arg harg sch hb

/-- **The whole emitted style value is acceptable to the browser-side reader** — the single
    statement of the spec half: `cssOk schemes v` = after decoding (escapes, comments, to a fixed
    point) `v` holds no `expression(` in any spelling, and every `url(` argument has no scheme or
    one of `schemes`.  It is the predicate the oracle applies to the real output (`css_problems`
    of the harness, compared with `cssOk` on every run: stream `spec-cssok`). -/
theorem css_ok {cfg : Cfg} (hcfg : CssNamesPlain cfg) {s o : Stream} (h : sanitize cfg s = .ok o)
    {tag : QName} {attrs : AttrList} (hm : Event.start tag attrs ∈ o)
    {a : QName × Str} (ha : a ∈ attrs) (hs : a.1.text = styleWord) (hu : styleWord ∉ cfg.uriAttrs) :
    cssOk cfg.safeSchemes a.2 = true := by
  unfold cssOk
  simp only [Bool.and_eq_true, Bool.not_eq_true', List.all_eq_true]
  refine ⟨css_no_expression hcfg h hm ha hs hu, ?_⟩
  intro arg harg
  unfold schemeOk
  cases hb : browserScheme (trimArg arg) with
  | none => rfl
  | some sch =>
    have := css_urls_safe hcfg h hm ha hs hu harg hb
    simpa using this

/-- **No negative margins, only whitelisted properties**: the emitted style value is the
    `'; '`-joined list of declarations `name:value` each of which has a property name (stripped,
    lower-cased) of `safe_css`, and none of which is a `margin…` property with a `-` in its value
    (`is_safe_css`: "negative margins can be used for phishing").  With `css_decode_fixed` the
    text that was checked is the text the browser reads. -/
theorem css_no_negative_margin {cfg : Cfg} {s o : Stream} (h : sanitize cfg s = .ok o)
    {tag : QName} {attrs : AttrList} (hm : Event.start tag attrs ∈ o)
    {a : QName × Str} (ha : a ∈ attrs) (hs : a.1.text = styleWord) (hu : styleWord ∉ cfg.uriAttrs) :
    ∃ decls, a.2 = Genshi.Str.join declSep decls ∧ ∀ d ∈ decls, ∃ pn value,
      split1 ':' d = (pn, some value) ∧ pyLower (pyStrip pn) ∈ cfg.safeCss ∧
      ¬ (marginWord.isPrefixOf (pyLower (pyStrip pn)) = true ∧ '-' ∈ pyStrip value) := by
  obtain ⟨x, decls, hd, hj⟩ := style_attr_emitted h hm ha hs hu
  refine ⟨decls, hj, ?_⟩
  intro d hdm
  obtain ⟨pn, value, hsp, hsafe⟩ := sanitizeCss_isSafeCss hd d hdm
  exact ⟨pn, value, hsp, isSafeCss_true hsafe⟩

/-- a configuration that allows `style` attributes -/
def styleCfg : Cfg := { Cfg.default with safeAttrs := styleWord :: Cfg.default.safeAttrs }
def styleName : QName := ⟨[], styleWord⟩
def divTag : QName := ⟨[], ['d', 'i', 'v']⟩
def punctCss : Str := ['c', 'o', 'l', 'o', 'r', ':', ' ', 'u', 'r', 'l', '(', 'h', '-', 't', '-', 't', '-', 'p',
  ':', 'x', ')']

/-- Regression of finding C06-scheme-punct for `url()`: `color: url(h-t-t-p:x)` is dropped now. -/
theorem css_scheme_punct_rejected :
    sanitize styleCfg [.start divTag [(styleName, punctCss)], .end_ divTag] = .ok [.start divTag [], .end_ divTag] := by
  decide +kernel

-- non-vacuity: the hypotheses hold for the default sets, and the filter acts on encoded payloads
example : CssNamesPlain Cfg.default ∧ CssNamesPlain styleCfg ∧ styleWord ∉ styleCfg.uriAttrs := by
  unfold CssNamesPlain; decide +kernel
-- `\75rl(javascript:x)` is decoded, recognised and dropped; the safe declaration stays
example : sanitizeCss styleCfg
    ['b', 'a', 'c', 'k', 'g', 'r', 'o', 'u', 'n', 'd', ':', '\\', '7', '5', 'r', 'l', '(', 'j', 'a', 'v', 'a', 's', 'c',
     'r', 'i', 'p', 't', ':', 'x', ')', ';', 'c', 'o', 'l', 'o', 'r', ':', 'r', 'e', 'd'] =
    .ok [['c', 'o', 'l', 'o', 'r', ':', 'r', 'e', 'd']] := by decide +kernel
-- a comment spanning a line break and a comment completed by the removal of another one
example : sanitizeCss styleCfg
    ['t', 'o', 'p', ':', 'e', '/', '/', '*', 'x', '*', '/', '*', '\n', '*', '/', 'x', 'p', 'r', 'e', 's', 's', 'i', 'o',
     'n', '(', '1', ')'] = .ok [] := by decide +kernel
-- a hex-escaped backslash stays escaped: the emitted text decodes to itself
example : sanitizeCss styleCfg ['t', 'o', 'p', ':', '\\', '5', 'c', ' ', '7', '5', ' ', 'r', 'l', '(', 'x', ')'] =
    .ok [['t', 'o', 'p', ':', '\\', '\\', '7', '5', ' ', 'r', 'l', '(', 'x', ')']] ∧
    cssDecode ['t', 'o', 'p', ':', '\\', '\\', '7', '5', ' ', 'r', 'l', '(', 'x', ')'] =
      ['t', 'o', 'p', ':', '\\', '\\', '7', '5', ' ', 'r', 'l', '(', 'x', ')'] := by decide +kernel

-- non-vacuity of `css_ok` / `css_no_negative_margin`: a style attribute with a negative margin,
-- an unlisted property and two harmless declarations; the last two are emitted and are `cssOk`
example : sanitize styleCfg [.start divTag [(styleName,
      ['m', 'a', 'r', 'g', 'i', 'n', '-', 'l', 'e', 'f', 't', ':', '-', '9', 'p', 'x', ';', 'p', 'o', 's', 'i', 't', 'i', 'o',
       'n', ':', 'f', 'i', 'x', 'e', 'd', ';', 'M', 'a', 'r', 'g', 'i', 'n', ':', '1', 'p', 'x', ';', 'c', 'o', 'l', 'o', 'r',
       ':', 'u', 'r', 'l', '(', 'h', 't', 't', 'p', ':', 'x', ')'])], .end_ divTag] =
    .ok [.start divTag [(styleName, ['M', 'a', 'r', 'g', 'i', 'n', ':', '1', 'p', 'x', ';', ' ', 'c', 'o', 'l', 'o', 'r', ':',
       'u', 'r', 'l', '(', 'h', 't', 't', 'p', ':', 'x', ')'])], .end_ divTag] ∧
    cssOk styleCfg.safeSchemes ['M', 'a', 'r', 'g', 'i', 'n', ':', '1', 'p', 'x', ';', ' ', 'c', 'o', 'l', 'o', 'r', ':',
       'u', 'r', 'l', '(', 'h', 't', 't', 'p', ':', 'x', ')'] = true ∧
    cssOk styleCfg.safeSchemes ['c', 'o', 'l', 'o', 'r', ':', 'u', 'r', 'l', '(', 'j', 's', ':', 'x', ')'] = false := by
  decide +kernel

/-! ## The password rule of `is_safe_elem`

  "Password fields can be used for phishing": an `input` element (by `QName.localname`) whose
  `type` attribute is `password` in any letter case is treated like an element outside the safe
  set.  Until wave 4 the code compared the UNDECODED `type` value of the input event, while the
  attribute loop emits the decoded one: `<input type="pass&amp;amp;#119;ord">` passed the rule and
  was written as `<input type="password">` (finding C06-password-reference, repaired: the rule now
  decodes the value until no reference is left, as the attribute loop does).  The statement
  about the output alone therefore no longer needs a hypothesis on the input values. -/

/-- Every emitted START event stems from an input START event of the same tag whose attributes
    were filtered and which was no password field: `localname = input ∧ lower(decoded type) =
    password` is false of the input element — for all streams. -/
theorem password_inputs_dropped {cfg : Cfg} {s o : Stream} (h : sanitize cfg s = .ok o)
    {tag : QName} {attrs : AttrList} (hm : Event.start tag attrs ∈ o) :
    ∃ attrs0, Event.start tag attrs0 ∈ s ∧ sanAttrs cfg attrs0 = .ok attrs ∧
      ¬ (localname tag = inputWord ∧ pyLower (stripRefsD (attrGet attrs0 typeWord)) = passwordWord) := by
  obtain ⟨st1, e, hes, hem⟩ := sanitizeFrom_mem h _ hm
  cases hem with
  | start tag' attrs0 as he hw hsafe has =>
    subst he
    refine ⟨attrs0, hes, has, ?_⟩
    rintro ⟨hl, ht⟩
    unfold isSafeElem at hsafe
    simp [hl, ht] at hsafe
  | other hw hns hnc => exact absurd rfl (hns tag attrs)

/-- **The output never contains a password field** — for ALL streams (wave 4: no hypothesis on the
    input values any more): no emitted `input` element (by local name) has a `type` attribute
    that is `password` in any letter case.  The one hypothesis left is on the configuration:
    `type` is not configured as a URI attribute (then the first `type` attribute could be dropped
    by the scheme test and a second one take its place). -/
theorem no_password_input {cfg : Cfg} (hu : typeWord ∉ cfg.uriAttrs) {s o : Stream}
    (h : sanitize cfg s = .ok o) {tag : QName} {attrs : AttrList} (hm : Event.start tag attrs ∈ o)
    (hl : localname tag = inputWord) : pyLower (attrGet attrs typeWord) ≠ passwordWord := by
  obtain ⟨attrs0, hin, has, hno⟩ := password_inputs_dropped h hm
  have hu' : cfg.uriAttrs.contains typeWord = false := by
    cases hc : cfg.uriAttrs.contains typeWord with
    | false => rfl
    | true => exact absurd (by simpa using hc) hu
  rcases sanAttrs_attrGet_type hu' attrs0 attrs has with ⟨_, h0⟩ | ⟨_, h1⟩
  · rw [h0]; exact pyLower_nil_ne_password
  · rw [h1]
    by_cases hs : cfg.safeAttrs.contains typeWord = true
    · rw [if_pos hs]; exact fun ht => hno ⟨hl, ht⟩
    · rw [if_neg hs]; exact pyLower_nil_ne_password

/-- what `no_password_input` says carries over to the value as emitted: it is a fixed point of
    reference decoding (`attr_values_decode_stable`), so no reader that decodes once more turns
    it into `password` either -/
theorem no_password_input_after_decoding {cfg : Cfg} (hu : typeWord ∉ cfg.uriAttrs) {s o : Stream}
    (h : sanitize cfg s = .ok o) {tag : QName} {attrs : AttrList} (hm : Event.start tag attrs ∈ o)
    (hl : localname tag = inputWord) : pyLower (stripRefsD (attrGet attrs typeWord)) ≠ passwordWord := by
  have hst : stripentities (attrGet attrs typeWord) = .ok (attrGet attrs typeWord) := by
    unfold attrGet
    cases hf : attrs.find? (fun a => a.1.text == typeWord) with
    | none => decide
    | some a =>
      obtain ⟨st1, e, _, hem⟩ := sanitizeFrom_mem h _ hm
      cases hem with
      | start tag' attrs0 as he hw hsafe has =>
        obtain ⟨a0, _, hsa⟩ := sanAttrs_mem has a (List.mem_of_find?_eq_some hf)
        exact (sanAttr_some hsa).stable
      | other hw hns hnc => exact absurd rfl (hns tag attrs)
  rw [stripRefsD_eq (stripRefs_of_stable hst)]
  exact no_password_input hu h hm hl

def inputTag : QName := ⟨[], inputWord⟩
def typeName : QName := ⟨[], typeWord⟩

/-- Regression of the repaired finding C06-password-reference: `type="pass&#119;ord"` and
    `type="pass&amp;#119;ord"` in the event stream (what the HTML parser delivers for
    `pass&amp;amp;#119;ord` resp. one more layer) are password fields now: dropped with their content. -/
theorem password_rule_reference_witness :
    sanitize Cfg.default [.start inputTag [(typeName, ['p', 'a', 's', 's', '&', '#', '1', '1', '9', ';', 'o', 'r', 'd'])],
      .text ['x'] false, .end_ inputTag,
      .start inputTag [(typeName, ['P', 'a', 's', 's', '&', 'a', 'm', 'p', ';', '#', '1', '1', '9', ';', 'o', 'r', 'd'])],
      .end_ inputTag, .text ['y'] false] = .ok [.text ['y'] false] := by
  decide +kernel

-- non-vacuity: a password field (mixed case) is dropped with its content, also under a name in
-- the EMPTY namespace (`QName('}input')`: string value `{}input`, local name `input`) when the
-- configuration lists that name; a text field is kept
example : sanitize Cfg.default [.start inputTag [(typeName, ['P', 'a', 's', 's', 'W', 'o', 'r', 'd'])],
    .text ['x'] false, .end_ inputTag, .start inputTag [(typeName, ['t', 'e', 'x', 't'])], .end_ inputTag] =
    .ok [.start inputTag [(typeName, ['t', 'e', 'x', 't'])], .end_ inputTag] := by decide +kernel
example : localname ⟨[], ['{', '}', 'i', 'n', 'p', 'u', 't']⟩ = inputWord ∧
    localname ⟨['u'], inputWord⟩ = inputWord ∧ localname ⟨[], ['{', 'i', 'n', 'p', 'u', 't']⟩ = inputWord ∧
    (⟨[], ['{', '}', 'i', 'n', 'p', 'u', 't']⟩ : QName).text = ['{', '}', 'i', 'n', 'p', 'u', 't'] := by decide
example : sanitize { Cfg.default with safeTags := ['{', '}', 'i', 'n', 'p', 'u', 't'] :: Cfg.default.safeTags }
    [.start ⟨[], ['{', '}', 'i', 'n', 'p', 'u', 't']⟩ [(typeName, passwordWord)], .text ['x'] false,
     .end_ ⟨[], ['{', '}', 'i', 'n', 'p', 'u', 't']⟩] = .ok [] := by decide +kernel

/-! ## After serialisation (attribute values)

  The re-parse clause of the property is proved here for attribute VALUES only: the serializers
  write `escape(value)` (C18: `escapeSpec true`, equal to the Python and C implementations), and
  decoding the references of that text (model of `stripentities`: all numeric forms, the 252
  names) gives the value back, so every guarantee about an emitted value holds for the value
  read back.  The markup level (serializer output read by a parser) is NOT modelled here: it is
  the subject of C08 and is only exercised by the oracle (html.parser on both serialisations). -/

/-- Decoding the character references of an escaped attribute value gives the value back. -/
theorem attr_value_roundtrip (q : Bool) (v : Str) :
    stripentities (Genshi.Escape.escapeSpec q v) = .ok v := stripentities_escape q v

/-- The URI guarantee for the value as written by a serializer and read back. -/
theorem uri_attrs_scheme_serialised {cfg : Cfg} {s o : Stream} (h : sanitize cfg s = .ok o)
    {tag : QName} {attrs : AttrList} (hm : Event.start tag attrs ∈ o)
    {a : QName × Str} (ha : a ∈ attrs) (hu : a.1.text ∈ cfg.uriAttrs)
    {back sch : Str} (hr : stripentities (Genshi.Escape.escapeSpec true a.2) = .ok back)
    (hb : browserScheme back = some sch) : sch ∈ cfg.safeSchemes := by
  rw [attr_value_roundtrip] at hr
  cases hr
  exact uri_attrs_safe h hm ha hu hb

-- non-vacuity: a value with all four escaped characters
example : stripentities (Genshi.Escape.escapeSpec true ['a', '&', '<', '"', '>', '&', 'l', 't', ';']) =
    .ok ['a', '&', '<', '"', '>', '&', 'l', 't', ';'] := by decide +kernel

/-! ## The default configuration (the generated class attributes)

  All theorems above hold for every configuration; the property's title also says "script-free",
  which for the *default* sets means: no scripting element, no event-handler or `style`
  attribute, no scripting scheme is whitelisted, and the hypotheses of the CSS theorems hold.
  Re-checked against `Gen/Sanitizer.lean` on every run, so that a changed class attribute that
  lets script through breaks a named theorem. -/

def startsWithOn : Str → Bool
  | 'o' :: 'n' :: _ => true
  | _ => false

theorem default_config_script_free :
    (∀ t ∈ [['s', 'c', 'r', 'i', 'p', 't'], ['s', 't', 'y', 'l', 'e'], ['o', 'b', 'j', 'e', 'c', 't'],
            ['e', 'm', 'b', 'e', 'd'], ['i', 'f', 'r', 'a', 'm', 'e'], ['a', 'p', 'p', 'l', 'e', 't'],
            ['l', 'i', 'n', 'k'], ['m', 'e', 't', 'a'], ['b', 'a', 's', 'e'], ['s', 'v', 'g'], ['m', 'a', 't', 'h'],
            ['f', 'r', 'a', 'm', 'e'], ['f', 'r', 'a', 'm', 'e', 's', 'e', 't']],
        t ∉ Cfg.default.safeTags) ∧
    (∀ a ∈ Cfg.default.safeAttrs, startsWithOn a = false) ∧
    styleWord ∉ Cfg.default.safeAttrs ∧
    ['f', 'o', 'r', 'm', 'a', 'c', 't', 'i', 'o', 'n'] ∉ Cfg.default.safeAttrs ∧
    ['s', 'r', 'c', 'd', 'o', 'c'] ∉ Cfg.default.safeAttrs ∧
    (∀ sch ∈ [['j', 'a', 'v', 'a', 's', 'c', 'r', 'i', 'p', 't'], ['v', 'b', 's', 'c', 'r', 'i', 'p', 't'],
              ['d', 'a', 't', 'a'], ['l', 'i', 'v', 'e', 's', 'c', 'r', 'i', 'p', 't'], ['m', 'o', 'c', 'h', 'a']],
        sch ∉ Cfg.default.safeSchemes) ∧
    (∀ a ∈ [['h', 'r', 'e', 'f'], ['s', 'r', 'c'], ['a', 'c', 't', 'i', 'o', 'n']],
        a ∈ Cfg.default.safeAttrs → a ∈ Cfg.default.uriAttrs) ∧
    styleWord ∉ Cfg.default.uriAttrs ∧ CssNamesPlain Cfg.default := by
  unfold CssNamesPlain
  decide +kernel

/-! ## After serialisation (markup level): the re-parse clause

  "The same guarantees hold for the stream obtained by serialising that output as HTML or XHTML
  and parsing it again": the sanitized forest is rendered by the serializer model of work package
  `out` (`Genshi.Output.render`, tied to genshi's serializers in C08/C09) and read back by the
  spec-side tokenizer `Genshi.Reader.tokens` (which stands for html.parser / expat in C08 and is
  compared with them on every run there).  Every token read back carries the guarantees
  (`TokSafe`): start and end tags with safe names, only safe attribute names, URI attribute values
  with a safe scheme, style values that decode to themselves and hold neither `expression(` nor an
  unsafe `url(`, and no comment, processing instruction or DOCTYPE at all.

  `_partial`: the hypotheses are those of C08's tree round trips — `strip_whitespace=False`, no
  doctype option, input leaves are plain (non-Markup) text, comments, the markers of CDATA sections
  in any arrangement and processing instructions that hold a `>` (`plainForest`: everything the
  repaired filter drops, and text; PIs that are kept, DOCTYPE, XML declarations and namespace
  events are not covered: C08's tree round trips have no such leaves), and the names of the configuration can be written as
  markup (`CfgMarkupOk`, true of the default sets: `default_config_markup_ok`); for XHTML
  additionally no LF/TAB/CR in the emitted attribute values (finding C08-attr-ws). -/

theorem html_reparse_safe_partial {cfg : Cfg} (hm : CfgMarkupOk cfg) (hcss : CssNamesPlain cfg)
    (cache dropd : Bool) (ns : List Node) (hok : okList ns = true) (hpl : plainForest ns = true) :
    ∃ p toks, sanitize cfg (flattenList ns) = .ok (flattenList p) ∧
      (Genshi.Output.render .html { strip := false, cache := cache, doctype := none, dropXmlDecl := dropd }
          (flattenList p)).bind (Genshi.Reader.tokens false) = some toks ∧
      ∀ t ∈ toks, TokSafe cfg t := by
  obtain ⟨p, hp⟩ : ∃ p, pruneList cfg ns = .ok p := by
    have h1 := keep_list cfg ns [] hok
    obtain ⟨o, ho⟩ := sanitizeFrom_ok cfg St.init (flattenList ns ++ [])
    cases hp : pruneList cfg ns with
    | ok p => exact ⟨p, rfl⟩
    | error e => rw [h1, hp] at ho; cases ho
  have hgood := pruneList_good cfg ns p hpl hp
  obtain ⟨h1, h2, h3⟩ := forest_in_html_domain hm p hgood
  refine ⟨p, _, ?_, Genshi.Props.C08.html_roundtrip_tree_partial cache dropd p h1 h2 h3, ?_⟩
  · have := keep_list cfg ns [] hok
    simp only [List.append_nil] at this
    unfold sanitize
    rw [this, hp]
    simp [sanitizeFrom]
  · exact assemble_safe (forestPieces_safe css_comments_dotall hm hcss p hgood)

theorem xhtml_reparse_safe_partial {cfg : Cfg} (hm : CfgMarkupOk cfg) (hcss : CssNamesPlain cfg)
    (cache : Bool) (ns : List Node) (hok : okList ns = true) (hpl : plainForest ns = true) :
    ∃ p, sanitize cfg (flattenList ns) = .ok (flattenList p) ∧
      (forestAttrVals p = true →
        ∃ toks, (Genshi.Output.render .xhtml { strip := false, cache := cache, doctype := none, dropXmlDecl := true }
            (flattenList p)).bind (Genshi.Reader.tokens true) = some toks ∧
          ∀ t ∈ toks, TokSafe cfg t) := by
  obtain ⟨p, hp⟩ : ∃ p, pruneList cfg ns = .ok p := by
    have h1 := keep_list cfg ns [] hok
    obtain ⟨o, ho⟩ := sanitizeFrom_ok cfg St.init (flattenList ns ++ [])
    cases hp : pruneList cfg ns with
    | ok p => exact ⟨p, rfl⟩
    | error e => rw [h1, hp] at ho; cases ho
  have hgood := pruneList_good cfg ns p hpl hp
  obtain ⟨h1, h2, _⟩ := forest_in_html_domain hm p hgood
  refine ⟨p, ?_, fun hv => ⟨_, Genshi.Props.C08.xhtml_roundtrip_tree_partial cache p h1 h2
    (forest_in_xhtml_domain hm p hgood hv), ?_⟩⟩
  · have := keep_list cfg ns [] hok
    simp only [List.append_nil] at this
    unfold sanitize
    rw [this, hp]
    simp [sanitizeFrom]
  · exact assemble_safe (forestPiecesX_safe css_comments_dotall hm hcss p hgood)

/-- **Every emitted attribute value is a fixed point of reference decoding** (all configurations,
    all streams): the filter decodes until nothing is left and drops a style text that still
    holds a reference, so a reader that decodes attribute values once more — genshi's own
    HTMLParser applies `stripentities` to what html.parser has already decoded — ends up with the
    very value that was checked. -/
theorem attr_values_decode_stable {cfg : Cfg} {s o : Stream} (h : sanitize cfg s = .ok o)
    {tag : QName} {attrs : AttrList} (hm : Event.start tag attrs ∈ o)
    {a : QName × Str} (ha : a ∈ attrs) : stripentities a.2 = .ok a.2 := by
  obtain ⟨st1, e, _, hem⟩ := sanitizeFrom_mem h _ hm
  cases hem with
  | start tag' attrs0 as he hw hsafe has =>
    obtain ⟨a0, _, hsa⟩ := sanAttrs_mem has a ha
    exact (sanAttr_some hsa).stable
  | other hw hns hnc => exact absurd rfl (hns tag attrs)

/-- Why the fixed point matters (regression of finding C06-redecode, fixed): the once-decoded value
    `&#106;avascript:x` is accepted by `is_safe_uri` (nothing before the `#`), yet one more
    decoding makes it `javascript:x`.  The repaired filter never emits it: it decodes on and
    drops the attribute. -/
theorem redecode_witness :
    isSafeUri Cfg.default ['&', '#', '1', '0', '6', ';', 'a', 'v', 'a', 's', 'c', 'r', 'i', 'p', 't', ':', 'x'] = true ∧
    stripentities ['&', '#', '1', '0', '6', ';', 'a', 'v', 'a', 's', 'c', 'r', 'i', 'p', 't', ':', 'x'] =
      .ok ['j', 'a', 'v', 'a', 's', 'c', 'r', 'i', 'p', 't', ':', 'x'] ∧
    sanitize Cfg.default [.start aTag [(hrefName, ['&', 'a', 'm', 'p', ';', '#', '1', '0', '6', ';', 'a', 'v', 'a', 's',
      'c', 'r', 'i', 'p', 't', ':', 'x'])], .end_ aTag] = .ok [.start aTag [], .end_ aTag] := by
  decide +kernel

/-- The re-parse clause through genshi's own HTML parser layer (model of work package `parse`,
    `Genshi.Parse.htmlStep`, with `stripentities` for its `strip` parameter, any `str.lower`, any
    table of void elements): the tokens read back from the HTML serialisation of the sanitized
    forest, handed to the layer one callback each, make it fail nowhere and build only safe
    events (`EventSafe`: safe tags, safe attribute names, `ValueSafe` values), the end tags it
    supplies itself included.  `_partial`: same hypotheses as `html_reparse_safe_partial`. -/
theorem html_reparse_events_safe_partial {cfg : Cfg} (hm : CfgMarkupOk cfg) (hcss : CssNamesPlain cfg)
    (cache dropd : Bool) (lower : Str → Str) (void : List Str)
    (ns : List Node) (hok : okList ns = true) (hpl : plainForest ns = true) :
    ∃ p toks evs, sanitize cfg (flattenList ns) = .ok (flattenList p) ∧
      (Genshi.Output.render .html { strip := false, cache := cache, doctype := none, dropXmlDecl := dropd }
          (flattenList p)).bind (Genshi.Reader.tokens false) = some toks ∧
      layerRun (layerEnv lower void) [] toks = .ok evs ∧ ∀ e ∈ evs, EventSafe cfg e := by
  obtain ⟨p, toks, h1, h2, h3⟩ := html_reparse_safe_partial hm hcss cache dropd ns hok hpl
  obtain ⟨evs, h4, h5⟩ := layerRun_safe hm lower void toks [] (by simp) h3
  exact ⟨p, toks, evs, h1, h2, h4, h5⟩

/-- The names of the default configuration can be written as markup (re-checked against the
    generated sets): hypothesis `CfgMarkupOk` of the two theorems above. -/
theorem default_config_markup_ok : CfgMarkupOk Cfg.default ∧ CfgMarkupOk styleCfg := by
  constructor <;> constructor <;> decide +kernel

-- non-vacuity: a nested payload goes through sanitizer, HTML serializer and reader
example : (do
    let o ← (sanitize styleCfg [.start divTag [(styleName, punctCss), (hrefName, jsUri)], .start scriptTag [],
      .text ['x'] false, .end_ scriptTag, .text ['a', '<', 'b'] false, .comment ['c'], .end_ divTag]).toOption
    let txt ← Genshi.Output.render .html { strip := false, cache := true, doctype := none, dropXmlDecl := true } o
    Genshi.Reader.tokens false txt) =
    some [.start ['d', 'i', 'v'] [] false, .text ['a', '<', 'b'], .end_ ['d', 'i', 'v']] := by decide +kernel

-- non-vacuity: CDATA markers (closed around `]]><s>`, then unclosed) and a PI holding `>` are
-- inside `plainForest`; the text of the section is read back as text, not as markup
example : plainForest [.leaf .startCdata, .leaf (.text [']', ']', '>', '<', 's', '>'] false), .leaf .endCdata,
    .elem divTag [] [.leaf .startCdata, .leaf (.pi ['x'] ['a', '>', '<', 's'])]] = true := by decide
example : (do
    let o ← (sanitize Cfg.default [.start divTag [], .startCdata, .text [']', ']', '>', '<', 's', '>'] false, .endCdata,
      .pi ['x'] ['a', '>', '<', 's'], .startCdata, .end_ divTag]).toOption
    let txt ← Genshi.Output.render .xhtml { strip := false, cache := true, doctype := none, dropXmlDecl := true } o
    Genshi.Reader.tokens true txt) =
    some [.start ['d', 'i', 'v'] [] false, .text [']', ']', '>', '<', 's', '>'], .end_ ['d', 'i', 'v']] := by decide +kernel

/-! ### beyond C08's tree hypotheses: processing instructions and DOCTYPE declarations (HTML)

  C08's tree round trips know no PI / DOCTYPE leaves; its events-level theorem
  `html_roundtrip_prolog_partial` does, under two hypotheses: no `>` inside a PI (`piSafe`) and a
  DOCTYPE literal that passes `dtScan false` (no `>` and every quote closed).  The first is
  **established by the repaired filter** (a PI holding `>` is dropped: C06-pi-markup).  The
  second is stricter than what an HTML parser needs: html.parser, the HTML5 tokenizer and C08's
  html-mode reader end a DOCTYPE at the first `>`, quoted or not, so a literal without `>` is read
  back whole whatever its quotes.  `Lemmas/SanReaderDoctype.lean` re-proves the events-level round
  trip under that weaker hypothesis (`html_roundtrip_prolog_nogt`), and "no `>`" is **established by
  the repaired filter** too (C06-doctype-markup, `no_gt_in_declarations`).  Since wave 4 the theorem
  therefore has NO hypothesis on the PI / DOCTYPE leaves of the input (`DtOkForest` is gone).
  `TokSafeP` is `TokSafe` except that PI and DOCTYPE tokens may occur (the property forbids
  comments, not these).  XML declaration leaves are inside too (the HTML serializer writes none).
  `_partial` (what is still outside): HTML method only (XHTML: `xhtml_reparse_prolog_safe_partial`),
  `strip_whitespace=False`, no doctype option, no namespace leaves, text leaves not Markup. -/

theorem html_reparse_prolog_safe_partial {cfg : Cfg} (hm : CfgMarkupOk cfg) (hcss : CssNamesPlain cfg)
    (cache dropd : Bool) (ns : List Node) (hok : okList ns = true) (hpl : prologForest ns = true) :
    ∃ p toks, sanitize cfg (flattenList ns) = .ok (flattenList p) ∧
      (Genshi.Output.render .html { strip := false, cache := cache, doctype := none, dropXmlDecl := dropd }
          (flattenList p)).bind (Genshi.Reader.tokens false) = some toks ∧
      ∀ t ∈ toks, TokSafeP cfg t := by
  obtain ⟨p, hp⟩ : ∃ p, pruneList cfg ns = .ok p := by
    have h1 := keep_list cfg ns [] hok
    obtain ⟨o, ho⟩ := sanitizeFrom_ok cfg St.init (flattenList ns ++ [])
    cases hp : pruneList cfg ns with
    | ok p => exact ⟨p, rfl⟩
    | error e => rw [h1, hp] at ho; cases ho
  have hgood := pruneList_goodP cfg ns p hpl hp
  obtain ⟨⟨h1, h2⟩, h3⟩ := forestF_good hm p hgood
  obtain ⟨hokP, hraw⟩ := okAllP_of_good hm (Genshi.Output.forestF p) h3 false
  refine ⟨p, Genshi.Reader.htmlExpectedP (Genshi.Output.forestF p), ?_, ?_,
    htmlExpectedP_safe css_comments_dotall hm hcss _ h3⟩
  · have := keep_list cfg ns [] hok
    simp only [List.append_nil] at this
    unfold sanitize
    rw [this, hp]
    simp [sanitizeFrom]
  · have hc : Genshi.Output.render .html { strip := false, cache := cache, doctype := none, dropXmlDecl := dropd } (flattenList p) =
        Genshi.Output.render .html { strip := false, cache := false, doctype := none, dropXmlDecl := dropd } (flattenList p) := by
      cases cache
      · rfl
      · exact Genshi.Props.C08.render_cache_irrelevant' .html false none dropd (flattenList p)
    rw [hc]
    have hf := Genshi.Output.filtered_forest .html false dropd p h1 h2
    simp only [Genshi.Output.render, Genshi.Output.chunks, hf, Option.map_some, Option.bind_some]
    refine Genshi.Reader.html_roundtrip_prolog_nogt _ _ _ hokP ?_
    have := (Genshi.Reader.html_streamG ({} : Genshi.Output.Opts) (Genshi.Output.forestF p) {} false {} rfl rfl hokP).2
    rw [this]; exact hraw

-- non-vacuity: a DOCTYPE whose quotes are NOT balanced (name `a"b`: outside C08's `dtScan false`, inside
-- this theorem), a kept PI, a DOCTYPE holding `>` (dropped) and a PI holding `>` (dropped)
example : prologForest [.leaf (.doctype ['a', '"', 'b'] none (some ['x', '.', 'd', 't', 'd'])),
    .elem divTag [] [.leaf (.pi ['p', 'h', 'p'] ['e', 'c', 'h', 'o']), .leaf (.text ['a', '<'] false),
      .leaf (.pi ['x'] ['a', '>', '<', 's'])],
    .leaf (.doctype ['h', 't', 'm', 'l'] none (some ['x', '\'', '>', '<', 's', '>']))] = true := by decide
example : Genshi.Reader.dtScan false none (Genshi.Reader.doctypeContent ['a', '"', 'b'] none none) = false := by decide
example : prologForest [.leaf (.xmlDecl ['1', '.', '0'] none (-1)), .leaf (.doctype ['a', '"', 'b'] none none),
    .elem divTag [] [.leaf (.text ['"', 'x'] false)]] = true := by decide
example : (do
    let o ← (sanitize Cfg.default [.xmlDecl ['1', '.', '0'] none (-1), .doctype ['a', '"', 'b'] none none, .start divTag [],
      .text ['"', 'x'] false, .end_ divTag]).toOption
    let txt ← Genshi.Output.render .html { strip := false, cache := true, doctype := none, dropXmlDecl := true } o
    Genshi.Reader.tokens false txt) =
    some [.doctype ['a', '"', 'b'], .text ['\n'], .start ['d', 'i', 'v'] [] false, .text ['"', 'x'], .end_ ['d', 'i', 'v']] := by
  decide +kernel
example : (do
    let o ← (sanitize Cfg.default [.doctype ['h', 't', 'm', 'l'] none (some ['x', '.', 'd', 't', 'd']), .start divTag [],
      .pi ['p', 'h', 'p'] ['e', 'c', 'h', 'o'], .text ['a', '<'] false, .pi ['x'] ['a', '>', '<', 's'], .end_ divTag,
      .doctype ['h', 't', 'm', 'l'] none (some ['x', '\'', '>', '<', 's', '>'])]).toOption
    let txt ← Genshi.Output.render .html { strip := false, cache := true, doctype := none, dropXmlDecl := true } o
    Genshi.Reader.tokens false txt) =
    some [.doctype ['h', 't', 'm', 'l', ' ', 'S', 'Y', 'S', 'T', 'E', 'M', ' ', '"', 'x', '.', 'd', 't', 'd', '"'], .text ['\n'],
      .start ['d', 'i', 'v'] [] false, .pi ['p', 'h', 'p', ' ', 'e', 'c', 'h', 'o', '?'], .text ['a', '<'], .end_ ['d', 'i', 'v']] := by
  decide +kernel

/-! ### the same for the XHTML method (wave 4)

  Composition of `dropped_subtree_absent` with C08's events-level `xhtml_roundtrip_prolog_partial`
  (`XhtmlOkAllP` / `foldXP`, a reader with a CDATA state).  Established by the filter: no CDATA
  marker reaches the serializer (the XML reader never enters a section), a kept PI holds no `>`
  and so no `?>`.  Asked of the *sanitized* forest `p` (the filter does not establish them; both
  are hypotheses of C08's XML round trip): no LF / TAB / CR in emitted attribute values
  (`forestAttrVals`, finding C08-attr-ws) and well-quoted emitted DOCTYPE literals
  (`forestDtQuoted` = C08's `dtScan true`: an XML tokenizer is quote-aware inside a DOCTYPE; a
  name like `a"b`, which no XML parser yields, would make it read on to the next quote —
  `xhtml_doctype_quote_witness` below); with them goes the analogous condition on XML declaration
  leaves (no `?>` in the literal `xml version="…" …`, only relevant with `drop_xml_decl=False`).  Any
  `drop_xml_decl`.  `_partial`: `strip_whitespace=False`, no doctype option, no namespace leaves,
  text leaves not Markup, tokenizer level (before namespace resolution). -/

theorem xhtml_reparse_prolog_safe_partial {cfg : Cfg} (hm : CfgMarkupOk cfg) (hcss : CssNamesPlain cfg)
    (cache dropd : Bool) (ns : List Node) (hok : okList ns = true) (hpl : prologForest ns = true) :
    ∃ p, sanitize cfg (flattenList ns) = .ok (flattenList p) ∧
      (forestAttrVals p = true → forestDtQuoted p = true →
        ∃ toks, (Genshi.Output.render .xhtml { strip := false, cache := cache, doctype := none, dropXmlDecl := dropd }
            (flattenList p)).bind (Genshi.Reader.tokens true) = some toks ∧
          ∀ t ∈ toks, TokSafeP cfg t) := by
  obtain ⟨p, hp⟩ : ∃ p, pruneList cfg ns = .ok p := by
    have h1 := keep_list cfg ns [] hok
    obtain ⟨o, ho⟩ := sanitizeFrom_ok cfg St.init (flattenList ns ++ [])
    cases hp : pruneList cfg ns with
    | ok p => exact ⟨p, rfl⟩
    | error e => rw [h1, hp] at ho; cases ho
  have hgood := pruneList_goodP cfg ns p hpl hp
  obtain ⟨⟨h1, h2⟩, h3⟩ := forestF_good hm p hgood
  refine ⟨p, ?_, fun hv hq => ?_⟩
  · have := keep_list cfg ns [] hok
    simp only [List.append_nil] at this
    unfold sanitize
    rw [this, hp]
    simp [sanitizeFrom]
  · have hx := forestF_extra p hv hq
    have hall : ∀ ev ∈ Genshi.Output.forestF p, FEvGood cfg ev ∧ XExtra ev := fun ev hev => ⟨h3 ev hev, hx ev hev⟩
    refine ⟨Genshi.Reader.xhtmlExpectedP ⟨dropd⟩ (Genshi.Output.forestF p), ?_,
      xhtmlExpectedP_safe css_comments_dotall hm hcss ⟨dropd⟩ _ hall⟩
    have hc : Genshi.Output.render .xhtml { strip := false, cache := cache, doctype := none, dropXmlDecl := dropd } (flattenList p) =
        Genshi.Output.render .xhtml { strip := false, cache := false, doctype := none, dropXmlDecl := dropd } (flattenList p) := by
      cases cache
      · rfl
      · exact Genshi.Props.C08.render_cache_irrelevant' .xhtml false none dropd (flattenList p)
    rw [hc]
    have hf := Genshi.Output.filtered_forest .xhtml false dropd p h1 h2
    simp only [Genshi.Output.render, Genshi.Output.chunks, hf, Option.map_some, Option.bind_some]
    exact Genshi.Props.C08.xhtml_roundtrip_prolog_partial _ _ _ (okAllXP_of_good hm ⟨dropd⟩ _ hall {})
      (foldXP_cd_none hm ⟨dropd⟩ _ hall {} {} rfl)

-- non-vacuity: a DOCTYPE, a kept PI, a PI holding `>` (dropped), a CDATA section (markers dropped), a
-- DOCTYPE holding `>` (dropped); the sanitized forest satisfies both extra hypotheses
example : prologForest [.leaf (.doctype ['h', 't', 'm', 'l'] none (some ['x', '.', 'd', 't', 'd'])),
    .elem divTag [] [.leaf (.pi ['p', 'h', 'p'] ['e', 'c', 'h', 'o']), .leaf .startCdata, .leaf (.text ['a', '<'] false),
      .leaf .endCdata, .leaf (.pi ['x'] ['a', '>', '<', 's'])],
    .leaf (.doctype ['h', 't', 'm', 'l'] none (some ['x', '\'', '>', '<', 's', '>']))] = true := by decide
example : forestAttrVals [.leaf (.xmlDecl ['1', '.', '0'] none (-1)), .leaf (.doctype ['h', 't', 'm', 'l'] none (some ['x', '.', 'd', 't', 'd'])),
      .elem divTag [] [.leaf (.pi ['p', 'h', 'p'] ['e', 'c', 'h', 'o']), .leaf (.text ['a', '<'] false)]] = true ∧
    forestDtQuoted [.leaf (.xmlDecl ['1', '.', '0'] none (-1)), .leaf (.doctype ['h', 't', 'm', 'l'] none (some ['x', '.', 'd', 't', 'd'])),
      .elem divTag [] [.leaf (.pi ['p', 'h', 'p'] ['e', 'c', 'h', 'o']), .leaf (.text ['a', '<'] false)]] = true := by decide
example : (do
    let o ← (sanitize Cfg.default [.xmlDecl ['1', '.', '0'] none (-1),
      .doctype ['h', 't', 'm', 'l'] none (some ['x', '.', 'd', 't', 'd']), .start divTag [],
      .pi ['p', 'h', 'p'] ['e', 'c', 'h', 'o'], .startCdata, .text ['a', '<'] false, .endCdata, .pi ['x'] ['a', '>', '<', 's'],
      .end_ divTag, .doctype ['h', 't', 'm', 'l'] none (some ['x', '\'', '>', '<', 's', '>'])]).toOption
    let txt ← Genshi.Output.render .xhtml { strip := false, cache := true, doctype := none, dropXmlDecl := false } o
    Genshi.Reader.tokens true txt) =
    some [.pi ['x', 'm', 'l', ' ', 'v', 'e', 'r', 's', 'i', 'o', 'n', '=', '"', '1', '.', '0', '"'], .text ['\n'],
      .doctype ['h', 't', 'm', 'l', ' ', 'S', 'Y', 'S', 'T', 'E', 'M', ' ', '"', 'x', '.', 'd', 't', 'd', '"'], .text ['\n'],
      .start ['d', 'i', 'v'] [] false, .pi ['p', 'h', 'p', ' ', 'e', 'c', 'h', 'o'], .text ['a', '<'], .end_ ['d', 'i', 'v']] := by
  decide +kernel

/-- The hypothesis `forestDtQuoted` is needed for an XML tokenizer (not for an HTML one, see
    `html_reparse_prolog_safe_partial`): the sanitizer keeps `<!DOCTYPE a"b>` (no `>` inside), and the
    quote-aware XML reader swallows the following start tag into the declaration (up to the next
    quote, here the one in the text) — expat itself rejects such a document. -/
theorem xhtml_doctype_quote_witness :
    sanitize Cfg.default [.doctype ['a', '"', 'b'] none none, .start divTag [], .text ['"', 'x'] false, .end_ divTag] =
      .ok [.doctype ['a', '"', 'b'] none none, .start divTag [], .text ['"', 'x'] false, .end_ divTag] ∧
    (Genshi.Output.render .xhtml { strip := false, cache := true, doctype := none, dropXmlDecl := true }
        [.doctype ['a', '"', 'b'] none none, .start divTag [], .text ['"', 'x'] false, .end_ divTag]).bind
      (Genshi.Reader.tokens true) ≠
      some [.doctype ['a', '"', 'b'], .text ['\n'], .start ['d', 'i', 'v'] [] false, .text ['"', 'x'], .end_ ['d', 'i', 'v']] := by
  decide +kernel

/-! ## The repeat-until-stable loops at any depth (wave 4)

  The code repeats reference decoding of an attribute value and comment removal of a style text
  `while` the text changes; the model carries fuel (`length + 1`).  The fuel is never what ends a
  loop: a pass that changes the text shortens it, so every larger fuel gives the same result —
  the model describes the unbounded `while` loops of the code at every depth, also for a value
  wrapped in thousands of `&amp;` layers (stream `deep` of the harness: model and code compared
  at depths beyond the interpreter's recursion limit), and the result is stable under one more
  pass. -/

theorem decode_loop_fuel_independent (s : Str) (g : Nat) (hg : s.length < g) : stripRefsFix g s = stripRefs s :=
  stripRefs_fuel s g hg

theorem comment_loop_fuel_independent (s : Str) (g : Nat) (hg : s.length < g) :
    stripCommentsFix Genshi.Gen.SanClass.commentsDotall g s = stripCssComments s := by
  unfold stripCssComments
  rw [css_comments_dotall]
  exact stripCommentsFix_fuel g (s.length + 1) s hg (Nat.lt_succ_self _)

theorem loops_end_stable (s : Str) :
    (∀ v, stripRefs s = .ok v → stripentities v = .ok v ∧ v.length ≤ s.length) ∧
    stripCommentsOnce Genshi.Gen.SanClass.commentsDotall (stripCssComments s) = stripCssComments s := by
  refine ⟨fun v h => ⟨stripRefs_fixed h, stripRefsFix_passes _ s (Nat.lt_succ_self _) v h⟩, ?_⟩
  unfold stripCssComments
  rw [css_comments_dotall]
  exact stripCommentsFix_fixed _ s (Nat.lt_succ_self _)

-- non-vacuity: three layers of `&amp;` need four passes; a staggered comment needs two
example : stripRefs ['&', 'a', 'm', 'p', ';', 'a', 'm', 'p', ';', 'a', 'm', 'p', ';', '#', '1', '0', '6', ';'] = .ok ['j'] := by
  decide +kernel
example : stripentities ['&', 'a', 'm', 'p', ';', 'a', 'm', 'p', ';', 'a', 'm', 'p', ';', '#', '1', '0', '6', ';'] =
    .ok ['&', 'a', 'm', 'p', ';', 'a', 'm', 'p', ';', '#', '1', '0', '6', ';'] := by decide +kernel
example : stripCssComments ['e', '/', '/', '*', '*', '/', '*', '*', '/', 'x'] = ['e', 'x'] ∧
    stripCommentsOnce true ['e', '/', '/', '*', '*', '/', '*', '*', '/', 'x'] = ['e', '/', '*', '*', '/', 'x'] := by decide +kernel

/-! ## The helpers of `sanitize_css`, one by one (wave 4 audit)

  `_replace_unicode_escapes`, `_strip_css_comments`, `is_safe_css`, `is_safe_uri` and the
  attribute loop are each a model function of their own (`replaceUnicodeEscapes`,
  `stripCssComments`, `isSafeCss`, `isSafeUri`, `sanAttr`/`sanAttrs`), compared with the code one
  by one (streams `_replace_unicode_escapes`, `_strip_css_comments`, `is_safe_css`, `is_safe_uri`,
  `decode-loop`) besides the composite streams.  genshi has no special treatment of vendor
  prefixes, `behavior` or `-moz-binding`: such properties are dropped because they are not in
  `safe_css` — for every configuration (`unsafe_css_property_dropped`), and the default set holds
  none of them (`default_css_no_scripting_properties`, over the generated table). -/

/-- none of the helpers raises: escape decoding (hex escapes beyond U+10FFFF, surrogates, `\5c`,
    a trailing white-space character, backslash-newline, a backslash at the end), the attribute
    loop on one attribute, the decoding loop -/
theorem css_helpers_total (cfg : Cfg) (s : Str) (a : QName × Str) :
    (∃ r, replaceUnicodeEscapes s = .ok r) ∧ (∃ r, sanAttr cfg a = .ok r) ∧ (∃ r, stripRefs s = .ok r) :=
  ⟨replaceUnicodeEscapes_ok s, sanAttr_ok cfg a, stripRefs_ok s⟩

/-- `_strip_css_comments` leaves no complete comment `/*…*/` behind, however the comments are
    nested or staggered (the loop runs until the text is stable) -/
theorem strip_css_comments_complete (s : Str) : NoComment (stripCssComments s) :=
  stripCssComments_noComment css_comments_dotall s

/-- A declaration whose property (stripped, lower-cased) is not in `safe_css` is never emitted —
    for every configuration: vendor-prefixed properties, `behavior`, `-moz-binding`, … need no
    rule of their own. -/
theorem unsafe_css_property_dropped {cfg : Cfg} {piece d : Str} (h : cssDecl cfg piece = some d) :
    ∃ pn v, split1 ':' (pyStrip piece) = (pn, some v) ∧ pyLower (pyStrip pn) ∈ cfg.safeCss := by
  unfold cssDecl at h
  simp only at h
  split at h
  · cases h
  · split at h
    · cases h
    · rename_i pn v hsp
      refine ⟨pn, v, hsp, ?_⟩
      split at h
      · cases h
      · rename_i hsafe
        cases hc : isSafeCss cfg (pyLower (pyStrip pn)) (pyStrip v) with
        | false => simp [hc] at hsafe
        | true =>
          unfold isSafeCss at hc
          simp only [Bool.and_eq_true] at hc
          simpa using hc.1

def startsWithDash : Str → Bool
  | '-' :: _ => true
  | _ => false

/-- The default `SAFE_CSS` (generated from the class attribute) holds no property that runs code or
    binds behaviour, no vendor-prefixed property, and not `position`. -/
theorem default_css_no_scripting_properties :
    (∀ p ∈ [['b', 'e', 'h', 'a', 'v', 'i', 'o', 'r'], ['-', 'm', 'o', 'z', '-', 'b', 'i', 'n', 'd', 'i', 'n', 'g'],
            ['-', 'm', 's', '-', 'b', 'e', 'h', 'a', 'v', 'i', 'o', 'r'], ['-', 'o', '-', 'l', 'i', 'n', 'k'],
            ['f', 'i', 'l', 't', 'e', 'r'], ['p', 'o', 's', 'i', 't', 'i', 'o', 'n'], ['e', 'x', 'p', 'r', 'e', 's', 's', 'i', 'o', 'n']],
        p ∉ Cfg.default.safeCss) ∧
    (∀ p ∈ Cfg.default.safeCss, startsWithDash p = false) := by
  decide +kernel

-- non-vacuity: vendor-prefixed / behaviour properties are dropped, escapes with a trailing
-- white-space character and backslash-newline are decoded as the code does
example : sanitizeCss Cfg.default ['-', 'm', 'o', 'z', '-', 'b', 'i', 'n', 'd', 'i', 'n', 'g', ':', 'u', 'r', 'l', '(', 'x', ')', ';',
    'b', 'e', 'h', 'a', 'v', 'i', 'o', 'r', ':', 'u', 'r', 'l', '(', 'x', ')', ';', 'c', 'o', 'l', 'o', 'r', ':', 'r', 'e', 'd'] =
    .ok [['c', 'o', 'l', 'o', 'r', ':', 'r', 'e', 'd']] := by decide +kernel
example : replaceUnicodeEscapes ['\\', '6', '5', ' ', 'x', '\\', '6', '5', '\r', '\n', 'y', '\\', '\n', 'z', '\\'] =
    .ok ['e', 'x', 'e', 'y', '\\', '\n', 'z', '\\'] := by decide +kernel

/-! ## The order of the two CSS passes

  `sanitize_css` decodes escapes first and removes comments afterwards.  `css_decode_fixed`
  depends on that order: with the passes swapped (comments first), a comment whose delimiters are
  themselves escaped (`\2f\2a … \2a\2f`) only appears after decoding, survives, and the emitted
  text is no fixed point of the browser-side decoder — it hides `expression(`. -/

/-- `sanitize_css` with its two normalisation passes in the wrong order -/
def sanitizeCssSwapped (cfg : Cfg) (text : Str) : Except Err (List Str) := do
  let t ← unescapeCss (stripCssComments (normalizeNewlines text))
  pure ((splitOn ';' t).filterMap (cssDecl cfg))

def orderPayload : Str :=
  ['t', 'o', 'p', ':', 'e', 'x', 'p', '\\', '2', 'f', '\\', '2', 'a', 'x', '\\', '2', 'a', '\\', '2', 'f', 'r', 'e', 's', 's',
   'i', 'o', 'n', '(', '1', ')']

theorem css_pass_order_matters :
    -- the code's order: recognised and dropped
    sanitizeCss styleCfg orderPayload = .ok [] ∧
    -- swapped: emitted, not a fixed point of the browser's decoding, which reveals `expression(`
    (∃ d, sanitizeCssSwapped styleCfg orderPayload = .ok [d] ∧ cssDecode d ≠ d ∧
      hasExpression (cssDecode d) = true) := by
  refine ⟨by decide +kernel, ['t', 'o', 'p', ':', 'e', 'x', 'p', '/', '*', 'x', '*', '/', 'r', 'e', 's', 's', 'i', 'o', 'n', '(', '1', ')'], ?_⟩
  decide +kernel

end Genshi.Props.C06

/-
  C02 — XML serialisation is a right inverse of XML parsing.  Property theorems
  only; helper lemmas live in `Genshi/Lemmas/Xml*.lean`.

  OBLIGATIONS (checked against the axiom audit by the harness):
    gen_tables_as_modelled extracted_codecs_ascii default_pref_ok
    xml_roundtrip output_wellformed xml_roundtrip_events output_wellformed_events xml_roundtrip_partial
    xml_roundtrip_outputside_partial
    tokenizer_inverts_serializer
    ser_idempotent_partial builder_stream_not_idemOK
    ser_idempotent_builder_events ser_idempotent_builder ser_idempotent_parsed_text
    mixed_stream_not_idempotent
    explicit_default_not_undeclared
    encode_roundtrip_text encode_roundtrip_attr charref_roundtrip
    encode_every_codec
    attr_tab_lf_cr_not_recovered text_cr_not_recovered decl_encoding_echoed
    parser_keeps_cdata_seam xml_roundtrip_adjacent_cdata merged_cdata_seam_not_wellformed
    parse_source_agrees empty_text_child_not_idempotent et_stream_builder_shaped
    ser_idempotent_builder_source ser_idempotent_parsed_text_source parser_layer_stream_shape
-/
import Genshi.Lemmas.XmlRefs
import Genshi.Lemmas.XmlFlatD
import Genshi.Lemmas.XmlEmptyTag
import Genshi.Lemmas.XmlEncode
import Genshi.Lemmas.XmlEncodeB
import Genshi.Lemmas.XmlIdem
import Genshi.Lemmas.XmlIdemE
import Genshi.Lemmas.XmlTxtB
import Genshi.Lemmas.XmlMerge
import Genshi.Model.XmlParser
import Genshi.Lemmas.XmlParser
import Genshi.Lemmas.XmlSource
namespace Genshi.Props.C02
open Genshi Genshi.Xml Genshi.Escape Genshi.Xml.Reader

/-- The tables read from the code are the ones the model was written against:
    the permanent `xml` binding, the filter chain of the XML serializer without
    whitespace stripping, and `xmlcharrefreplace` as the error handler. -/
theorem gen_tables_as_modelled :
    Genshi.Gen.Xml.flattenerInitial = [(xmlNs, xmlPrefix)] ∧
    Genshi.Gen.Xml.xmlFilters =
      [['E','m','p','t','y','T','a','g','F','i','l','t','e','r'],
       ['N','a','m','e','s','p','a','c','e','F','l','a','t','t','e','n','e','r']] ∧
    Genshi.Gen.Xml.encodeProbe = charRef (Char.ofNat 0x20AC) := by
  refine ⟨by decide, by decide, by decide⟩

/-- Every codec in the translator's table (as probed in the running interpreter:
    every scalar value goes through the codec's encoder; utf-8/16/32, ascii,
    latin-1, iso-8859-2, iso-8859-7, iso-8859-15, cp1251, cp1252, cp437, koi8-r, mac-roman)
    represents all of ASCII, which is what the encoding theorems assume.  The
    check is by evaluation of the generated table (`coversAscii`), lifted by
    `asciiRep_of_covers`; a codec added to the table is checked on the next run. -/
theorem extracted_codecs_ascii :
    ∀ e ∈ Genshi.Gen.Xml.encodings, AsciiRep (inRanges e.2) := by
  have h : Genshi.Gen.Xml.encodings.all (fun e => coversAscii e.2) = true := by decide
  intro e he
  exact asciiRep_of_covers e.2 (List.all_eq_true.mp h e he)

/-- The preferred-prefix table a default `NamespaceFlattener()` holds (as extracted)
    is one the theorems accept. -/
theorem default_pref_ok : prefOK defaultPref = true := by decide

/-- **xml_roundtrip, namespace stage** (all streams in `docOK`, any legal
    preferred-prefix table).  What an XML reader resolves from the output of
    `EmptyTagFilter` + `NamespaceFlattener` — qualified names through the `xmlns`
    attributes in scope, attribute lists, character data, comments, PIs, CDATA
    markers, declaration, doctype — is exactly the event sequence the stream
    denotes; prefixes and declarations do not appear in the comparison.
    `docOK` holds for what the parser produces from a well-formed document and
    for builder streams (no namespace events); see `Model/XmlSpec.lean`. -/
theorem xml_roundtrip_events (pref : List (Str × Str)) (hpref : prefOK pref = true) (s : Stream)
    (hn : WellNested s) (h : docOK (emptyTag s) = true) :
    resolve ((flatten pref (emptyTag s)).map normF) = some (canonS s) := by
  rw [resolve_flatten pref hpref _ h, canonX_emptyTag s hn]

/-- **output_wellformed, namespace stage**: on the same domain the flattened
    events are namespace-well-formed — every prefix used is declared in scope,
    no start tag carries two declarations of one prefix or two attributes with
    one expanded name, start and end tags match lexically, there is one root
    (`resolve` checks all of these and answers `none` otherwise). -/
theorem output_wellformed_events (pref : List (Str × Str)) (hpref : prefOK pref = true) (s : Stream)
    (h : docOK (emptyTag s) = true) :
    (resolve ((flatten pref (emptyTag s)).map normF)).isSome = true := by
  rw [resolve_flatten pref hpref _ h]; rfl

/-- **The reader's tokenizer is a left inverse of the serializer's text, under
    every encoding,** on whole documents in tokenizer normal form (`docTextOK`:
    an optional XML declaration, at most one DOCTYPE, names, attribute values,
    text, comments, PIs, CDATA sections the XML syntax can express; no `Markup`
    text; character data not adjacent to character data) whose markup the
    encoding can represent (`repMarkup`; character data and attribute values are
    unrestricted): the text is produced (no exception) and, after
    `xmlcharrefreplace`, is read back as the same events (`None` attribute values
    as empty strings; the line breaks after the declaration and the DOCTYPE appear
    as white-space tokens, `tokOf`). -/
theorem tokenizer_inverts_serializer (rep : Char → Bool) (hr : AsciiRep rep) (fs : List FEv)
    (h : docTextOK fs = true) (hm : repMarkup rep fs = true) :
    ∃ out, serRun SerSt.init fs = some out ∧ tokenize (encodeText rep out) = some (tokOf fs) := by
  obtain ⟨o1, h1, _⟩ := tokenize_doc (fun _ => true) (fun _ _ => rfl) fs h
  rw [serRunEnc_all] at h1
  obtain ⟨o2, h2, h3⟩ := tokenize_doc rep hr fs h
  have := encodeText_serRun rep hr fs SerSt.init o1 hm h1
  rw [h2] at this
  cases this
  exact ⟨o1, h1, h3⟩

/-- **xml_roundtrip (text level, every encoding), with the text conditions on
    the flattener's output.**  For every
    well-nested stream in `docOK` whose flattened form the text syntax can
    express (`docTextOK`) with markup the encoding can represent (`repMarkup`),
    the serializer produces a text and from its encoded form (characters the
    encoding lacks written as character references) the XML reader — end-of-line
    and attribute-value normalisation, tokenizer, reference decoding, namespace
    resolution, well-formedness checks — reads exactly the events the stream
    denotes: same qualified names, attribute lists, character data, comments,
    PIs, CDATA sections, XML declaration and DOCTYPE.

    Full statement (`xml_roundtrip`): the same for every stream the parser
    produces from a well-formed document and every builder stream.  Missing
    here: (a) adjacent TEXT events (builder streams; the parser never produces
    them) need a merging lemma; (b) `docTextOK`/`repMarkup` are asked of the
    flattener's *output* (names with prefixes), not derived from conditions on
    the input names and prefixes.  Both are exercised by the oracle on the real
    code and by the correspondence stream `read`; the driver reports for every
    generated stream whether it is inside these hypotheses. -/
theorem xml_roundtrip_outputside_partial (pref : List (Str × Str)) (hpref : prefOK pref = true)
    (rep : Char → Bool) (hr : AsciiRep rep) (s : Stream)
    (hn : WellNested s) (h : docOK (emptyTag s) = true)
    (hb : docTextOK (flatten pref (emptyTag s)) = true)
    (hm : repMarkup rep (flatten pref (emptyTag s)) = true) :
    ∃ out, serRun SerSt.init (flatten pref (emptyTag s)) = some out ∧
      Reader.read (encodeText rep out) = some (canonS s) := by
  obtain ⟨out, h1, h2⟩ := tokenizer_inverts_serializer rep hr _ hb hm
  refine ⟨out, h1, ?_⟩
  unfold Reader.read
  rw [h2]
  simp only [Option.bind_some]
  rw [resolve_tokOf]
  exact xml_roundtrip_events pref hpref s hn h

/-- **xml_roundtrip, partial** — all hypotheses on the input stream.  For every
    well-nested stream `s`, every legal preferred-prefix table and every encoding
    that contains ASCII: if
      * `docOK`: `s` is an XML document whose namespace events the syntax can
        express (what the parser delivers for a well-formed document, what the
        builder delivers for arbitrary qualified names),
      * `inputTextOK`: its local names, prefixes and preferred prefixes are XML
        names the encoding can represent, its namespace URIs and attribute
        values contain no TAB/LF/CR, its character data no CR, comments, PIs,
        CDATA sections, declaration and DOCTYPE can be written and represented,
        character data is not adjacent to character data,
    then the serializer produces a text, and from `encode`'s rendering of it
    (unrepresentable characters of text and attribute values as character
    references) an XML reader reads exactly the events `s` denotes.

    The full statement is `xml_roundtrip` below (adjacent and empty TEXT events
    allowed, the reader's answer compared up to merging of character data);
    this is the special case without merging. -/
theorem xml_roundtrip_partial (pref : List (Str × Str)) (hpref : prefOK pref = true)
    (rep : Char → Bool) (hr : AsciiRep rep) (s : Stream)
    (hn : WellNested s) (h : docOK (emptyTag s) = true)
    (ht : inputTextOK rep pref (emptyTag s) = true) :
    ∃ out, serRun SerSt.init (flatten pref (emptyTag s)) = some out ∧
      Reader.read (encodeText rep out) = some (canonS s) := by
  obtain ⟨h1, h2⟩ := textOK_of_input rep hr pref _ ht
  exact xml_roundtrip_outputside_partial pref hpref rep hr s hn h h1 h2

/-- **xml_roundtrip.**  For every well-nested stream `s`, every legal
    preferred-prefix table and every encoding that contains ASCII: if
      * `docOK`: `s` is an XML document whose namespace events the syntax can
        express (what the parser delivers for a well-formed document, what the
        builder delivers for arbitrary qualified names),
      * `inputTextOKm`: local names, prefixes and preferred prefixes are XML
        names the encoding can represent; namespace URIs and attribute values
        contain no TAB/LF/CR, character data no CR; comments, PIs, CDATA
        sections, declaration and DOCTYPE can be written and represented; no
        `Markup` (pre-escaped) text — the statement's exclusions, nothing else,
    then `XMLSerializer` produces a text, and from `encode`'s rendering of it
    (characters of text and attribute values the encoding lacks as character
    references) an XML reader reads exactly the events `s` denotes — same
    qualified names, attribute lists, comments, PIs, CDATA sections, declaration,
    DOCTYPE, and the same character data, adjacent TEXT events being reported as
    one (`mergeR`), as every XML parser does. -/
theorem xml_roundtrip (pref : List (Str × Str)) (hpref : prefOK pref = true)
    (rep : Char → Bool) (hr : AsciiRep rep) (s : Stream)
    (hn : WellNested s) (h : docOK (emptyTag s) = true)
    (ht : inputTextOKm rep pref (emptyTag s) = true) :
    ∃ out, serRun SerSt.init (flatten pref (emptyTag s)) = some out ∧
      Reader.read (encodeText rep out) = some (mergeR (canonS s)) := by
  obtain ⟨out, h1, h2⟩ := roundtrip_xev_merged pref hpref rep hr _ h ht
  exact ⟨out, h1, by rw [h2, canonX_emptyTag s hn]⟩

/-- **output_wellformed.**  On the same domain the encoded output is a
    well-formed XML document: the reader accepts it (tokenizer: legal names,
    quoted attribute values without `<`, legal references and characters, no
    `]]>` in character data, comments/PIs/CDATA properly closed, declaration
    first; namespace stage: every prefix declared in scope, no duplicate
    declaration or attribute on a tag, matching tags, one root, no character
    data outside it). -/
theorem output_wellformed (pref : List (Str × Str)) (hpref : prefOK pref = true)
    (rep : Char → Bool) (hr : AsciiRep rep) (s : Stream)
    (hn : WellNested s) (h : docOK (emptyTag s) = true)
    (ht : inputTextOKm rep pref (emptyTag s) = true) :
    ∃ out, serRun SerSt.init (flatten pref (emptyTag s)) = some out ∧
      (Reader.read (encodeText rep out)).isSome = true := by
  obtain ⟨out, h1, h2⟩ := xml_roundtrip pref hpref rep hr s hn h ht
  exact ⟨out, h1, by rw [h2]; rfl⟩

/-- a builder stream with adjacent and empty strings is inside the hypotheses -/
example :
    let s : Stream :=
      [.start ⟨['u'], ['a']⟩ [(⟨['v'], ['x']⟩, ['1'])], .text ['t'] false, .text [] false, .text ['&'] false,
       .start ⟨[], ['d']⟩ [], .text [] false, .end_ ⟨[], ['d']⟩, .end_ ⟨['u'], ['a']⟩]
    WellNested s ∧ docOK (emptyTag s) = true ∧
    inputTextOKm (inRanges [(0, 127)]) defaultPref (emptyTag s) = true ∧
    mergeR (canonS s) = [.start ⟨['u'], ['a']⟩ [(⟨['v'], ['x']⟩, ['1'])], .text ['t', '&'],
      .start ⟨[], ['d']⟩ [], .end_ ⟨[], ['d']⟩, .end_ ⟨['u'], ['a']⟩] := by
  refine ⟨by decide, by decide, by decide, by decide⟩

/-- **ser_idempotent, partial.**  For every stream in `docOK` that is shaped
    like the parser's (`idemOK`: namespace events directly in front of their
    start tag, `xmlns=""` reported with `None`, every namespace that is used
    bound by the stream's own declarations so that the flattener invents none):
    reading the flattened output back as `XMLParser` + `EmptyTagFilter` would
    (`reparseX`: START_NS per `xmlns` attribute in attribute order, resolved
    names, END_NS after the END) and flattening again yields the same flattened
    events — hence the same text.  In particular redundant declarations dropped
    in the first pass stay dropped and prefix choices are stable.

    Full statement (`ser_idempotent`): `ser (parse (ser s)) = ser s` for every
    parsed document and every builder stream.  Builder streams (where the first
    pass invents declarations that the second pass meets as explicit ones) are
    `ser_idempotent_builder_events` / `ser_idempotent_builder` below; the text
    level for this class is `ser_idempotent_parsed_text`.  Missing: (a) parsed
    documents outside `idemOK` — a default-namespace declaration dropped in
    favour of a prefix that is shadowed later, so that the flattener makes up a
    declaration inside a parsed stream (≈ 0.3 % of the generated documents; the
    oracle checks them on the real code, the driver on the model);
    `mixed_stream_not_idempotent` shows that mixing the two shapes freely is
    not idempotent; (b) `reparseX` is compared with the real parser by the
    correspondence stream `reparse`, not derived from a model of expat. -/
theorem ser_idempotent_partial (pref : List (Str × Str)) (hpref : prefOK pref = true) (s : Stream)
    (h1 : docOK (emptyTag s) = true) (h2 : idemOK pref (emptyTag s) = true) :
    ∃ xs2, reparseX PSt.init ((flatten pref (emptyTag s)).map normF) = some xs2 ∧
      flatten pref xs2 = flatten pref (emptyTag s) ∧
      serRun SerSt.init (flatten pref xs2) = serRun SerSt.init (flatten pref (emptyTag s)) := by
  obtain ⟨xs2, r1, r2⟩ := idem_flatten pref hpref _ h1 h2
  exact ⟨xs2, r1, r2, by rw [r2]⟩

/-- a document with aliased, re-bound and undeclared namespaces is inside `idemOK` -/
example : idemOK defaultPref (emptyTag
    [.startNs [] ['u'], .startNs ['q'] ['u'], .start ⟨['u'], ['a']⟩ [(⟨['u'], ['x']⟩, ['1'])],
     .startNs ['q'] ['v'], .startNs [] noneUri, .start ⟨[], ['b']⟩ [(⟨['v'], ['y']⟩, ['2'])],
     .text ['t'] false, .end_ ⟨[], ['b']⟩, .endNs [], .endNs ['q'],
     .start ⟨['u'], ['c']⟩ [], .end_ ⟨['u'], ['c']⟩,
     .end_ ⟨['u'], ['a']⟩, .endNs ['q'], .endNs []]) = true := by decide

/-- a builder stream is not: its namespaces are declared by the flattener -/
theorem builder_stream_not_idemOK :
    idemOK defaultPref (emptyTag [.start ⟨['u'], ['a']⟩ [], .text ['t'] false, .end_ ⟨['u'], ['a']⟩]) = false := by
  decide

/-- **ser_idempotent for builder streams, namespace stage.**  For every stream
    without namespace events (`builderShaped`: what `genshi.builder` delivers —
    the namespaces live in the qualified names and `NamespaceFlattener` makes up
    every prefix and declaration) that is a document (`docOK`), and every legal
    preferred-prefix table: reading the flattened output back as `XMLParser` +
    `EmptyTagFilter` would (`reparseX`: the made-up declarations arrive as
    explicit START_NS events, `xmlns=""` as `None`) and flattening again yields
    the same flattened events (up to `None` / `""` as the value of `xmlns`,
    which the serializer writes alike) — hence the same text.  The second pass
    takes every declaration the first pass made up, in order, makes up none
    itself, and chooses for every element and attribute name the prefix the
    first pass chose: a prefix chosen for a name stays the answer of
    `_find_prefix` under the fresh declarations made later on the same tag
    (`findPrefix_push_stable`, `flatAttrs_stable`), and `_find_prefix` depends
    only on what a reader can see of the bindings (`findPrefix_scope`), not on
    the `auto` flags or the prefix counter, which differ between the passes. -/
theorem ser_idempotent_builder_events (pref : List (Str × Str)) (hpref : prefOK pref = true) (s : Stream)
    (h1 : docOK (emptyTag s) = true) (h2 : builderShaped (emptyTag s) = true) :
    ∃ xs2, reparseX PSt.init ((flatten pref (emptyTag s)).map normF) = some xs2 ∧
      (flatten pref xs2).map normF = (flatten pref (emptyTag s)).map normF ∧
      serRun SerSt.init (flatten pref xs2) = serRun SerSt.init (flatten pref (emptyTag s)) := by
  obtain ⟨xs2, r1, r2⟩ := idem_flatten_builder pref hpref _ h1 h2
  exact ⟨xs2, r1, r2, by rw [← serRun_normF, r2, serRun_normF]⟩

/-- **ser_idempotent for builder streams** (text level, every encoding): for
    every builder stream `s` in the domain of `xml_roundtrip` (`docOK`,
    `inputTextOKm`: adjacent and empty TEXT events allowed, the statement's
    exclusions only), every legal preferred-prefix table and every encoding
    that contains ASCII: `XMLSerializer` produces a text `out`; parsing its
    encoded form (`parseText`: tokenizer, white space outside the root element
    dropped, namespace declarations reported as START_NS / END_NS events around
    their element, resolved names) succeeds, and serialising the parsed stream
    gives `out` again:  `ser (parse (encode (ser s))) = ser s`.

    `parseText` is the specification-side account of `XMLParser` +
    `EmptyTagFilter` for texts in which no start tag is directly followed by an
    end tag (`parse_source_agrees`); the real chain reads `<a></a>` as EMPTY
    (`parseSource`, compared with the real parser on every serializer output
    and on source documents by the streams `reparse` / `reparse-source`; not
    derived from a model of expat).  The statement about the real chain is
    `ser_idempotent_builder_source` below, with the side condition that no
    element's content is empty TEXT only; `empty_text_child_not_idempotent` is
    the witness that the side condition cannot be dropped. -/
theorem ser_idempotent_builder (pref : List (Str × Str)) (hpref : prefOK pref = true)
    (rep : Char → Bool) (hr : AsciiRep rep) (s : Stream)
    (h : docOK (emptyTag s) = true) (hb : builderShaped (emptyTag s) = true)
    (ht : inputTextOKm rep pref (emptyTag s) = true) :
    ∃ out, serRun SerSt.init (flatten pref (emptyTag s)) = some out ∧
      ∃ xs2, parseText (encodeText rep out) = some xs2 ∧
        serRun SerSt.init (flatten pref xs2) = some out :=
  idem_text_builder pref hpref rep hr _ h hb ht

/-- **ser_idempotent for parser-shaped streams, text level**: the same
    conclusion for streams in `idemOK` (what the parser delivers: namespace
    events in front of their start tag, nothing for the flattener to make up)
    without adjacent character data (`inputTextOK`; the parser coalesces). -/
theorem ser_idempotent_parsed_text (pref : List (Str × Str)) (hpref : prefOK pref = true)
    (rep : Char → Bool) (hr : AsciiRep rep) (s : Stream)
    (h : docOK (emptyTag s) = true) (hi : idemOK pref (emptyTag s) = true)
    (ht : inputTextOK rep pref (emptyTag s) = true) :
    ∃ out, serRun SerSt.init (flatten pref (emptyTag s)) = some out ∧
      ∃ xs2, parseText (encodeText rep out) = some xs2 ∧
        serRun SerSt.init (flatten pref xs2) = some out :=
  idem_text_parsed pref hpref rep hr _ h hi ht

/-- a builder tree with two namespaces, a namespaced attribute that needs a
    made-up prefix, an un-namespaced child (`xmlns=""`), a child back in the
    first namespace, adjacent and empty strings is inside the hypotheses; the
    second pass does see made-up declarations (three of them on the root) -/
example :
    let s : Stream :=
      [.start ⟨['u'], ['a']⟩ [(⟨['v'], ['x']⟩, ['1']), (⟨['u'], ['y']⟩, ['2'])],
       .text ['t'] false, .text [] false, .text ['&'] false,
       .start ⟨[], ['d']⟩ [], .start ⟨['u'], ['e']⟩ [(⟨['v'], ['z']⟩, ['3'])], .end_ ⟨['u'], ['e']⟩, .end_ ⟨[], ['d']⟩,
       .end_ ⟨['u'], ['a']⟩]
    docOK (emptyTag s) = true ∧ builderShaped (emptyTag s) = true ∧
    inputTextOKm (inRanges [(0, 127)]) defaultPref (emptyTag s) = true ∧
    (flatten defaultPref (emptyTag s)).head? =
      some (.start ['a'] [(['x','m','l','n','s'], ['u']), (['x','m','l','n','s',':','n','s','1'], ['v']),
        (['x','m','l','n','s',':','n','s','2'], ['u']), (['n','s','1',':','x'], ['1']), (['n','s','2',':','y'], ['2'])]) := by
  refine ⟨by decide, by decide, by decide, by decide⟩

/-- Boundary of the two idempotence theorems, with witness: a hand-made stream
    that *mixes* builder-style elements with explicit namespace events is inside
    `docOK` but in neither shape class, and idempotence fails there (model and
    real code alike): `b` gets a made-up `xmlns=""` (binding `''`), the explicit
    START_NS('', None) in front of `c` differs from it and is written again; the
    second pass meets both as `None` and drops the second.  The property
    quantifies over parsed documents and streams *without* explicit namespace
    events, so this is outside it. -/
theorem mixed_stream_not_idempotent :
    let s : Stream := [.start ⟨['u'], ['a']⟩ [], .start ⟨[], ['b']⟩ [], .startNs [] noneUri,
                       .start ⟨[], ['c']⟩ [], .end_ ⟨[], ['c']⟩, .endNs [], .end_ ⟨[], ['b']⟩,
                       .end_ ⟨['u'], ['a']⟩]
    docOK (emptyTag s) = true ∧ builderShaped (emptyTag s) = false ∧ idemOK defaultPref (emptyTag s) = false ∧
    serRun SerSt.init (flatten defaultPref (emptyTag s)) =
      some ['<','a',' ','x','m','l','n','s','=','"','u','"','>','<','b',' ','x','m','l','n','s','=','"','"','>',
            '<','c',' ','x','m','l','n','s','=','"','"','/','>','<','/','b','>','<','/','a','>'] ∧
    (reparseX PSt.init ((flatten defaultPref (emptyTag s)).map normF)).bind
        (fun xs2 => serRun SerSt.init (flatten defaultPref xs2)) =
      some ['<','a',' ','x','m','l','n','s','=','"','u','"','>','<','b',' ','x','m','l','n','s','=','"','"','>',
            '<','c','/','>','<','/','b','>','<','/','a','>'] := by
  refine ⟨by decide, by decide, by decide, by decide, by decide⟩

/-- a namespaced document with declaration, DOCTYPE and mixed content is inside
    all hypotheses, and the text it is about exists -/
example :
    let s : Stream :=
      [.xmlDecl ['1', '.', '0'] (some ['u', 't', 'f', '-', '8']) (-1), .comment ['c'],
       .doctype ['a'] (some ['-', '/', '/', 'X']) (some ['x', '.', 'd', 't', 'd']),
       .startNs [] ['u'], .start ⟨['u'], ['a']⟩ [(⟨[], ['x']⟩, ['1', '"', '<'])],
       .text ['t', '&'] false, .comment ['c'], .startCdata, .text ['<', 'z'] false, .endCdata,
       .start ⟨['v'], ['b']⟩ [], .end_ ⟨['v'], ['b']⟩, .pi ['p'] ['d'],
       .end_ ⟨['u'], ['a']⟩, .endNs []]
    WellNested s ∧ docOK (emptyTag s) = true ∧ docTextOK (flatten defaultPref (emptyTag s)) = true ∧
    repMarkup (inRanges [(0, 127)]) (flatten defaultPref (emptyTag s)) = true ∧
    inputTextOK (inRanges [(0, 127)]) defaultPref (emptyTag s) = true ∧
    (serialize s).isSome = true := by
  refine ⟨by decide, by decide, by decide, by decide, by decide, by decide⟩

/-- a document with re-bound prefixes, two prefixes for one URI, an undeclared
    default namespace and an unbound attribute namespace is inside the hypothesis -/
example : docOK (emptyTag
    [.startNs [] ['u'], .startNs ['q'] ['u'], .start ⟨['u'], ['a']⟩ [(⟨['u'], ['x']⟩, ['1'])],
     .startNs ['q'] ['v'], .startNs [] noneUri, .start ⟨[], ['b']⟩ [(⟨['w'], ['y']⟩, ['2'])],
     .text ['t'] false, .end_ ⟨[], ['b']⟩, .endNs [], .endNs ['q'],
     .start ⟨['v'], ['c']⟩ [], .end_ ⟨['v'], ['c']⟩,
     .end_ ⟨['u'], ['a']⟩, .endNs ['q'], .endNs []]) = true := by decide

/-- so is a builder stream: qualified names, no namespace events -/
example : docOK (emptyTag
    [.start ⟨['u'], ['a']⟩ [(⟨['v'], ['x']⟩, ['1'])], .start ⟨[], ['d']⟩ [], .end_ ⟨[], ['d']⟩,
     .start ⟨['v'], ['e']⟩ [], .text ['t'] false, .end_ ⟨['v'], ['e']⟩, .end_ ⟨['u'], ['a']⟩]) = true := by decide

/-- Outside the hypothesis, with witness: an element without namespace inside the
    scope of an *explicit* non-empty default namespace declaration is left there
    (the flattener writes `xmlns=""` only against default namespaces it made up
    itself; template output relies on this), so it is read back in that
    namespace.  The parser never produces such a stream. -/
theorem explicit_default_not_undeclared :
    let s : Stream := [.startNs [] ['u'], .start ⟨['u'], ['a']⟩ [], .start ⟨[], ['b']⟩ [],
                       .end_ ⟨[], ['b']⟩, .end_ ⟨['u'], ['a']⟩, .endNs []]
    docOK (emptyTag s) = false ∧
    resolve ((flatten defaultPref (emptyTag s)).map normF) =
      some [.start ⟨['u'], ['a']⟩ [], .start ⟨['u'], ['b']⟩ [], .end_ ⟨['u'], ['b']⟩, .end_ ⟨['u'], ['a']⟩] := by
  refine ⟨by decide, by decide⟩

/-- **encode_roundtrip (text).**  For every string of XML characters and every
    encoding (any set of representable characters that contains ASCII): escaping
    as the serializer does for text, then `xmlcharrefreplace`, is read back by an
    XML reader as the original string — unrepresentable characters come back as
    the same scalar through their character reference. -/
theorem encode_roundtrip_text (rep : Char → Bool) (hr : AsciiRep rep) (s : Str)
    (hx : s.all isXmlChar = true) :
    decodeText (encodeText rep (escapePy false s)) = some s := by
  rw [escapePy_eq_spec]
  exact decodeGo_encode_escape rep hr false false s hx (fun h => by cases h)

/-- **encode_roundtrip (attribute values)**, outside TAB/LF/CR (which XML
    normalises to a space and the serializer does not write as references). -/
theorem encode_roundtrip_attr (rep : Char → Bool) (hr : AsciiRep rep) (s : Str)
    (hx : s.all isXmlChar = true) (hws : ∀ c ∈ s, c ≠ '\t' ∧ c ≠ '\n' ∧ c ≠ '\r') :
    decodeAttr (encodeText rep (escapePy true s)) = some s := by
  rw [escapePy_eq_spec]
  exact decodeGo_encode_escape rep hr true true s hx (fun _ => hws)

/-- **encode, for every output encoding of the table.**  For each codec the
    translator probed (`Genshi.Gen.Xml.encodings`: the set of scalar values the
    codec's own encoder accepts) and every string of XML characters, what
    `encode` makes of escaped character data with `xmlcharrefreplace`
      * lies inside the codec's repertoire (the codec cannot refuse it),
      * has every character the codec has as itself and every character it
        lacks as `&#N;` with `N` the scalar value in decimal,
      * and is read back by an XML reader as the original string;
    the same for attribute values outside TAB/LF/CR. -/
theorem encode_every_codec :
    ∀ e ∈ Genshi.Gen.Xml.encodings, ∀ s : Str, s.all isXmlChar = true →
      (encodeText (inRanges e.2) (escapePy false s)).all (inRanges e.2) = true ∧
      (∀ c : Char, inRanges e.2 c = false →
        encodeText (inRanges e.2) [c] = '&' :: '#' :: dec c.toNat ++ [';']) ∧
      (∀ c : Char, inRanges e.2 c = true → encodeText (inRanges e.2) [c] = [c]) ∧
      decodeText (encodeText (inRanges e.2) (escapePy false s)) = some s ∧
      ((∀ c ∈ s, c ≠ '\t' ∧ c ≠ '\n' ∧ c ≠ '\r') →
        decodeAttr (encodeText (inRanges e.2) (escapePy true s)) = some s) := by
  intro e he s hx
  have hr := extracted_codecs_ascii e he
  refine ⟨encodeText_all_rep _ hr _, fun c hc => encodeText_unrep _ c hc,
    fun c hc => by simp [encodeText, hc], encode_roundtrip_text _ hr s hx,
    fun hws => encode_roundtrip_attr _ hr s hx hws⟩

/-- the euro sign under three codecs of the table: latin-1 lacks it, cp1252 and
    iso-8859-15 have it; Cyrillic under koi8-r -/
example :
    (Genshi.Gen.Xml.encodings.lookup ['l','a','t','i','n','-','1']).map (fun r => encodeText (inRanges r) [Char.ofNat 0x20AC]) =
      some ['&','#','8','3','6','4',';'] ∧
    (Genshi.Gen.Xml.encodings.lookup ['c','p','1','2','5','2']).map (fun r => encodeText (inRanges r) [Char.ofNat 0x20AC]) =
      some [Char.ofNat 0x20AC] ∧
    (Genshi.Gen.Xml.encodings.lookup ['i','s','o','-','8','8','5','9','-','1','5']).map
        (fun r => encodeText (inRanges r) [Char.ofNat 0x20AC, Char.ofNat 0xA4]) =
      some [Char.ofNat 0x20AC, '&','#','1','6','4',';'] ∧
    (Genshi.Gen.Xml.encodings.lookup ['k','o','i','8','-','r']).map
        (fun r => encodeText (inRanges r) [Char.ofNat 0x416, Char.ofNat 0xE9]) =
      some [Char.ofNat 0x416, '&','#','2','3','3',';'] := by
  refine ⟨by decide, by decide, by decide, by decide⟩

/-- A character reference is read back as the same scalar, in both modes. -/
theorem charref_roundtrip (attr : Bool) (c : Char) (hx : isXmlChar c = true) (rest : Str) :
    decodeGo attr none (charRef c ++ rest) = (decodeGo attr none rest).map (c :: ·) :=
  decodeGo_charRef attr c hx rest

example : decodeText (encodeText (fun c => c.toNat < 128) (escapePy false ['a', '<', 'é', '&', '😀'])) =
    some ['a', '<', 'é', '&', '😀'] :=
  encode_roundtrip_text _ (fun _ h => by simpa using h) _ (by decide)

example : encodeText (fun c => c.toNat < 128) (escapePy false ['<', 'é']) =
    ['&', 'l', 't', ';', '&', '#', '2', '3', '3', ';'] := by decide

/-- Domain exclusion, with witness: TAB / LF / CR in an attribute value are
    written literally and an XML reader turns them into a space. -/
theorem attr_tab_lf_cr_not_recovered :
    decodeAttr (escapePy true ['a', '\t', 'b']) = some ['a', ' ', 'b'] ∧
    decodeAttr (escapePy true ['\n']) = some [' '] ∧
    decodeAttr (escapePy true ['\r']) = some [' '] := by
  refine ⟨by decide, by decide, by decide⟩

/-- Domain exclusion, with witness: CR in text is written literally and an XML
    reader reports it as LF. -/
theorem text_cr_not_recovered :
    (normEol (escapePy false ['a', '\r', 'b'])) = ['a', '\n', 'b'] := by decide

/-- Known finding `C02-decl-encoding-echo`, model side: the serializer writes the
    declaration of the source whatever encoding `encode` is then asked for, and a
    character the codec has is written raw — under latin-1 the bytes say
    `encoding="utf-8"` and hold a lone 0xE9.  (The theorems above are about the
    text as the codec's own decoder returns it.) -/
theorem decl_encoding_echoed :
    (serialize [.xmlDecl ['1', '.', '0'] (some ['u', 't', 'f', '-', '8']) (-1),
                .start ⟨[], ['a']⟩ [], .text [Char.ofNat 233] false, .end_ ⟨[], ['a']⟩]).map
      (encodeText (inRanges [(0, 255)])) =
    some ['<', '?', 'x', 'm', 'l', ' ', 'v', 'e', 'r', 's', 'i', 'o', 'n', '=', '"', '1', '.', '0', '"', ' ', 'e', 'n', 'c', 'o', 'd', 'i', 'n', 'g', '=', '"', 'u', 't', 'f', '-', '8', '"', '?', '>', '\n', '<', 'a', '>', (Char.ofNat 233), '<', '/', 'a', '>'] := by decide

/-! ### adjacent CDATA sections (the seam rule)

Character data that contains `]]>` can be written as CDATA in one way only:
split over two sections that directly follow each other
(`<![CDATA[a]]]]><![CDATA[>b]]>`).  A parser reports two sections; the
serializer writes text inside a section verbatim, so the two pieces must never
be joined. -/

/-- the stream `<a><![CDATA[x]]><![CDATA[y]]></a>` is parsed into -/
def twoSections (x y : Str) : Stream :=
  [.start ⟨[], ['a']⟩ [], .startCdata, .text x false, .endCdata,
   .startCdata, .text y false, .endCdata, .end_ ⟨[], ['a']⟩]

/-- **The parser layer keeps the seams of character data.**  `_coalesce` joins
    TEXT with TEXT only: for all streams `a`, `b` an END_CDATA directly followed
    by a START_CDATA stays where it is and the text on its two sides is
    coalesced separately; more generally no event other than TEXT is dropped,
    added, moved or merged (`nonText`), and the character data between two such
    events is the concatenation of what was there (`runs`). -/
theorem parser_keeps_cdata_seam :
    (∀ a b : Stream, coalesce (a ++ .endCdata :: .startCdata :: b) =
        coalesce a ++ .endCdata :: .startCdata :: coalesce b) ∧
    (∀ (a b : Stream) (e : Event), isText e = false → coalesce (a ++ e :: b) = coalesce a ++ e :: coalesce b) ∧
    (∀ s : Stream, nonText (coalesce s) = nonText s) ∧
    (∀ s : Stream, runs (coalesce s) = runs s) :=
  ⟨coalesce_cdata_seam, coalesce_append_nontext, nonText_coalesce, runs_coalesce⟩

/-- expat's callbacks for `<a>p<![CDATA[x]]]]><![CDATA[>]]><![CDATA[]]>y&amp;z</a>` (character data arrives in
    pieces) through `_handle_*` and `_coalesce`: three sections, the seam `]]` | `>` kept -/
example :
    coalesce (runCbs (fun _ => none)
      [.startEl ['a'] [], .data ['p'], .startCdata, .data ['x'], .data [']', ']'], .endCdata,
       .startCdata, .data ['>'], .endCdata, .startCdata, .endCdata, .data ['y'], .data ['&'], .data ['z'],
       .endEl ['a']]).1 =
    [.start ⟨[], ['a']⟩ [], .text ['p'] false, .startCdata, .text ['x', ']', ']'] false, .endCdata,
     .startCdata, .text ['>'] false, .endCdata, .startCdata, .endCdata, .text ['y', '&', 'z'] false,
     .end_ ⟨[], ['a']⟩] := by decide

/-- **xml_roundtrip covers adjacent CDATA sections**: for ALL section texts `x`,
    `y` that CDATA can hold (`cdataOK`: XML characters, no CR, no `]]>` — `x`
    may well end in `]]` and `y` start with `>`) and that the encoding can
    represent, the document `<a><![CDATA[x]]><![CDATA[y]]></a>` as parsed
    (two sections) is inside the hypotheses of `xml_roundtrip`, and the reader
    gets two sections with the same texts back from the serializer's output. -/
theorem xml_roundtrip_adjacent_cdata (rep : Char → Bool) (hr : AsciiRep rep) (x y : Str)
    (hx : cdataOK x = true) (hy : cdataOK y = true) (hx0 : x ≠ []) (hy0 : y ≠ [])
    (hxr : x.all rep = true) (hyr : y.all rep = true) :
    ∃ out, serRun SerSt.init (flatten defaultPref (emptyTag (twoSections x y))) = some out ∧
      Reader.read (encodeText rep out) =
        some [.start ⟨[], ['a']⟩ [], .startCdata, .text x, .endCdata,
              .startCdata, .text y, .endCdata, .end_ ⟨[], ['a']⟩] := by
  have hn : WellNested (twoSections x y) := by simp [WellNested, twoSections, balance]
  have hd : docOK (emptyTag (twoSections x y)) = true := by
    simp [twoSections, emptyTag, emptyTagGo, docOK, docGo, ckStep, ckStartLike, CkSt.init, tagOK, attrsOK,
      locOK, nsOK, nodupKeys]
    decide
  have fx : flushF x = [.other (.text x false)] := by cases x <;> simp_all [flushF]
  have fy : flushF y = [.other (.text y false)] := by cases y <;> simp_all [flushF]
  have ex : x.isEmpty = false := by cases x <;> simp_all
  have ey : y.isEmpty = false := by cases y <;> simp_all
  have ra : rep 'a' = true := hr _ (by decide)
  have rx : rep 'x' = true := hr _ (by decide)
  have rm : rep 'm' = true := hr _ (by decide)
  have rl : rep 'l' = true := hr _ (by decide)
  have hp : prefTxt rep defaultPref = true := by
    simp [prefTxt, defaultPref, Genshi.Gen.Xml.flattenerInitial, prefixTxt, nameTxt, rx, rm, rl]
    decide
  have hq : qnameTxt rep ⟨[], ['a']⟩ = true := by
    simp [qnameTxt, nameTxt, uriTxt, ra]
    decide
  have hv : validName ['x'] = true := by decide
  have ht : inputTextOKm rep defaultPref (emptyTag (twoSections x y)) = true := by
    simp [twoSections, emptyTag, emptyTagGo, inputTextOKm, skeleton, mergeF, mergeFGo, docTextOK, contentOK,
      repMarkup, repMarkupGo, evTxt, noSafeText, hx, hy, ex, ey, fx, fy, hxr, hyr, dummyName, flatAttrsOK,
      hp, hq, hv, rx, attrsTxt]
  obtain ⟨out, h1, h2⟩ := xml_roundtrip defaultPref default_pref_ok rep hr _ hn hd ht
  refine ⟨out, h1, ?_⟩
  rw [h2]
  simp [twoSections, canonS, canonEv, mergeR, mergeRGo, flushR, hx0, hy0]

/-- a seam that spells `]]>` is inside the hypotheses and comes back as written -/
example :
    let s := twoSections ['a', ']', ']'] ['>', 'b']
    WellNested s ∧ docOK (emptyTag s) = true ∧ inputTextOKm (inRanges [(0, 127)]) defaultPref (emptyTag s) = true ∧
    serialize s = some ['<','a','>','<','!','[','C','D','A','T','A','[','a',']',']',']',']','>',
                        '<','!','[','C','D','A','T','A','[','>','b',']',']','>','<','/','a','>'] := by
  refine ⟨by decide, by decide, by decide, by decide⟩

/-- **Witness: joining the two sections is what must not happen.**  The stream
    with ONE section holding `a]]>b` (what a parser layer that merged directly
    adjacent sections would deliver for `<a><![CDATA[a]]]]><![CDATA[>b]]></a>`)
    is outside `inputTextOKm` (no CDATA section can hold `]]>`), the serializer
    writes it verbatim and the reader rejects the output. -/
theorem merged_cdata_seam_not_wellformed :
    let s : Stream := [.start ⟨[], ['a']⟩ [], .startCdata, .text ['a', ']', ']', '>', 'b'] false, .endCdata,
                       .end_ ⟨[], ['a']⟩]
    docOK (emptyTag s) = true ∧ inputTextOKm (fun _ => true) defaultPref (emptyTag s) = false ∧
    (serialize s).bind Reader.read = none ∧
    coalesce (twoSections ['a', ']', ']'] ['>', 'b']) = twoSections ['a', ']', ']'] ['>', 'b'] := by
  refine ⟨by decide, by decide, by decide, by decide⟩

/-! ### the parser on source documents, `ET()` -/

/-- **`parseSource` and `parseText` agree wherever no start tag is directly
    followed by an end tag.**  `parseText` (the parser as the idempotence
    theorems see it) reads `<a></a>` as START, END; the real parser chain
    (expat, then `EmptyTagFilter`) reads it as EMPTY, like `<a/>`; `parseSource`
    does so too and is the function compared with the real `XMLParser` +
    `EmptyTagFilter` on serializer output AND on source documents (streams
    `reparse`, `reparse-source`). -/
theorem parse_source_agrees (t : Str) (toks : List FEv) (h : Reader.tokenize t = some toks)
    (hn : noStartEnd (dropTopWs 0 toks) = true) : parseSource t = parseText t :=
  parseSource_eq_parseText t toks h hn

/-- non-vacuity: a source document with single quotes, a reference, CDATA and an empty-element tag -/
example :
    let t : Str := ['<','a',' ','x','=','\'','1','\'','>','&','#','6','0',';','<','b','/','>','<','!','[','C','D','A','T','A','[','c',']',']','>','<','/','a','>']
    (Reader.tokenize t).isSome = true ∧ parseSource t = parseText t ∧
    parseSource t = some [.ev (.start ⟨[], ['a']⟩ [(⟨[], ['x']⟩, ['1'])]), .ev (.text ['<'] false), .empty ⟨[], ['b']⟩ [],
                          .ev .startCdata, .ev (.text ['c'] false), .ev .endCdata, .ev (.end_ ⟨[], ['a']⟩)] := by
  refine ⟨by decide, by decide, by decide⟩

/-- **Witness: where they differ, idempotence is lost.**  A builder stream whose
    only child is the empty string (`tag.a('')`) is serialised as `<a></a>`; the
    real parser chain reads that as EMPTY (`parseSource`; `parseText` does not)
    and the second serialisation is `<a/>`.  So `ser_idempotent_builder`, stated
    with `parseText`, says nothing true of the real code for an element whose
    content is empty TEXT events only: XML has no empty text node, the oracle
    keeps such trees out (`tree_in_domain`), the real code behaves as this
    witness says. -/
theorem empty_text_child_not_idempotent :
    let s : Stream := [.start ⟨[], ['a']⟩ [], .text [] false, .end_ ⟨[], ['a']⟩]
    docOK (emptyTag s) = true ∧ builderShaped (emptyTag s) = true ∧
    serialize s = some ['<','a','>','<','/','a','>'] ∧
    parseText ['<','a','>','<','/','a','>'] = some [.ev (.start ⟨[], ['a']⟩ []), .ev (.end_ ⟨[], ['a']⟩)] ∧
    parseSource ['<','a','>','<','/','a','>'] = some [.empty ⟨[], ['a']⟩ []] ∧
    serRun SerSt.init (flatten defaultPref [.empty ⟨[], ['a']⟩ []]) = some ['<','a','/','>'] := by
  refine ⟨by decide, by decide, by decide, by decide, by decide, by decide⟩

/-- **`ET(element)` delivers a well-nested builder-shaped stream** for every
    ElementTree element (any tags, attribute names, texts, tails, nesting): no
    namespace events, start and end tags balanced — so on `docOK ∧ inputTextOKm`
    the theorems for builder streams (`xml_roundtrip`, `ser_idempotent_builder`)
    apply to it as they do to `genshi.builder` output. -/
theorem et_stream_builder_shaped (t : ETree) :
    WellNested (etStream t) ∧ builderShaped (emptyTag (etStream t)) = true :=
  ⟨wellNested_etStream t, builderShaped_etStream t⟩

/-- `ET` of `<{u}a x="1">t<b/>tail</{u}a>`: inside the hypotheses of `xml_roundtrip` -/
example :
    let s := etStream (.node ['{','u','}','a'] [(['x'], ['1'])] (some ['t']) [.node ['b'] [] none [] (some ['w'])] none)
    s = [.start ⟨['u'], ['a']⟩ [(⟨[], ['x']⟩, ['1'])], .text ['t'] false, .start ⟨[], ['b']⟩ [], .end_ ⟨[], ['b']⟩,
         .text ['w'] false, .end_ ⟨['u'], ['a']⟩] ∧
    docOK (emptyTag s) = true ∧ inputTextOKm (inRanges [(0, 127)]) defaultPref (emptyTag s) = true := by
  refine ⟨by decide, by decide, by decide⟩

/-- **ser_idempotent for builder streams through the real parser chain**
    (`parseSource`: `<a></a>` is read as EMPTY, as expat + `EmptyTagFilter` do).
    Same hypotheses as `ser_idempotent_builder` plus the decidable side
    condition `noStartEndX (mergeX (emptyTag s))`: once adjacent TEXT events are
    merged and empty ones dropped, no START is followed by its END with nothing
    between them — i.e. no element's content consists of empty TEXT events only
    (an element without children is EMPTY after `EmptyTagFilter` and is fine).
    Then `ser (parseSource (encode (ser s))) = ser s`.  The side condition
    cannot be dropped: `empty_text_child_not_idempotent`. -/
theorem ser_idempotent_builder_source (pref : List (Str × Str)) (hpref : prefOK pref = true)
    (rep : Char → Bool) (hr : AsciiRep rep) (s : Stream)
    (h : docOK (emptyTag s) = true) (hb : builderShaped (emptyTag s) = true)
    (ht : inputTextOKm rep pref (emptyTag s) = true)
    (hne : noStartEndX (mergeX (emptyTag s)) = true) :
    ∃ out, serRun SerSt.init (flatten pref (emptyTag s)) = some out ∧
      ∃ xs2, parseSource (encodeText rep out) = some xs2 ∧
        serRun SerSt.init (flatten pref xs2) = some out :=
  idem_text_builder_source pref hpref rep hr _ h hb ht hne

/-- **… and for parser-shaped streams** (`idemOK`, `inputTextOK`): the same
    conclusion with `parseSource`, side condition `noStartEndX (emptyTag s)`
    (START and END with nothing but namespace events between them do not
    occur; `EmptyTagFilter` guarantees it for what it is given by a parser,
    where TEXT events are never empty). -/
theorem ser_idempotent_parsed_text_source (pref : List (Str × Str)) (hpref : prefOK pref = true)
    (rep : Char → Bool) (hr : AsciiRep rep) (s : Stream)
    (h : docOK (emptyTag s) = true) (hi : idemOK pref (emptyTag s) = true)
    (ht : inputTextOK rep pref (emptyTag s) = true)
    (hne : noStartEndX (emptyTag s) = true) :
    ∃ out, serRun SerSt.init (flatten pref (emptyTag s)) = some out ∧
      ∃ xs2, parseSource (encodeText rep out) = some xs2 ∧
        serRun SerSt.init (flatten pref xs2) = some out :=
  idem_text_parsed_source pref hpref rep hr _ h hi ht hne

/-- the builder tree of the example above (two namespaces, made-up prefixes, `xmlns=""`, adjacent and empty
    strings beside real ones) satisfies the side condition; `tag.a('')` does not -/
example :
    let s : Stream :=
      [.start ⟨['u'], ['a']⟩ [(⟨['v'], ['x']⟩, ['1']), (⟨['u'], ['y']⟩, ['2'])],
       .text ['t'] false, .text [] false, .text ['&'] false,
       .start ⟨[], ['d']⟩ [], .start ⟨['u'], ['e']⟩ [(⟨['v'], ['z']⟩, ['3'])], .end_ ⟨['u'], ['e']⟩, .end_ ⟨[], ['d']⟩,
       .end_ ⟨['u'], ['a']⟩]
    docOK (emptyTag s) = true ∧ builderShaped (emptyTag s) = true ∧
    inputTextOKm (inRanges [(0, 127)]) defaultPref (emptyTag s) = true ∧
    noStartEndX (mergeX (emptyTag s)) = true ∧
    noStartEndX (mergeX (emptyTag [.start ⟨[], ['a']⟩ [], .text [] false, .end_ ⟨[], ['a']⟩])) = false := by
  refine ⟨by decide, by decide, by decide, by decide, by decide⟩

/-- a parsed document with declarations (namespace events between the tags) satisfies it -/
example : noStartEndX (emptyTag
    [.startNs [] ['u'], .start ⟨['u'], ['a']⟩ [], .startNs ['q'] ['v'], .start ⟨['v'], ['b']⟩ [], .end_ ⟨['v'], ['b']⟩,
     .endNs ['q'], .text ['t'] false, .end_ ⟨['u'], ['a']⟩, .endNs []]) = true := by decide

/-- **What `XMLParser` delivers, whatever expat calls** (any callback sequence,
    any entity table): no two TEXT events in a row, no `Markup` text (the
    `noSafeText` clause of `inputTextOKm`), and the events other than TEXT are
    exactly those the `_handle_*` callbacks enqueued, in order — `_coalesce`
    touches character data only. -/
theorem parser_layer_stream_shape (entity : Str → Option Char) (cbs : List Cb) :
    NoAdjText (parseCbs entity cbs).1 ∧ (parseCbs entity cbs).1.all plainText = true ∧
    nonText (parseCbs entity cbs).1 = nonText (runCbs entity cbs).1 :=
  parseCbs_shape entity cbs

/-- an undefined entity ends the parse after the events enqueued so far (`false`), a defined one becomes text
    that is coalesced with its neighbours -/
example :
    parseCbs (fun n => if n = ['n','b','s','p'] then some (Char.ofNat 160) else none)
      [.startEl ['a'] [], .data ['x'], .other ['&','n','b','s','p',';'], .data ['y'], .other ['&','z',';'], .data ['w']] =
    ([.start ⟨[], ['a']⟩ [], .text ['x', Char.ofNat 160, 'y'] false], false) := by decide

end Genshi.Props.C02

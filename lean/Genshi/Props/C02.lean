/-
  C02 — XML serialisation is a right inverse of XML parsing.  Property theorems
  only; helper lemmas live in `Genshi/Lemmas/Xml*.lean`.

  OBLIGATIONS (checked against the axiom audit by the harness):
    gen_tables_as_modelled extracted_codecs_ascii
    encode_roundtrip_text encode_roundtrip_attr charref_roundtrip
    attr_tab_lf_cr_not_recovered text_cr_not_recovered
-/
import Genshi.Lemmas.XmlRefs
import Genshi.Model.XmlParser
namespace Genshi.Props.C02
open Genshi Genshi.Xml Genshi.Escape Genshi.Xml.Reader

/-- The tables read from the code are the ones the model was written against:
    the permanent `xml` binding, the filter chain of the XML serializer without
    whitespace stripping, and `xmlcharrefreplace` as the error handler. -/
theorem gen_tables_as_modelled :
    Genshi.Gen.Xml.flattenerInitial = [(xmlNs, xmlPrefix)] ∧
    Genshi.Gen.Xml.xmlFilters =
      [['E','m','p','t','y','T','a','g','F','i','l','t','e','r'],
       ['N','a','m','e','s','p','a','c','e','F','l','a','t','t','e','n','e','r']] ∧
    Genshi.Gen.Xml.encodeProbe = charRef (Char.ofNat 0x20AC) := by
  refine ⟨by decide, by decide, by decide⟩

/-- Every codec of the property (as extracted from the running interpreter)
    represents all of ASCII, which is what the encoding theorems assume. -/
theorem extracted_codecs_ascii :
    ∀ e ∈ Genshi.Gen.Xml.encodings, AsciiRep (inRanges e.2) := by
  intro e he c hc
  simp only [Genshi.Gen.Xml.encodings, List.mem_cons, List.mem_nil_iff, or_false] at he
  rcases he with rfl | rfl | rfl | rfl <;> simp [inRanges] <;> omega

/-- **encode_roundtrip (text).**  For every string of XML characters and every
    encoding (any set of representable characters that contains ASCII): escaping
    as the serializer does for text, then `xmlcharrefreplace`, is read back by an
    XML reader as the original string — unrepresentable characters come back as
    the same scalar through their character reference. -/
theorem encode_roundtrip_text (rep : Char → Bool) (hr : AsciiRep rep) (s : Str)
    (hx : s.all isXmlChar = true) :
    decodeText (encodeText rep (escapePy false s)) = some s := by
  rw [escapePy_eq_spec]
  exact decodeGo_encode_escape rep hr false false s hx (fun h => by cases h)

/-- **encode_roundtrip (attribute values)**, outside TAB/LF/CR (which XML
    normalises to a space and the serializer does not write as references). -/
theorem encode_roundtrip_attr (rep : Char → Bool) (hr : AsciiRep rep) (s : Str)
    (hx : s.all isXmlChar = true) (hws : ∀ c ∈ s, c ≠ '\t' ∧ c ≠ '\n' ∧ c ≠ '\r') :
    decodeAttr (encodeText rep (escapePy true s)) = some s := by
  rw [escapePy_eq_spec]
  exact decodeGo_encode_escape rep hr true true s hx (fun _ => hws)

/-- A character reference is read back as the same scalar, in both modes. -/
theorem charref_roundtrip (attr : Bool) (c : Char) (hx : isXmlChar c = true) (rest : Str) :
    decodeGo attr none (charRef c ++ rest) = (decodeGo attr none rest).map (c :: ·) :=
  decodeGo_charRef attr c hx rest

example : decodeText (encodeText (fun c => c.toNat < 128) (escapePy false ['a', '<', 'é', '&', '😀'])) =
    some ['a', '<', 'é', '&', '😀'] :=
  encode_roundtrip_text _ (fun _ h => by simpa using h) _ (by decide)

example : encodeText (fun c => c.toNat < 128) (escapePy false ['<', 'é']) =
    ['&', 'l', 't', ';', '&', '#', '2', '3', '3', ';'] := by decide

/-- Domain exclusion, with witness: TAB / LF / CR in an attribute value are
    written literally and an XML reader turns them into a space. -/
theorem attr_tab_lf_cr_not_recovered :
    decodeAttr (escapePy true ['a', '\t', 'b']) = some ['a', ' ', 'b'] ∧
    decodeAttr (escapePy true ['\n']) = some [' '] ∧
    decodeAttr (escapePy true ['\r']) = some [' '] := by
  refine ⟨by decide, by decide, by decide⟩

/-- Domain exclusion, with witness: CR in text is written literally and an XML
    reader reports it as LF. -/
theorem text_cr_not_recovered :
    (normEol (escapePy false ['a', '\r', 'b'])) = ['a', '\n', 'b'] := by decide

end Genshi.Props.C02

/-
  C02 — XML serialisation is a right inverse of XML parsing.  Property theorems
  only; helper lemmas live in `Genshi/Lemmas/Xml*.lean`.

  OBLIGATIONS (checked against the axiom audit by the harness):
    gen_tables_as_modelled
-/
import Genshi.Model.XmlSer
import Genshi.Model.XmlReader
import Genshi.Model.XmlParser
namespace Genshi.Props.C02
open Genshi Genshi.Xml

/-- The tables read from the code are the ones the model was written against:
    the permanent `xml` binding, the filter chain of the XML serializer without
    whitespace stripping, and `xmlcharrefreplace` as the error handler. -/
theorem gen_tables_as_modelled :
    Genshi.Gen.Xml.flattenerInitial = [(xmlNs, xmlPrefix)] ∧
    Genshi.Gen.Xml.xmlFilters =
      [['E','m','p','t','y','T','a','g','F','i','l','t','e','r'],
       ['N','a','m','e','s','p','a','c','e','F','l','a','t','t','e','n','e','r']] ∧
    Genshi.Gen.Xml.encodeProbe = charRef (Char.ofNat 0x20AC) := by
  refine ⟨by decide, by decide, by decide⟩

end Genshi.Props.C02

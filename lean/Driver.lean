import Driver.Main

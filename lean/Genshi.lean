import Genshi.Wire
import Genshi.Model.Str
import Genshi.Model.Escape
import Genshi.Gen.Output
import Genshi.Gen.Sanitizer
import Genshi.Lemmas.Escape
import Genshi.Props.C18

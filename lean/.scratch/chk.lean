import Genshi.Lemmas.PyParseSeq

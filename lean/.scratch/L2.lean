import Genshi.Model.PyParse
namespace Genshi.Py
open Genshi.Gen

def closersD : List Tok := [tRP, tRB, tRC, tComma, tColon, kw cs!"for", kw cs!"async", kw cs!"if", kw cs!"else"]

def closedD : List Tok → Bool
  | [] => true
  | t :: _ => closersD.contains t

theorem closer_elim (t : Tok) (h : closersD.contains t = true) :
    t = tRP ∨ t = tRB ∨ t = tRC ∨ t = tComma ∨ t = tColon ∨ t = kw cs!"for" ∨ t = kw cs!"async"
      ∨ t = kw cs!"if" ∨ t = kw cs!"else" := by
  simpa [closersD] using h

theorem cmpOp_closer (t : Tok) (r : List Tok) (h : closersD.contains t = true) : cmpOp? (t :: r) = none := by
  rcases closer_elim t h with rfl | rfl | rfl | rfl | rfl | rfl | rfl | rfl | rfl <;>
    (cases r with
     | nil => rfl
     | cons t2 r2 => cases t2 <;> simp [cmpOp?, tokText, cmpFind, Astgrammar.cmpOps, tRP, tRB, tRC, tComma, tColon, kw])

theorem cmpl_stop (k : Knot) (l : PyExpr) (rest : List Tok) (h : closedD rest = true) :
    cmplF k l [] rest = some (l, rest) := by
  cases rest with
  | nil => rfl
  | cons t r => simp [cmplF, cmpOp_closer t r h]

end Genshi.Py

import Genshi.Props.C13
#print axioms Genshi.Props.C13.parse_gen
#print axioms Genshi.Props.C13.supported_accepted

import Genshi.Model.PyEval
namespace Genshi.Py
variable {V E : Type} (σ : Sem V E) (look : Look V E)

example (l r : PyExpr) (op : Str) (env : Env V) :
    eval σ look (.binOp l op r) env = (do let a ← eval σ look l env; let b ← eval σ look r env; σ.binop op a b) := by
  rw [eval]

example (id : Str) (env : Env V) (h : env.find id = none) : eval σ look (.name id) env = look.free id := by
  simp [eval, h]

example (e : PyExpr) (rest : List PyExpr) (env : Env V) (h : ∀ y, e ≠ .starred y) :
    evalArgs σ look (e :: rest) env = (do let x ← eval σ look e env; let xs ← evalArgs σ look rest env; .ok ((false, x) :: xs)) := by
  rw [evalArgs]
  intro y hy; exact h y hy
end Genshi.Py

import Genshi.Model.PyParse
namespace Genshi.Py
open Genshi.Gen

@[simp] theorem knot_expr (n : Nat) : (knot (n+1)).expr = exprF (knot n) := rfl
@[simp] theorem knot_trailers (n : Nat) : (knot (n+1)).trailers = trailersF (knot n) := rfl
@[simp] theorem knot_binl (n : Nat) : (knot (n+1)).binl = binlF (knot n) := rfl

def closersD : List Tok := [tRP, tRB, tRC, tComma, tColon, kw cs!"for", kw cs!"async", kw cs!"if", kw cs!"else"]

def closedD : List Tok → Bool
  | [] => true
  | t :: _ => closersD.contains t

theorem binl_stop (k : Knot) (lvl : Nat) (lhs : PyExpr) (rest : List Tok) (h : closedD rest = true) :
    binlF k lvl lhs rest = some (lhs, rest) := by
  cases rest with
  | nil => rfl
  | cons t r =>
    simp [closedD, closersD] at h
    rcases h with rfl | rfl | rfl | rfl | rfl | rfl | rfl | rfl | rfl <;> rfl

theorem trailers_stop (k : Knot) (e : PyExpr) (rest : List Tok) (h : closedD rest = true) :
    trailersF k e rest = some (e, rest) := by
  cases rest with
  | nil => rfl
  | cons t r =>
    simp [closedD, closersD] at h
    rcases h with rfl | rfl | rfl | rfl | rfl | rfl | rfl | rfl | rfl <;> rfl

theorem primary_name (k : Knot) (s : Str) (h : isKeyword s = false) (rest : List Tok) :
    primaryF k (.name s :: rest) = k.trailers (.name s) rest := by
  have h1 : s ≠ cs!"True" := by intro e; subst e; revert h; decide
  have h2 : s ≠ cs!"False" := by intro e; subst e; revert h; decide
  have h3 : s ≠ cs!"None" := by intro e; subst e; revert h; decide
  simp [primaryF, atomF, h, h1, h2, h3]

end Genshi.Py

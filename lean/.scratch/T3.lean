import Genshi.Model.PyParse
open Genshi.Py Genshi.Gen

def ex1 : PyExpr := .binOp (.unaryOp cs!"USub" (.const ⟨.int, ['2']⟩)) cs!"Pow" (.const ⟨.int, ['2']⟩)
#eval gen ex1
#eval pyParse (gen ex1)
example : pyParse (gen ex1) = some ex1 := by decide
example : pyParse (gen ex1) = some ex1 := rfl

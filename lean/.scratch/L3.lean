import Genshi.Lemmas.PyParseLoops
namespace Genshi.Py
open Genshi.Gen

theorem cmp_words_ok : ∀ p ∈ AstGen.comparisonOperators, cmpFind (splitBlank p.2) Astgrammar.cmpOps = some p.1 := by decide

theorem cmpFind_mem {ws : List Str} {cls : Str} {tbl : List (List Str × Str)} (h : cmpFind ws tbl = some cls) :
    (ws, cls) ∈ tbl := by
  induction tbl with
  | nil => simp [cmpFind] at h
  | cons p r ih =>
    obtain ⟨a, b⟩ := p
    simp only [cmpFind] at h
    split at h
    · rename_i heq; cases h; subst heq; simp
    · simp [ih h]

theorem atomStart_name_ne {s : Str} (h : atomStart (.name s) = true) (k : Str) (hk : isKeyword k = true)
    (h1 : k ≠ cs!"True") (h2 : k ≠ cs!"False") (h3 : k ≠ cs!"None") : s ≠ k := by
  intro e; subst e
  simp [atomStart, hk, h1, h2, h3] at h

theorem cmpOp_words (ws : List Str) (cls : Str) (h : cmpFind ws Astgrammar.cmpOps = some cls)
    (r : List Tok) (hr : headOK r = true) :
    cmpOp? (ws.map wordTok ++ r) = some (cls, r) ∧ stopsTrailer (ws.map wordTok ++ r) = true
      ∧ stopsPow (ws.map wordTok ++ r) = true ∧ stopsBin (ws.map wordTok ++ r) = true := by
  have hm := cmpFind_mem h
  obtain ⟨t, r', rfl⟩ : ∃ t r', r = t :: r' := by
    cases r with
    | nil => simp [headOK] at hr
    | cons t r' => exact ⟨t, r', rfl⟩
  simp only [headOK] at hr
  simp only [Astgrammar.cmpOps, List.mem_cons, Prod.mk.injEq, List.mem_nil_iff, or_false] at hm
  rcases hm with ⟨rfl, rfl⟩ | ⟨rfl, rfl⟩ | ⟨rfl, rfl⟩ | ⟨rfl, rfl⟩ | ⟨rfl, rfl⟩ | ⟨rfl, rfl⟩ | ⟨rfl, rfl⟩ | ⟨rfl, rfl⟩ | ⟨rfl, rfl⟩ | ⟨rfl, rfl⟩ <;>
    (cases t with
     | name s =>
        have hn := atomStart_name_ne hr cs!"not" (by decide) (by decide) (by decide) (by decide)
        have hi := atomStart_name_ne hr cs!"in" (by decide) (by decide) (by decide) (by decide)
        simp [cmpOp?, tokText, cmpFind, Astgrammar.cmpOps, wordTok, isAlphaC, stopsTrailer, stopsPow, stopsBin, binLevel?, Astgrammar.binLevels, hn, hi, Ne.symm hn, Ne.symm hi]
     | op s =>
        have hn : s ≠ cs!"not" ∧ s ≠ cs!"in" := by
          simp [atomStart] at hr
          rcases hr with ((h | h) | h) | h <;> subst h <;> decide
        simp [cmpOp?, tokText, cmpFind, Astgrammar.cmpOps, wordTok, isAlphaC, stopsTrailer, stopsPow, stopsBin, binLevel?, Astgrammar.binLevels, hn.1, hn.2, Ne.symm hn.1, Ne.symm hn.2]
     | num s => simp [cmpOp?, tokText, cmpFind, Astgrammar.cmpOps, wordTok, isAlphaC, stopsTrailer, stopsPow, stopsBin, binLevel?, Astgrammar.binLevels]
     | str s => simp [cmpOp?, tokText, cmpFind, Astgrammar.cmpOps, wordTok, isAlphaC, stopsTrailer, stopsPow, stopsBin, binLevel?, Astgrammar.binLevels])
end Genshi.Py

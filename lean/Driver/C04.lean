import Genshi.Wire
import Genshi.WireCore
import Genshi.Model.TmplImpl
import Genshi.Model.TmplExtract
import Genshi.Model.TmplText
import Genshi.Model.TmplScan
import Genshi.Model.TmplRaw
import Genshi.Model.TmplPrint
import Genshi.Model.TmplScanD
namespace Driver.C04
open Genshi Genshi.Tmpl Genshi.Sexp

def atom? : Sexp → Option Atom
  | .list [.atom "N"] => some .none
  | .list [.atom "B", b] => do let b ← b.toBool?; pure (.bool b)
  | .list [.atom "I", i] => do let i ← i.toInt?; pure (.int i)
  | .list [.atom "S", .str s] => some (.str s)
  | _ => none

partial def expr? : Sexp → Option Expr
  | .list [.atom "V", .str n] => some (.var n)
  | .list [.atom "SV", .str n] => some (.svar n)
  | .list (.atom "L" :: xs) => do let as ← xs.mapM atom?; pure (.lit (.list as))
  | .list (.atom "D" :: kvs) => do
      let ps ← kvs.mapM fun
        | .list [.str k, a] => do let a ← atom? a; pure (k, a)
        | _ => none
      pure (.lit (.dict ps))
  | .list [.atom "EQ", a, b] => do let a ← expr? a; let b ← expr? b; pure (.eq a b)
  | .list [.atom "IX", a, b] => do let a ← expr? a; let b ← expr? b; pure (.ix a b)
  | .list [.atom "SIX", a, b] => do let a ← expr? a; let b ← expr? b; pure (.six a b)
  | .list [.atom "NOT", a] => do let a ← expr? a; pure (.not a)
  | .list [.atom "LEN", a] => do let a ← expr? a; pure (.len a)
  | s => do let a ← atom? s; pure (.lit (.atom a))

/-- an argument of a call: an expression, or `(KW name expr)` -/
def arg? : Sexp → Option Arg
  | .list [.atom "KW", .str k, e] => do let e ← expr? e; pure (some k, e)
  | s => do let e ← expr? s; pure (none, e)

/-- a parameter of a macro: a name, or `(DF name default)` -/
def param? : Sexp → Option Param
  | .list [.atom "DF", .str n, e] => do let e ← expr? e; pure (n, some e)
  | .str n => some (n, none)
  | _ => none

def xexpr? : Sexp → Option XExpr
  | .list [.atom "CALL", f, .list args] => do let f ← expr? f; let as ← args.mapM arg?; pure (.call f as)
  | s => do let e ← expr? s; pure (.pure e)

def optExpr? : Sexp → Option (Option Expr)
  | .atom "NONE" => some none
  | s => do let e ← expr? s; pure (some e)

def dir? : Sexp → Option Dir
  | .list [.atom "Def", .str f, .list ps] => do let ps ← ps.mapM param?; pure (.def_ f ps)
  | .list [.atom "When", e] => do let e ← optExpr? e; pure (.when e)
  | .list [.atom "Otherwise"] => some .otherwise
  | .list [.atom "For", .str v, e] => do let e ← expr? e; pure (.for_ v e)
  | .list [.atom "If", e] => do let e ← expr? e; pure (.if_ e)
  | .list [.atom "Choose", e] => do let e ← optExpr? e; pure (.choose e)
  | .list [.atom "With", .list bs] => do
      let bs ← bs.mapM fun
        | .list [.str n, e] => do let e ← expr? e; pure (n, e)
        | _ => none
      pure (.with_ bs)
  | .list [.atom "Replace", x] => do let x ← xexpr? x; pure (.replace x)
  | .list [.atom "Content", x] => do let x ← xexpr? x; pure (.content x)
  | .list [.atom "Attrs", e] => do let e ← expr? e; pure (.attrs e)
  | .list [.atom "Strip", e] => do let e ← optExpr? e; pure (.strip e)
  | _ => none

partial def node? : Sexp → Option TNode
  | .list [.atom "T", .str s] => some (.text s)
  | .list [.atom "E", x] => do let x ← xexpr? x; pure (.expr x)
  | .list [.atom "EL", .str tag, .list attrs, .list dirs, .list kids] => do
      let attrs ← attrs.mapM fun
        | .list [.str k, .str v] => some (k, v)
        | _ => none
      let dirs ← dirs.mapM dir?
      let kids ← kids.mapM node?
      pure (.elem tag attrs dirs kids)
  | .list [.atom "DE", d, .list kids] => do
      let d ← dir? d
      let kids ← kids.mapM node?
      pure (.delem d kids)
  | _ => none

def val? (s : Sexp) : Option Val := do
  match ← expr? s with
  | .lit v => pure v
  | _ => none

def data? : Sexp → Option Env
  | .list xs => xs.mapM fun
      | .list [.str n, v] => do let v ← val? v; pure (n, v)
      | _ => none
  | _ => none

/-- which directive may be written as an element / block in which language -/
def elemFormOk (markup : Bool) : Dir → Bool
  | .content _ | .attrs _ | .strip _ => false
  | .replace _ => markup
  | _ => true

partial def nodeOk (markup : Bool) : TNode → Bool
  | .text _ | .expr _ => true
  | .elem _ _ _ kids => markup && kids.all (nodeOk markup)
  | .delem d kids => elemFormOk markup d && kids.all (nodeOk markup)

def errName : Err → String
  | .type => "type" | .index => "index" | .key => "key" | .undefined => "undefined"
  | .runtime => "runtime" | .attribute => "attribute" | .value => "value"
  | .stopiter => "genstop" | .fuel => "fuel" | .unmodelled => "unmodelled"

def outRes : Except Err (List Event) → Sexp
  | .ok evs => .list [.atom "ok", streamToSexp evs]
  | .error e => .list [.atom "err", .atom (errName e)]

/-! prepared stream on the wire (for the `compile` correspondence) -/

def atomS : Atom → Sexp
  | .none => .list [.atom "N"]
  | .bool b => .list [.atom "B", ofBool b]
  | .int i => .list [.atom "I", ofInt i]
  | .str s => .list [.atom "S", .str s]

partial def exprS : Expr → Sexp
  | .var n => .list [.atom "V", .str n]
  | .svar n => .list [.atom "SV", .str n]
  | .lit (.atom a) => atomS a
  | .lit (.list xs) => .list (.atom "L" :: xs.map atomS)
  | .lit (.dict kv) => .list (.atom "D" :: kv.map fun p => .list [.str p.1, atomS p.2])
  | .lit _ => .atom "BAD"
  | .eq a b => .list [.atom "EQ", exprS a, exprS b]
  | .ix a b => .list [.atom "IX", exprS a, exprS b]
  | .six a b => .list [.atom "SIX", exprS a, exprS b]
  | .not a => .list [.atom "NOT", exprS a]
  | .len a => .list [.atom "LEN", exprS a]

def xexprS : XExpr → Sexp
  | .pure e => exprS e
  | .call f args => .list [.atom "CALL", exprS f, .list (args.map fun
      | (none, e) => exprS e
      | (some k, e) => .list [.atom "KW", .str k, exprS e])]

def optS : Option Expr → Sexp
  | none => .atom "NONE"
  | some e => exprS e

def dirS : Dir → Sexp
  | .def_ f ps => .list [.atom "Def", .str f, .list (ps.map fun
      | (n, none) => .str n
      | (n, some e) => .list [.atom "DF", .str n, exprS e])]
  | .when e => .list [.atom "When", optS e]
  | .otherwise => .list [.atom "Otherwise"]
  | .for_ v e => .list [.atom "For", .str v, exprS e]
  | .if_ e => .list [.atom "If", exprS e]
  | .choose e => .list [.atom "Choose", optS e]
  | .with_ bs => .list [.atom "With", .list (bs.map fun p => .list [.str p.1, exprS p.2])]
  | .replace x => .list [.atom "Replace", xexprS x]
  | .content x => .list [.atom "Content", xexprS x]
  | .attrs e => .list [.atom "Attrs", exprS e]
  | .strip e => .list [.atom "Strip", optS e]

partial def cevS : CEv → Sexp
  | .start t a => .list [.atom "ST", .str t, .list (a.map fun p => .list [.str p.1, .str p.2])]
  | .end_ t => .list [.atom "EN", .str t]
  | .text s => .list [.atom "TX", .str s]
  | .xexpr x => .list [.atom "EX", xexprS x]
  | .sub ds body => .list [.atom "SUB", .list (ds.map dirS), .list (body.map cevS)]

/-! raw text-template source -> tokens and parsed stream (`Model/TmplScan.lean`) -/

def optStrS : Option (List Char) → Sexp
  | none => .atom "NONE"
  | some s => .str s

partial def sevS : Scan.SEv → Sexp
  | .text s => .list [.atom "TX", .str s]
  | .expr s => .list [.atom "EX", .str s]
  | .sub cmd val body => .list [.atom "SUB", .str cmd, optStrS val, .list (body.map sevS)]
  | .incl parts => .list [.atom "INCL", .list (parts.map sevS)]
  | .exec s => .list [.atom "EXEC", .str s]

def perrName : Scan.PErr → String
  | .syntax => "badsyntax" | .badDirective => "baddirective" | .attribute => "attribute" | .unmodelled => "unmodelled"

def parsedS (r : Scan.PSt × Option Scan.PErr) : Sexp :=
  match r.2 with
  | none => .list [.atom "ok", .list (r.1.out.map sevS)]
  | some e => .list [.atom "err", .atom (perrName e), .list (r.1.out.map sevS)]

def rtokS : Scan.RTok → Sexp
  | .text r => .list [.atom "T", .str r, .str (Scan.unescapeNew r)]
  | .dir i c v => .list [.atom "D", .str i, .str c, .str v]
  | .comment i => .list [.atom "C", .str i]

def otokS : Scan.OTok → Sexp
  | .text r => .list [.atom "T", .str r, .str (Scan.unescapeOld r)]
  | .line b body => let cv := Scan.splitLine b body
      .list [.atom "L", .str b, .str body, .str cv.1, optStrS cv.2]

def handleScan : List Sexp → Option Sexp
  | [.atom "rawnew", .str src] =>
      some (.list [.list ((Scan.scanNew src).map rtokS), parsedS (Scan.parseToks Scan.stepNew ⟨0, [], []⟩ (Scan.scanNew src))])
  | [.atom "rawold", .str src] =>
      some (.list [.list ((Scan.scanOld src).map otokS), parsedS (Scan.parseToks Scan.stepOld ⟨0, [], []⟩ (Scan.scanOld src))])
  | [.atom "rawnewd", .str sd, .str ed, .str sc, .str ec, .str src] =>
      -- NewTextTemplate(source, delims=(sd, ed, sc, ec)): tokens + parsed stream, inside the side condition
      let d : ScanD.Delims := ⟨sd, ed, sc, ec⟩
      if !d.ok then some (.atom "unmodelled") else
      let toks := ScanD.scanD d src
      some (.list [.list (toks.map fun
              | .text r => .list [.atom "T", .str r, .str (ScanD.unescapeD d r)]
              | t => rtokS t),
            parsedS (Scan.parseToks (ScanD.stepD d) ⟨0, [], []⟩ toks)])
  | [.atom "printnew", .list toks] => do
      let toks ← toks.mapM fun
        | .list [.atom "T", .str s] => some (Scan.CTok.text s)
        | .list [.atom "D", .str c, .str v] => some (Scan.CTok.dir c v)
        | .list [.atom "C", .str b] => some (Scan.CTok.comment b)
        | _ => none
      pure (.str (Scan.printNew toks))
  | _ => none

/-! text templates end to end from their source (`Model/TmplRaw.lean`) -/

def handleRaw : List Sexp → Option Sexp
  | [.atom "rawcompile", .atom lang, strict, .str src] => do
      let st ← strict.toBool?
      match Raw.compileRaw (lang == "oldtext") st src with
      | .ok cevs => pure (.list [.atom "ok", .list (cevs.map cevS)])
      | .error e => pure (.list [.atom "err", .atom (perrName e)])
  | [.atom "rawrender", .atom lang, strict, fuel, .str src, data] => do
      let st ← strict.toBool?
      let fuel ← fuel.toNat?
      let data ← data? data
      match Raw.renderRaw fuel (lang == "oldtext") st src data with
      | .ok r => pure (outRes r)
      | .error e => pure (.list [.atom "err", .atom (perrName e)])
  | args => handleScan args

def handle : List Sexp → Option Sexp
  | [.atom verb, .atom lang, fuel, .list nodes, data] => do
      let fuel ← fuel.toNat?
      let nodes ← nodes.mapM node?
      let data ← data? data
      let markup := lang == "markup"
      if !(nodes.all (nodeOk markup)) then pure (.atom "unmodelled") else
      match verb with
      | "doc" => pure (outRes (docRender fuel nodes data))
      | "impl" => pure (outRes (implRender fuel nodes data))
      | "compile" => pure (.list ((compileNodes nodes).map cevS))
      | "compileflat" =>
          -- the construction-time pipeline as the code runs it, per template language
          if markup then pure (.list ((compileFlat nodes).map cevS))
          else pure (.list ((compileText nodes).map cevS))
      | "printtext" =>
          -- the specification printer of text templates and the side condition of the inversion
          -- theorem (lenient / strict reading)
          if markup then pure (.atom "unmodelled")
          else if lang == "oldtext" then
            pure (.list [.str (Print.nodesOld nodes), ofBool (Print.nodesOkOld false nodes), ofBool (Print.nodesOkOld true nodes)])
          else pure (.list [.str (Print.nodesNew nodes), ofBool (Print.nodesOk false nodes), ofBool (Print.nodesOk true nodes)])
      | _ => none
  | args => handleRaw args

end Driver.C04

import Genshi.Wire
namespace Driver.C04
open Genshi

/-- stub: the model driver for C04 is not built yet -/
def handle : List Sexp → Option Sexp := fun _ => none

end Driver.C04

import Genshi.Wire
import Genshi.Model.Match
import Genshi.Model.MatchPath
import Genshi.Model.MatchLazy
import Genshi.Model.MatchSpec
namespace Driver.C12
open Genshi Genshi.Match Genshi.Sexp

/-
  C12 run <fuel> ( item … )
     item := ( S name ) | ( E name ) | ( T text )
           | ( REG spec ( bitem … ) buffer once recursive )     the three attribute values, N = absent
     spec := ( one name|N pos|N ) | ( chain ( ( name … ) … ) ) | ( generic ( ( child|desc|dos ( name n )|any|node ) … ) )
     bitem := ( S name ) | ( E name ) | ( T text ) | ( SEL dot|node|elems|text|nodeText ) | ( SEL named name )
  C12 lazy <fuel> ( item … )     the same through the automaton model (covers buffer="false")
  C12 tree ( item … )             the specification: one tree rewrite per template (Model/MatchSpec.lean)
  answer: ( ok ( event … ) ( hits per registered template … ) ) | unmodelled | ( err fuel )
-/

def ev? : Sexp → Option Event
  | .list [.atom "S", .str n] => some (.start ⟨[], n⟩ [])
  | .list [.atom "E", .str n] => some (.end_ ⟨[], n⟩)
  | .list [.atom "T", .str s] => some (.text s false)
  | _ => none

def evOut : Event → Sexp
  | .start t _ => .list [.atom "S", .str t.loc]
  | .end_ t => .list [.atom "E", .str t.loc]
  | .text s _ => .list [.atom "T", .str s]
  | _ => .atom "other"

def sel? : List Sexp → Option Sel
  | [.atom "dot"] => some .self
  | [.atom "node"] => some .node
  | [.atom "elems"] => some .elems
  | [.atom "text"] => some .text
  | [.atom "nodeText"] => some .nodeText
  | [.atom "named", .str n] => some (.named n)
  | _ => none

def bitem? : Sexp → Option BItem
  | .list (.atom "SEL" :: r) => (sel? r).map .sel
  | x => (ev? x).map .ev

def optNat? : Sexp → Option (Option Nat)
  | .atom "N" => some none
  | x => x.toNat?.map some

def optName? : Sexp → Option (Option Str)
  | .atom "N" => some none
  | .str s => some (some s)
  | _ => none

def spec? : Sexp → Option PathSpec
  | .list [.atom "one", n, p] => do
      let n ← optName? n; let p ← optNat? p; pure (.single n p)
  | .list [.atom "generic", .list sts] => do
      let sts ← sts.mapM fun
        | .list [ax, t] => do
            let ax ← match ax with
              | .atom "child" => some GAxis.child
              | .atom "desc" => some GAxis.desc
              | .atom "dos" => some GAxis.dos
              | _ => none
            let t ← match t with
              | .list [.atom "name", .str n] => some (GTest.name n)
              | .atom "any" => some GTest.any
              | .atom "node" => some GTest.node
              | _ => none
            pure (ax, t)
        | _ => none
      pure (.generic sts)
  | .list [.atom "chain", .list fs] => do
      let fs ← fs.mapM fun
        | .list ns => ns.mapM Sexp.toStr?
        | _ => none
      pure (.simple fs)
  | _ => none

def item? : Sexp → Option (Item PSt)
  | .list [.atom "REG", spec, .list body, b, o, r] => do
      let spec ← spec? spec
      let body ← body.mapM bitem?
      let b ← optName? b; let o ← optName? o; let r ← optName? r
      pure (.reg (mkMT spec body (parseHints b o r)))
  | x => (ev? x).map .ev

def allBuffered : List (Item PSt) → Bool
  | [] => true
  | .reg t :: r => t.buffered && allBuffered r
  | _ :: r => allBuffered r

/-- events of a well-nested stream as a forest (driver only) -/
partial def toForest : List Event → List Node → List (QName × AttrList × List Node) → Option (List Node)
  | [], acc, [] => some acc.reverse
  | [], _, _ => none
  | .start t a :: es, acc, stk => toForest es [] ((t, a, acc) :: stk)
  | .end_ t :: es, acc, (t', a, up) :: stk =>
      if t = t' then toForest es (Node.elem t a acc.reverse :: up) stk else none
  | .end_ _ :: _, _, [] => none
  | e :: es, acc, stk => toForest es (Node.leaf e :: acc) stk

def splitDecls : List (Item PSt) → List (MT PSt) × List (Item PSt)
  | .reg t :: r => let q := splitDecls r; (t :: q.1, q.2)
  | r => ([], r)

def itemEvents : List (Item PSt) → Option (List Event)
  | [] => some []
  | .ev e :: r => (itemEvents r).map (e :: ·)
  | .reg _ :: _ => none

def stages : List (MT PSt) → List Event → Option (List Event)
  | [], es => some es
  | t :: ts, es => do
      let forest ← toForest es [] []
      stages ts (specList t t.st [] forest)

def specAnswer (items : List (Item PSt)) : Sexp :=
  match items with
  | .ev (.start root ra) :: rest =>
    let (decls, content) := splitDecls rest
    match itemEvents content with
    | none => .atom "unmodelled"      -- a declaration after content
    | some evs =>
      match evs.reverse with
      | .end_ root' :: revc =>
        if root' != root || decls.any (fun t => t.once) then .atom "unmodelled" else
        match stages decls revc.reverse with
        | some out => .list [.atom "ok", .list ((Event.start root ra :: out ++ [Event.end_ root]).map evOut), .list []]
        | none => .atom "unmodelled"
      | _ => .atom "unmodelled"
  | _ => .atom "unmodelled"

def handle : List Sexp → Option Sexp
  | [.atom "run", fuel, .list items] => do
      let fuel ← fuel.toNat?
      let items ← items.mapM item?
      if !allBuffered items then pure (.atom "unmodelled") else
      match run fuel 0 none items [] with
      | some (mts, out) => pure (.list [.atom "ok", .list (out.map evOut), .list (mts.map fun t => ofNat t.hits)])
      | none => pure (.list [.atom "err", .atom "fuel"])
  | [.atom "lazy", fuel, .list items] => do
      -- the automaton model: every hint, buffered or not
      let fuel ← fuel.toNat?
      let items ← items.mapM item?
      match runL fuel .idle items [] with
      | some (_, mts, out) => pure (.list [.atom "ok", .list (out.map evOut), .list (mts.map fun t => ofNat t.hits)])
      | none => pure (.list [.atom "err", .atom "fuel"])
  | [.atom "tree", .list items] => do
      -- the specification: one tree rewrite per template, in declaration order (declarations first,
      -- no once, lawful matchers); answers `unmodelled` otherwise
      let items ← items.mapM item?
      pure (specAnswer items)
  | _ => none

end Driver.C12

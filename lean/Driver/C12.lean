import Genshi.Wire
import Genshi.Model.Match
import Genshi.Model.MatchPath
import Genshi.Model.MatchLazy
import Genshi.Model.MatchSpec
import Genshi.Model.MatchReal
import Genshi.Model.MatchOnceXp
import Driver.C05
namespace Driver.C12
open Genshi Genshi.Match Genshi.Sexp

/-
  C12 run <fuel> ( item … )
     item := ( S name ) | ( E name ) | ( T text )
           | ( REG spec ( bitem … ) buffer once recursive )     the three attribute values, N = absent
     spec := ( one name|N pos|N ) | ( chain ( ( name … ) … ) ) | ( generic ( ( child|desc|dos ( name n )|any|node ) … ) )
     bitem := ( S name ) | ( E name ) | ( T text ) | ( SEL dot|node|elems|text|nodeText ) | ( SEL named name )
  C12 lazy <fuel> ( item … )     the same through the automaton model (covers buffer="false")
  C12 tree ( item … )             the specification: one tree rewrite per template (Model/MatchSpec.lean)
  answer: ( ok ( event … ) ( hits per registered template … ) ) | unmodelled | ( err fuel )

  The real matcher (the path model of C05/C17, Model/MatchReal.lean):
  C12 real <fuel> ( ritem … )    the automaton model with `mkReal` templates
  C12 xspec ( ritem … )           the specification with the XPath reference semantics as the "matches"
                                  relation (`xpForest`/`patternSel`): one tree rewrite per template
                                  (`xpOnceForest` for a `once` template: the first XPath match in document order)
     ritem := ( S name ( ( attr value ) … ) ) | ( E name ) | ( T text )
            | ( REGT "path text" ( bitem … ) buffer once recursive )
-/

def ev? : Sexp → Option Event
  | .list [.atom "S", .str n] => some (.start ⟨[], n⟩ [])
  | .list [.atom "E", .str n] => some (.end_ ⟨[], n⟩)
  | .list [.atom "T", .str s] => some (.text s false)
  | _ => none

def evOut : Event → Sexp
  | .start t _ => .list [.atom "S", .str t.loc]
  | .end_ t => .list [.atom "E", .str t.loc]
  | .text s _ => .list [.atom "T", .str s]
  | _ => .atom "other"

def sel? : List Sexp → Option Sel
  | [.atom "dot"] => some .self
  | [.atom "node"] => some .node
  | [.atom "elems"] => some .elems
  | [.atom "text"] => some .text
  | [.atom "nodeText"] => some .nodeText
  | [.atom "named", .str n] => some (.named n)
  | _ => none

def bitem? : Sexp → Option BItem
  | .list (.atom "SEL" :: r) => (sel? r).map .sel
  | x => (ev? x).map .ev

def optNat? : Sexp → Option (Option Nat)
  | .atom "N" => some none
  | x => x.toNat?.map some

def optName? : Sexp → Option (Option Str)
  | .atom "N" => some none
  | .str s => some (some s)
  | _ => none

def spec? : Sexp → Option PathSpec
  | .list [.atom "one", n, p] => do
      let n ← optName? n; let p ← optNat? p; pure (.single n p)
  | .list [.atom "generic", .list sts] => do
      let sts ← sts.mapM fun
        | .list [ax, t] => do
            let ax ← match ax with
              | .atom "child" => some GAxis.child
              | .atom "desc" => some GAxis.desc
              | .atom "dos" => some GAxis.dos
              | _ => none
            let t ← match t with
              | .list [.atom "name", .str n] => some (GTest.name n)
              | .atom "any" => some GTest.any
              | .atom "node" => some GTest.node
              | _ => none
            pure (ax, t)
        | _ => none
      pure (.generic sts)
  | .list [.atom "chain", .list fs] => do
      let fs ← fs.mapM fun
        | .list ns => ns.mapM Sexp.toStr?
        | _ => none
      pure (.simple fs)
  | _ => none

def item? : Sexp → Option (Item PSt)
  | .list [.atom "REG", spec, .list body, b, o, r] => do
      let spec ← spec? spec
      let body ← body.mapM bitem?
      let b ← optName? b; let o ← optName? o; let r ← optName? r
      pure (.reg (mkMT spec body (parseHints b o r)))
  | x => (ev? x).map .ev

def allBuffered : List (Item PSt) → Bool
  | [] => true
  | .reg t :: r => t.buffered && allBuffered r
  | _ :: r => allBuffered r

/-- events of a well-nested stream as a forest (driver only) -/
partial def toForest : List Event → List Node → List (QName × AttrList × List Node) → Option (List Node)
  | [], acc, [] => some acc.reverse
  | [], _, _ => none
  | .start t a :: es, acc, stk => toForest es [] ((t, a, acc) :: stk)
  | .end_ t :: es, acc, (t', a, up) :: stk =>
      if t = t' then toForest es (Node.elem t a acc.reverse :: up) stk else none
  | .end_ _ :: _, _, [] => none
  | e :: es, acc, stk => toForest es (Node.leaf e :: acc) stk

def splitDecls : List (Item PSt) → List (MT PSt) × List (Item PSt)
  | .reg t :: r => let q := splitDecls r; (t :: q.1, q.2)
  | r => ([], r)

def itemEvents : List (Item PSt) → Option (List Event)
  | [] => some []
  | .ev e :: r => (itemEvents r).map (e :: ·)
  | .reg _ :: _ => none

def stages : List (MT PSt) → List Event → Option (List Event)
  | [], es => some es
  | t :: ts, es => do
      let forest ← toForest es [] []
      -- `once`: replace the first match in document order (`onceList`); otherwise every match (`specList`)
      stages ts (if t.once then (onceList t t.st [] forest).1 else specList t t.st [] forest)

def specAnswer (items : List (Item PSt)) : Sexp :=
  match items with
  | .ev (.start root ra) :: rest =>
    let (decls, content) := splitDecls rest
    match itemEvents content with
    | none => .atom "unmodelled"      -- a declaration after content
    | some evs =>
      match evs.reverse with
      | .end_ root' :: revc =>
        if root' != root then .atom "unmodelled" else
        match stages decls revc.reverse with
        | some out => .list [.atom "ok", .list ((Event.start root ra :: out ++ [Event.end_ root]).map evOut), .list []]
        | none => .atom "unmodelled"
      | _ => .atom "unmodelled"
  | _ => .atom "unmodelled"

/-! ### the real matcher -/

def attrs? : Sexp → Option AttrList
  | .list xs => xs.mapM fun
      | .list [.str k, .str v] => some (⟨[], k⟩, v)
      | _ => none
  | _ => none

def rev? : Sexp → Option Event
  | .list [.atom "S", .str n, a] => do let a ← attrs? a; pure (.start ⟨[], n⟩ a)
  | x => ev? x

def revOut : Event → Sexp
  | .start t [] => .list [.atom "S", .str t.loc]
  | .start t a => .list [.atom "S", .str t.loc, .list (a.map fun (k, v) => .list [.str k.loc, .str v])]
  | e => evOut e

/-- a parsed `py:match` path, or why the model does not cover it -/
def rpath? (text : List Char) : Option (List Path.LocPath) :=
  if !Driver.C05.textCovered text then none else
  match Path.parse text with
  | .ok ps => if Driver.C05.pathsCovered ps then some ps else none
  | .error _ => none

/-- `none`: malformed request; `some none`: a path outside the model -/
def ritem? : Sexp → Option (Option (Item RSt))
  | .list [.atom "REGT", .str text, .list body, b, o, r] => do
      let body ← body.mapM bitem?
      let b ← optName? b; let o ← optName? o; let r ← optName? r
      match rpath? text with
      | none => pure none
      | some ps => pure (some (.reg (mkReal ps [] [] body (parseHints b o r))))
  | x => (rev? x).map fun e => some (.ev e)

def ritems? (xs : List Sexp) : Option (Option (List (Item RSt))) := do
  let ys ← xs.mapM ritem?
  pure (ys.mapM id)

/-- is the predicate a position test (statically; no variables are bound) -/
def numPred : Path.Expr → Bool
  | .num _ => true
  | .fn1 f _ => f == .number || f == .ceiling || f == .floor || f == .round || f == .stringLength
  | _ => false

/-- paths the XPath-reference specification covers: element axes only, no leading `.`, no position test -/
def specPathOk (p : Path.LocPath) : Bool :=
  !p.isEmpty && Path.stripDot p == p &&
  p.all fun s => s.axis != .attribute && s.axis != .self && s.preds.all fun q => !numPred q

structure RDecl where
  paths : List Path.LocPath
  body : List BItem
  hints : Hints

def rdecl? : Sexp → Option (Option RDecl)
  | .list [.atom "REGT", .str text, .list body, b, o, r] => do
      let body ← body.mapM bitem?
      let b ← optName? b; let o ← optName? o; let r ← optName? r
      match rpath? text with
      | none => pure none
      | some ps => pure (some ⟨ps, body, parseHints b o r⟩)
  | _ => none

def splitRDecls : List Sexp → Option (Option (List RDecl) × List Sexp)
  | x :: r =>
    match x with
    | .list (.atom "REGT" :: _) => do
        let d ← rdecl? x
        let q ← splitRDecls r
        pure ((do let d ← d; let ds ← q.1; pure (d :: ds)), q.2)
    | _ => pure (some [], x :: r)
  | [] => pure (some [], [])

def xstages : List RDecl → List Event → Option (List Event)
  | [], es => some es
  | d :: ds, es => do
      let forest ← toForest es [] []
      -- `once`: the first XPath match in document order (`xpOnceForest`); otherwise every match (`xpForest`)
      xstages ds (if d.hints.matchOnce then (xpOnceForest (patternSel d.paths [] []) d.body forest).1
                  else xpForest (patternSel d.paths [] []) d.body (!d.hints.notRecursive) forest)

def xspecAnswer (items : List Sexp) : Option Sexp :=
  match items with
  | first :: rest => do
    let root ← rev? first
    match root with
    | .start rootTag ra =>
      let (decls, content) ← splitRDecls rest
      match decls with
      | none => pure (.atom "unmodelled")
      | some decls =>
        -- the content must be plain events (no declaration after content)
        if content.any (fun x => match x with | .list (.atom "REGT" :: _) => true | _ => false) then
          pure (.atom "unmodelled")
        else do
          let evs ← content.mapM rev?
          match evs.reverse with
          | .end_ root' :: revc =>
            if root' != rootTag || decls.any (fun d => !(d.paths.all specPathOk)) then
              pure (.atom "unmodelled")
            else
              match xstages decls revc.reverse with
              | some out => pure (.list [.atom "ok", .list ((Event.start rootTag ra :: out ++ [Event.end_ rootTag]).map revOut), .list []])
              | none => pure (.atom "unmodelled")
          | _ => pure (.atom "unmodelled")
    | _ => pure (.atom "unmodelled")
  | [] => pure (.atom "unmodelled")

def handle : List Sexp → Option Sexp
  | [.atom "real", fuel, .list items] => do
      let fuel ← fuel.toNat?
      let items ← ritems? items
      match items with
      | none => pure (.atom "unmodelled")
      | some items =>
        match runL fuel .idle items [] with
        | some (_, mts, out) => pure (.list [.atom "ok", .list (out.map revOut), .list (mts.map fun t => ofNat t.hits)])
        | none => pure (.list [.atom "err", .atom "fuel"])
  | [.atom "xspec", .list items] => xspecAnswer items
  | [.atom "run", fuel, .list items] => do
      let fuel ← fuel.toNat?
      let items ← items.mapM item?
      if !allBuffered items then pure (.atom "unmodelled") else
      match run fuel 0 none items [] with
      | some (mts, out) => pure (.list [.atom "ok", .list (out.map evOut), .list (mts.map fun t => ofNat t.hits)])
      | none => pure (.list [.atom "err", .atom "fuel"])
  | [.atom "lazy", fuel, .list items] => do
      -- the automaton model: every hint, buffered or not
      let fuel ← fuel.toNat?
      let items ← items.mapM item?
      match runL fuel .idle items [] with
      | some (_, mts, out) => pure (.list [.atom "ok", .list (out.map evOut), .list (mts.map fun t => ofNat t.hits)])
      | none => pure (.list [.atom "err", .atom "fuel"])
  | [.atom "tree", .list items] => do
      -- the specification: one tree rewrite per template, in declaration order (declarations first,
      -- lawful matchers; `once` templates by `onceList`); answers `unmodelled` otherwise
      let items ← items.mapM item?
      pure (specAnswer items)
  | _ => none

end Driver.C12

import Genshi.Wire
namespace Driver.C12
open Genshi

/-- stub: the model driver for C12 is not built yet -/
def handle : List Sexp → Option Sexp := fun _ => none

end Driver.C12

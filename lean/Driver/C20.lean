import Genshi.Wire
import Genshi.WireCore
import Genshi.Model.Tf
import Genshi.Model.TfLazy
import Genshi.Model.TfTrace
import Genshi.Model.TfFill
import Genshi.Model.TfFillSpec
namespace Driver.C20
open Genshi Genshi.Sexp Genshi.Tf

/-! wire format of marked streams, operations, form-filler configurations -/

def markToSexp : Option Mark → Sexp
  | none => .atom "N"
  | some .enter => .atom "ENTER"
  | some .inside => .atom "INSIDE"
  | some .outside => .atom "OUTSIDE"
  | some .exit => .atom "EXIT"
  | some .attr => .atom "ATTR"
  | some .brk => .atom "BREAK"

def mevToSexp : MEv → Sexp
  | .ev e => e.toSexp
  | .attr t a => .list [.atom "AT", t.toSexp, attrsToSexp a]
  | .brk => .atom "BR"

def mevOfSexp? : Sexp → Option MEv
  | .list [.atom "AT", t, a] => do
      let t ← QName.ofSexp? t; let a ← attrsOfSexp? a; pure (.attr t a)
  | .atom "BR" => some .brk
  | x => (Event.ofSexp? x).map .ev

def mstreamToSexp (s : MStream) : Sexp :=
  .list (s.map fun (m, x) => .list [markToSexp m, mevToSexp x])

def bufsToSexp (b : Bufs) (ids : List Nat) : Sexp :=
  .list (ids.map fun i => .list [ofNat i, .list ((b.get i).map mevToSexp)])

def bufFToSexp (b : BufF) (ids : List Nat) : Sexp :=
  .list (ids.map fun i => .list [ofNat i, .list ((b i).map mevToSexp)])

/-- growth allowance of a live buffer under injection before the model answers "does not terminate" -/
def growth : Nat := 400

def res? : Sexp → Option Res
  | .atom "N" => some .none
  | .atom "T" => some .hit
  | .atom "SELF" => some .self
  | .list [.atom "A", a] => do let a ← attrsOfSexp? a; pure (.attrs a)
  | .list [.atom "E", e] => do let e ← mevOfSexp? e; pure (.event e)
  | .list [.atom "X", .str s] => some (.text s)
  | _ => none

def content? : Sexp → Option Content
  | .list [.atom "STR", .str s] => some (.str s)
  | .list [.atom "ev", s] => do let s ← streamOfSexp? s; pure (.evs s)
  | .list [.atom "buf", n] => do let n ← n.toNat?; pure (.buf n)
  | _ => none

def op? : Sexp → Option Op
  | .list [.atom "SEL", .list rs] => do let rs ← rs.mapM res?; pure (.select rs)
  | .atom "SELFAIL" => some .selectFail
  | .atom "invert" => some .invert
  | .atom "end" => some .endSel
  | .atom "empty" => some .empty
  | .atom "remove" => some .remove
  | .atom "unwrap" => some .unwrap
  | .atom "buffer" => some .buffer
  | .list [.atom "wrap", t, a] => do
      let t ← QName.ofSexp? t; let a ← attrsOfSexp? a; pure (.wrap t a [])
  | .list [.atom "wrapel", t, a, kids] => do
      let t ← QName.ofSexp? t; let a ← attrsOfSexp? a; let kids ← streamOfSexp? kids; pure (.wrap t a kids)
  | .list [.atom "attrfn", n, .str src] => do
      let n ← QName.ofSexp? n; pure (.attrFn n fun _ a => attrGet a src)
  -- other callables `value(name, event)`: the local name of the element, a constant, the number of attributes
  | .list [.atom "attrfn", n, .list [.atom "tag"]] => do
      let n ← QName.ofSexp? n; pure (.attrFn n fun t _ => some t.loc)
  | .list [.atom "attrfn", n, .list [.atom "const", .str v]] => do
      let n ← QName.ofSexp? n; pure (.attrFn n fun _ _ => some v)
  | .list [.atom "attrfn", n, .list [.atom "count"]] => do
      let n ← QName.ofSexp? n; pure (.attrFn n fun _ a => some (toString a.length).toList)
  | .list [.atom "replace", c] => do let c ← content? c; pure (.replace c)
  | .list [.atom "before", c] => do let c ← content? c; pure (.before c)
  | .list [.atom "after", c] => do let c ← content? c; pure (.after c)
  | .list [.atom "prepend", c] => do let c ← content? c; pure (.prepend c)
  | .list [.atom "append", c] => do let c ← content? c; pure (.append c)
  | .list [.atom "attr", n, v] => do
      let n ← QName.ofSexp? n; let v ← optStr? v; pure (.attr n v)
  | .list [.atom "rename", n] => do let n ← QName.ofSexp? n; pure (.rename n)
  | .list [.atom "copy", n, acc] => do let n ← n.toNat?; let acc ← acc.toBool?; pure (.copy n acc)
  | .list [.atom "cut", n, acc] => do let n ← n.toNat?; let acc ← acc.toBool?; pure (.cut n acc)
  | .list [.atom "map", all] => do let all ← all.toBool?; pure (.mapBang all)
  | .list [.atom "SUBST", .str p, .str r, n] => do let n ← n.toNat?; pure (.subst p r n)
  | .atom "trace" => some .trace
  | .list [.atom "maptext", .atom "rev"] => some (.mapText fun t _ => (t.reverse, false))
  | .list [.atom "maptext", .atom "dup"] => some (.mapText fun t sf => (t ++ t, sf))
  | .list [.atom "filter", d] => do
      let d ← d.toBool?; pure (.filter (if d then dropComments else id))
  | _ => none

def scalar? : Sexp → Option Fill.Scalar
  | .list [.str t, tr, isn] => do
      let tr ← tr.toBool?; let isn ← isn.toBool?; pure ⟨t, tr, isn⟩
  | _ => none

def val? : Sexp → Option Fill.Val
  | .list [.atom "one", v] => do let v ← scalar? v; pure (.one v)
  | .list (.atom "many" :: vs) => do let vs ← vs.mapM scalar?; pure (.many vs)
  | _ => none

def cfg? : Sexp → Option Fill.Cfg
  | .list [name, id, pw, .list kvs] => do
      let name ← optStr? name; let id ← optStr? id; let pw ← pw.toBool?
      let kvs ← kvs.mapM fun
        | .list [.str k, v] => do let v ← val? v; pure (k, v)
        | _ => none
      pure ⟨name, id, kvs, pw⟩
  | _ => none

def dedup (l : List Nat) : List Nat := l.foldl (fun acc x => if acc.contains x then acc else acc ++ [x]) []

def handle : List Sexp → Option Sexp
  | [.atom "chain", s, .list ops] => do
      let s ← streamOfSexp? s
      let ops ← ops.mapM op?
      let ids := (dedup (writes ops)).mergeSort
      let lazy := runLazy growth ops (fun _ => []) (markAll s)
      -- the link-by-link trace semantics gives the same as the lazy model (theorem `lazy_trace`),
      -- whenever reads come after writes (`lazyRaw`)
      let traceAgrees : Bool :=
        !lazyRaw ops ||
        (match lazy, runTrace ops (fun _ => []) (markAll s) with
         | .ok (out, b), some (out', b') => decide (out' = out) && ids.all (fun i => decide (b' i = b i))
         | .ok _, none => false
         | _, some _ => false
         | _, none => true)
      if !stagewise [] [] ops then
        -- the lazy interleaving is observable: the chain as the code runs it
        match lazy with
        | .ok (out, b) =>
            pure (.list [.atom "ok", mstreamToSexp out, bufFToSexp b ids, streamToSexp (unmark out),
                         -- the assumption checks of the theorems: `lazySelOk` (per link while it runs) and, when
                         -- reads come after writes, `traceSelOk` (hypothesis of `lazy_raw_chain_wellnested`)
                         ofBool (lazySelOk growth (segs ops) (fun _ => []) (markAll s) &&
                                 (!lazyRaw ops || traceSelOk (segs ops) (fun _ => []) (markAll s))),
                         .atom (if !traceAgrees then "lazy-trace-differs" else if lazyRaw ops then "lazy+trace" else "lazy")])
        | _ => pure (if traceAgrees then .atom "err" else .atom "err-trace-differs")
      else
      match transformMarked ops s with
      | none => pure (.list [.atom "err", ofBool ((match lazy with | .ok _ => false | _ => true) && traceAgrees)])
      | some (out, b) =>
          -- stage-wise model; last item: the lazy model gives the same (theorem `lazy_agrees_stagewise`)
          let agree := match lazy with
            | .ok (out', b') => decide (out' = out) && ids.all (fun i => decide (b' i = b.get i)) && traceAgrees
            | _ => false
          pure (.list [.atom "ok", mstreamToSexp out, bufsToSexp b ids, streamToSexp (unmark out),
                       ofBool (chainSelOk ops [] (markAll s)), ofBool agree])
  | [.atom "fill", c, s] => do
      let c ← cfg? c
      let s ← streamOfSexp? s
      match Fill.fill c s with
      | none => pure (.atom "err")
      | some out => pure (.list [.atom "ok", streamToSexp out])
  | [.atom "derive", root, .list ds] => do
      -- the chains (link names) of all transformer objects after every derivation
      let ds ← ds.mapM fun
        | .list [k, x] => do let k ← k.toNat?; pure (k, x)
        | _ => none
      pure (.list ((history [[root]] ds).map fun snap => .list (snap.map .list)))
  | [.atom "derive2", root, .list ds] => do
      -- … of a mixed history: `(one k x)` = an operation method on object k (new link x),
      -- `(cat k j)` = `t_k.apply(t_j)` (chain concatenation, no new link)
      let ds ← ds.mapM fun
        | .list [.atom "one", k, x] => do let k ← k.toNat?; pure (DStep.one k x)
        | .list [.atom "cat", k, j] => do let k ← k.toNat?; let j ← j.toNat?; pure (DStep.cat k j)
        | _ => none
      pure (.list ((historyD [[root]] ds).map fun snap => .list (snap.map .list)))
  | [.atom "fillspec", c, s] => do
      -- the documentation semantics of the filler on the forest `parse` reads; `outside` = the
      -- forest is not in `okForest` (the recorded findings), `unmodelled` = not a well-nested stream
      let c ← cfg? c
      let s ← streamOfSexp? s
      match Fill.parse s with
      | none => pure (.atom "unmodelled")
      | some ns =>
          if Fill.okForest c ns then pure (.list [.atom "ok", streamToSexp (flattenList (Fill.fillSpec c ns))])
          else pure (.atom "outside")
  | _ => none

end Driver.C20

import Genshi.Wire
namespace Driver.C20
open Genshi

/-- stub: the model driver for C20 is not built yet -/
def handle : List Sexp → Option Sexp := fun _ => none

end Driver.C20

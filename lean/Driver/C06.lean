import Genshi.Wire
namespace Driver.C06
open Genshi

/-- stub: the model driver for C06 is not built yet -/
def handle : List Sexp → Option Sexp := fun _ => none

end Driver.C06

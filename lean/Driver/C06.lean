import Genshi.Wire
import Genshi.WireCore
import Genshi.Model.San
import Genshi.Model.SanSpec
import Genshi.Model.Reader
namespace Driver.C06
open Genshi Genshi.San Genshi.Sexp

def strs? : Sexp → Option (List Str)
  | .list xs => xs.mapM Sexp.toStr?
  | _ => none

/-- `( tags attrs schemes uriattrs css )` or the atom `D` for the default sets -/
def cfg? : Sexp → Option Cfg
  | .atom "D" => some Cfg.default
  | .list [a, b, c, d, e] => do
      let a ← strs? a; let b ← strs? b; let c ← strs? c; let d ← strs? d; let e ← strs? e
      pure ⟨a, b, c, d, e⟩
  | _ => none

def errName : Err → String
  | .valueError => "ValueError"
  | .overflowError => "OverflowError"

def res {α} (f : α → Sexp) : Except Err α → Sexp
  | .ok a => .list [.atom "ok", f a]
  | .error e => .list [.atom "err", .atom (errName e)]

/-- a raw token of C08's spec-side tokenizer (`Genshi.Reader.tokens`), as the re-parse theorems of
    C06 speak of it -/
def tokSexp : Genshi.Reader.Tok → Sexp
  | .start n a sc => .list [.atom "S", .str n, .list (a.map fun p => .list [.str p.1, optStr p.2]), ofBool sc]
  | .end_ n => .list [.atom "E", .str n]
  | .text t => .list [.atom "T", .str t]
  | .comment t => .list [.atom "C", .str t]
  | .pi t => .list [.atom "PI", .str t]
  | .doctype t => .list [.atom "DT", .str t]

def handle : List Sexp → Option Sexp
  | [.atom "filter", cfg, evs] => do
      let cfg ← cfg? cfg; let s ← streamOfSexp? evs
      pure (res streamToSexp (sanitize cfg s))
  | [.atom "css", cfg, .str t] => do
      let cfg ← cfg? cfg
      pure (res (fun ds => .list (ds.map .str)) (sanitizeCss cfg t))
  | [.atom "uri", cfg, .str t] => do
      let cfg ← cfg? cfg
      pure (ofBool (isSafeUri cfg t))
  | [.atom "ent", .str t] => some (res .str (stripentities t))
  -- the helpers of sanitize_css one by one (wave 4)
  | [.atom "unesc", .str t] => some (res .str (replaceUnicodeEscapes t))
  | [.atom "nocomm", .str t] => some (.str (stripCssComments t))
  | [.atom "propok", cfg, .str pn, .str v] => do
      let cfg ← cfg? cfg
      pure (ofBool (isSafeCss cfg pn v))
  | [.atom "refs", .str t] => some (res .str (stripRefs t))
  -- the html-mode reader the re-parse theorems compose with, on a rendered DOCTYPE (wave 4)
  | [.atom "htoks", .str t] =>
      match Genshi.Reader.tokens false t with
      | some ts => some (.list (ts.map tokSexp))
      | none => some (.atom "error")
  | [.atom "elem", cfg, t, a] => do
      let cfg ← cfg? cfg; let t ← QName.ofSexp? t; let a ← attrsOfSexp? a
      pure (ofBool (isSafeElem cfg t a))
  -- specification side, compared with the oracle's own readers
  | [.atom "bscheme", .str t] => some (optStr (Spec.browserScheme t))
  | [.atom "cssdecode", .str t] => some (.str (Spec.cssDecode t))
  | [.atom "cssok", schemes, .str t] => do
      let schemes ← strs? schemes
      pure (ofBool (Spec.cssOk schemes t))
  | _ => none

end Driver.C06

import Genshi.Wire
namespace Driver.C13
open Genshi

/-- stub: the model driver for C13 is not built yet -/
def handle : List Sexp → Option Sexp := fun _ => none

end Driver.C13

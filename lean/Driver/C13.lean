import Genshi.Wire
import Genshi.Model.PyGen
import Genshi.Model.PyParse
import Genshi.Model.PyParseS
import Genshi.Model.PyStmtX
import Genshi.Model.PyScope
import Genshi.Model.PyLeaves
import Genshi.Model.PyLayout
import Driver.PyWire
namespace Driver.C13
open Genshi Genshi.Py Genshi.Sexp Driver.PyWire

partial def encTree : ScopeTree → Sexp
  | .node k n gs cs => .list [.str k, .str n, .list (gs.map .str), .list (cs.map encTree)]

/-- `gen tree` / `genS (stmt…)`: the tokens of the regenerated source, `raises` when the model
    says the generator raises, `unmodelled` when the tree is outside the modelled syntax -/
def handle : List Sexp → Option Sexp
  | [.atom "gen", t] =>
      match decE t with
      | none => some (.atom "unmodelled")
      | some e =>
        match genE e with
        | none => some (.atom "raises")
        | some toks => some (.list [.atom "ok", .list (toks.map encTok)])
  | [.atom "genS", .list ss] =>
      match ss.mapM decS with
      | none => some (.atom "unmodelled")
      | some body =>
        match genModule body with
        | none => some (.atom "raises")
        | some ls => some (.list [.atom "ok", .list (ls.map encLine)])
  | [.atom "parse", .list ts] =>
      match ts.mapM decTok with
      | none => some (.atom "unmodelled")
      | some toks =>
        match pyParse toks with
        | none => some (.atom "none")
        | some e => some (.list [.atom "ok", encE e])
  | [.atom "roundtrip", t] =>
      -- pyParse (gen e) = some e ?  (answers T / F / raises)
      match decE t with
      | none => some (.atom "unmodelled")
      | some e =>
        match genE e with
        | none => some (.atom "raises")
        | some toks =>
          match pyParse toks with
          | none => some (.atom "none")
          | some e' => some (.list [.atom "ok", encE e'])
  | [.atom "parseS", .list ls] =>
      match ls.mapM decLine with
      | none => some (.atom "unmodelled")
      | some lines =>
        match pyParseS lines with
        | none => some (.atom "none")
        | some ss => some (.list [.atom "ok", .list (ss.map encS)])
  | [.atom "roundtripS", .list ss] =>
      match ss.mapM decS with
      | none => some (.atom "unmodelled")
      | some body =>
        match genModule body with
        | none => some (.atom "raises")
        | some lines =>
          match pyParseS lines with
          | none => some (.atom "none")
          | some ss' => some (.list [.atom "ok", .list (ss'.map encS)])
  -- statement mode of `TemplateASTTransformer` (model `xformS`), Python's scoping rule (`specModule`,
  -- `outside` when the program is outside the domain `okModule` of the comparison theorem), the
  -- rewriting undone after `xformS`, and the per-scope global references by Python's rule
  | [.atom "xformS", .list ss] =>
      match ss.mapM decS with
      | none => some (.atom "unmodelled")
      | some body => some (.list [.atom "ok", .list ((xformS body).map encS)])
  | [.atom "pySpecS", .list ss] =>
      match ss.mapM decS with
      | none => some (.atom "unmodelled")
      | some body =>
        if okModule body then some (.list [.atom "ok", .list ((specModule body).map encS)])
        else some (.atom "outside")
  | [.atom "unxformS", .list ss] =>
      match ss.mapM decS with
      | none => some (.atom "unmodelled")
      | some body => some (.list [.atom "ok", .list ((unxfB (xformS body)).map encS)])
  | [.atom "freeGlobals", .list ss] =>
      match ss.mapM decS with
      | none => some (.atom "unmodelled")
      | some body => some (.list [.atom "ok", encTree (freeGlobals body), encTree (scopeTree (xformS body))])
  -- the leaf tokens of a tree in source order (`Model/PyLeaves.lean`; `outside` when the tree is
  -- outside the domain `leafOK` / `leafOKB` of `leaves_in_order`)
  | [.atom "leaves", t] =>
      match decE t with
      | none => some (.atom "unmodelled")
      | some e =>
        if leafOK e then some (.list [.atom "ok", .list ((leaves e).map encTok)]) else some (.atom "outside")
  | [.atom "leavesS", .list ss] =>
      match ss.mapM decS with
      | none => some (.atom "unmodelled")
      | some body =>
        if leafOKB body then some (.list [.atom "ok", .list ((leavesB body).map encTok)]) else some (.atom "outside")
  -- character level: `ASTCodeGenerator(tree).code` as a string (`Model/PyLayout.lean`: the writer), and
  -- what the line-structure reader `retok` makes of it (depth + text of every logical line)
  | [.atom "code", t] =>
      match decE t with
      | none => some (.atom "unmodelled")
      | some e =>
        match codeE e with
        | none => some (.atom "raises")
        | some cs => some (.list [.atom "ok", .str cs])
  | [.atom "codeS", .list ss] =>
      match ss.mapM decS with
      | none => some (.atom "unmodelled")
      | some body =>
        match codeS body with
        | none => some (.atom "raises")
        | some cs =>
          some (.list [.atom "ok", .str cs,
            match retok cs with
            | none => .atom "N"
            | some ls => .list (ls.map fun p => .list [.atom (toString p.1), .str p.2])])
  | _ => none

end Driver.C13

import Genshi.Wire
namespace Driver.C02
open Genshi

/-- stub: the model driver for C02 is not built yet -/
def handle : List Sexp → Option Sexp := fun _ => none

end Driver.C02

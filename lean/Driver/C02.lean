import Genshi.Wire
import Genshi.WireCore
import Genshi.Model.XmlSer
import Genshi.Model.XmlReader
import Genshi.Model.XmlParser
import Genshi.Model.XmlSpec
import Genshi.Gen.Parse
namespace Driver.C02
open Genshi Genshi.Xml Genshi.Sexp

/-
  verbs (first token after `C02`):
    emptytag <stream>                  -> list of events, EMPTY as ( EM qname attrs )
    flatten <pref> <stream>            -> flattened events after EmptyTagFilter + NamespaceFlattener
    xser <stream>                      -> ( ok text ) | raise
    enc <ranges> <text>                -> text with character references
    tok <text>                         -> ( ok tokens ) | N
    read <text>                        -> ( ok events ) | N
    roundtrip <ranges> <stream>        -> read (enc (ser stream))
    domain <pref> <stream>             -> ( inDomain conclusionHolds inTextDomain textConclusionHolds ... ) for
                                          xml_roundtrip_events / xml_roundtrip_partial / xml_roundtrip /
                                          ser_idempotent_partial / ser_idempotent_builder(_events) /
                                          ser_idempotent_parsed_text (see the comments in the verb)
    reparse <text>                     -> ( ok events-after-EmptyTagFilter ) | N   (spec-side parse)
    coalesce <stream>                  -> stream
    qname <text>                       -> ( ns loc )
    cbs <callbacks>                    -> ( T|F stream )   XMLParser's layer over expat: `_handle_*` + `_coalesce`;
                                          F: an undefined entity ended the parse.  Callbacks:
                                          ( SE name ( ( k v ) ... ) ) ( EE name ) ( D text ) ( XD v enc|N sa )
                                          ( DT name sysid|N pubid|N ) ( NS pfx|N uri|N ) ( ENS pfx|N ) SC EC
                                          ( PI t d ) ( C s ) ( O text )
    et <tree>                          -> stream   `ET(element)`; tree = ( tag ( ( k v ) ... ) text|N ( kids ) tail|N )
  <pref> = ( ( uri prefix ) ... ), <ranges> = ( ( lo hi ) ... )
-/

def attrsS (a : List (Str × Str)) : Sexp := .list (a.map fun (n, v) => .list [.str n, .str v])

def fev : FEv → Sexp
  | .start n a => .list [.atom "S", .str n, attrsS a]
  | .empty n a => .list [.atom "EM", .str n, attrsS a]
  | .end_ n => .list [.atom "E", .str n]
  | .other e => e.toSexp

def xev : XEv → Sexp
  | .ev e => e.toSexp
  | .empty t a => .list [.atom "EM", t.toSexp, attrsToSexp a]

def rev : REv → Sexp
  | .start t a => .list [.atom "S", t.toSexp, attrsToSexp a]
  | .end_ t => .list [.atom "E", t.toSexp]
  | .text s => .list [.atom "T", .str s]
  | .comment s => .list [.atom "C", .str s]
  | .pi t d => .list [.atom "PI", .str t, .str d]
  | .startCdata => .atom "SC"
  | .endCdata => .atom "EC"
  | .xmlDecl v e s => .list [.atom "XD", .str v, optStr e, ofInt s]
  | .doctype n p s => .list [.atom "DT", .str n, optStr p, optStr s]

def pref? : Sexp → Option (List (Str × Str))
  | .list xs => xs.mapM fun
      | .list [.str u, .str p] => some (u, p)
      | _ => none
  | _ => none

def ranges? : Sexp → Option (List (Nat × Nat))
  | .list xs => xs.mapM fun
      | .list [a, b] => do let a ← a.toNat?; let b ← b.toNat?; pure (a, b)
      | _ => none
  | _ => none

def cb? : Sexp → Option Cb
  | .list [.atom "SE", .str n, .list a] => do
      let a ← a.mapM fun
        | .list [.str k, .str v] => some (k, v)
        | _ => none
      pure (.startEl n a)
  | .list [.atom "EE", .str n] => some (.endEl n)
  | .list [.atom "D", .str t] => some (.data t)
  | .list [.atom "XD", .str v, e, s] => do let e ← optStr? e; let s ← s.toInt?; pure (.xmlDecl v e s)
  | .list [.atom "DT", .str n, sy, pu] => do let sy ← optStr? sy; let pu ← optStr? pu; pure (.doctype n sy pu)
  | .list [.atom "NS", p, u] => do let p ← optStr? p; let u ← optStr? u; pure (.startNs p u)
  | .list [.atom "ENS", p] => do let p ← optStr? p; pure (.endNs p)
  | .atom "SC" => some .startCdata
  | .atom "EC" => some .endCdata
  | .list [.atom "PI", .str t, .str d] => some (.pi t d)
  | .list [.atom "C", .str t] => some (.comment t)
  | .list [.atom "O", .str t] => some (.other t)
  | _ => none

/-- `entities.name2codepoint` as extracted from genshi/input.py -/
def entityOf (n : Str) : Option Char := (Genshi.Gen.Parse.entities.lookup n).map Char.ofNat

partial def etree? : Sexp → Option ETree
  | .list [.str tag, .list a, text, .list kids, tail] => do
      let a ← a.mapM fun
        | .list [.str k, .str v] => some (k, v)
        | _ => none
      let text ← optStr? text; let tail ← optStr? tail
      let kids ← kids.mapM etree?
      pure (.node tag a text kids tail)
  | _ => none

def okList (f : α → Sexp) : Option (List α) → Sexp
  | some xs => .list [.atom "ok", .list (xs.map f)]
  | none => .atom "N"

def handle : List Sexp → Option Sexp
  | [.atom "emptytag", s] => do
      let s ← streamOfSexp? s
      pure (.list ((emptyTag s).map xev))
  | [.atom "flatten", p, s] => do
      let p ← pref? p; let s ← streamOfSexp? s
      pure (.list ((flatten p (emptyTag s)).map fev))
  | [.atom "xser", s] => do
      let s ← streamOfSexp? s
      match serialize s with
      | some t => pure (.list [.atom "ok", .str t])
      | none => pure (.atom "raise")
  | [.atom "enc", r, .str t] => do
      let r ← ranges? r
      pure (.str (encodeText (inRanges r) t))
  | [.atom "tok", .str t] => some (okList fev (Reader.tokenize t))
  | [.atom "read", .str t] => some (okList rev (Reader.read t))
  | [.atom "roundtrip", r, s] => do
      let r ← ranges? r; let s ← streamOfSexp? s
      match serialize s with
      | some t => pure (okList rev (Reader.read (encodeText (inRanges r) t)))
      | none => pure (.atom "raise")
  | [.atom "domain", p, s] => do
      -- is the stream inside the hypothesis of xml_roundtrip_events, and does the model satisfy its conclusion?
      let p ← pref? p; let s ← streamOfSexp? s
      let xs := emptyTag s
      let inDom := docOK xs && prefOK p && decide (WellNested s)
      let holds := decide (Reader.resolve ((flatten p xs).map normF) = some (canonX xs))
      let inText := inDom && docTextOK (flatten p xs)
      let textHolds := match serRun SerSt.init (flatten p xs) with
        | some out => decide (Reader.read out = some (canonX xs))
        | none => false
      -- the same under the narrowest codec of the property (ASCII)
      let ascii : Char → Bool := fun c => c.toNat < 128
      let inAscii := inText && repMarkup ascii (flatten p xs)
      let asciiHolds := match serRun SerSt.init (flatten p xs) with
        | some out => decide (Reader.read (encodeText ascii out) = some (canonX xs))
        | none => false
      -- idempotence (ser_idempotent_partial)
      let inIdem := inDom && idemOK p xs
      let idemHolds := match reparseX PSt.init ((flatten p xs).map normF) with
        | some xs2 => decide (flatten p xs2 = flatten p xs)
        | none => false
      -- input-side form of the text hypotheses (xml_roundtrip_partial), for the widest codec
      let inInput := inDom && inputTextOKm (fun _ => true) p xs
      let inputHolds := match serRun SerSt.init (flatten p xs) with
        | some out => decide (Reader.read out = some (mergeR (canonX xs)))
        | none => false
      -- idempotence for builder streams (ser_idempotent_builder_events), and at text level under ASCII
      -- (ser_idempotent_builder, ser_idempotent_parsed_text)
      let inB := inDom && builderShaped xs
      let bHolds := match reparseX PSt.init ((flatten p xs).map normF) with
        | some xs2 => decide ((flatten p xs2).map normF = (flatten p xs).map normF)
        | none => false
      let inBT := inB && inputTextOKm ascii p xs
      let inPT := inIdem && inputTextOK ascii p xs
      let textIdemHolds := match serRun SerSt.init (flatten p xs) with
        | some out =>
            (match parseText (encodeText ascii out) with
             | some xs2 => decide (serRun SerSt.init (flatten p xs2) = some out)
             | none => false)
        | none => false
      -- the same through the real parser chain (`parseSource`): ser_idempotent_builder_source /
      -- ser_idempotent_parsed_text_source, side condition `noStartEndX`
      let inSrc := (inBT && noStartEndX (mergeX xs)) || (inPT && noStartEndX xs)
      let srcHolds := match serRun SerSt.init (flatten p xs) with
        | some out =>
            (match parseSource (encodeText ascii out) with
             | some xs2 => decide (serRun SerSt.init (flatten p xs2) = some out)
             | none => false)
        | none => false
      pure (.list [ofBool inDom, ofBool holds, ofBool inText, ofBool textHolds, ofBool inAscii, ofBool asciiHolds,
                   ofBool inIdem, ofBool idemHolds, ofBool inInput, ofBool inputHolds,
                   ofBool inB, ofBool bHolds, ofBool inBT, ofBool inPT, ofBool textIdemHolds,
                   ofBool inSrc, ofBool srcHolds])
  | [.atom "reparse", .str t] =>
      -- what XMLParser + EmptyTagFilter deliver for this text, according to the specification side
      -- `parseSource` = `parseText` + `<a></a>` read as `<a/>`; `agree`: the two give the same answer on this
      -- text (they must whenever no start tag is directly followed by an end tag: `parseSource_eq_parseText`)
      match parseSource t with
      | some xs => some (.list [.atom "ok", .list (xs.map xev), ofBool (decide (parseText t = some xs))])
      | none => some (.atom "N")
  | [.atom "coalesce", s] => do
      let s ← streamOfSexp? s
      pure (streamToSexp (coalesce s))
  | [.atom "qname", .str t] => some (qnameOf t).toSexp
  | [.atom "cbs", .list cs] => do
      let cs ← cs.mapM cb?
      let (es, ok) := parseCbs entityOf cs
      pure (.list [ofBool ok, streamToSexp es])
  | [.atom "et", t] => do
      let t ← etree? t
      pure (streamToSexp (etStream t))
  | _ => none

end Driver.C02

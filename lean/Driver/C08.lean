import Genshi.Wire
import Genshi.WireCore
import Genshi.Model.Reader
namespace Driver.C08
open Genshi Genshi.Reader Genshi.Sexp

def strLt : List Char → List Char → Bool
  | [], [] => false
  | [], _ :: _ => true
  | _ :: _, [] => false
  | a :: as, b :: bs => if a.toNat < b.toNat then true else if a.toNat > b.toNat then false else strLt as bs

def insertBy {α : Type} (key : α → List Char) (x : α) : List α → List α
  | [] => [x]
  | y :: ys => if strLt (key x) (key y) then x :: y :: ys else y :: insertBy key x ys

def sortBy {α : Type} (key : α → List Char) (xs : List α) : List α :=
  xs.foldl (fun acc x => insertBy key x acc) []

def hattrs (a : List (Str × Option Str)) : Sexp :=
  .list ((sortBy (·.1) a).map fun p => .list [.str p.1, optStr p.2])

def htok : HTok → List Sexp
  | .start n a => [.list [.atom "S", .str n, hattrs a]]
  | .selfClosed n => [.list [.atom "SELF", .str n]]
  | .end_ n => [.list [.atom "E", .str n]]
  | .text s => [.list [.atom "T", .str s]]
  | .comment s => [.list [.atom "C", .str s]]
  | .pi s => [.list [.atom "PI", .str s]]
  | .doctype n p s => [.list [.atom "DT", .str n, optStr p, optStr s]]
  | .badDecl s => [.list [.atom "OTHER", .str s]]

def xtok : XTok → Sexp
  | .start n a =>
      .list [.atom "S", .str n.text,
             .list ((sortBy (·.1) (a.map fun p => (p.1.text, p.2))).map fun p => .list [.str p.1, .str p.2])]
  | .end_ n => .list [.atom "E", .str n.text]
  | .text s => .list [.atom "T", .str s]
  | .comment s => .list [.atom "C", .str s]
  | .pi t d => .list [.atom "PI", .str t, .str d]
  | .doctype n p s => .list [.atom "DT", .str n, optStr p, optStr s]
  | .xmlDecl v e s => .list [.atom "XD", .str v, optStr e, .str (toString s).toList]

def handle : List Sexp → Option Sexp
  | [.atom "read", .atom "html", .str s] =>
      match readHtml s with
      | some ts => some (.list (ts.flatMap htok))
      | none => some (.atom "error")
  | [.atom "read", .atom "xhtml", .str s] =>
      match readXml s with
      | some ts => some (.list (ts.map xtok))
      | none => some (.atom "error")
  | _ => none

end Driver.C08

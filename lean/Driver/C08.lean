import Genshi.Wire
import Genshi.WireCore
import Genshi.Model.Reader
import Genshi.Model.OutputPipeline
import Genshi.Lemmas.ReaderDocView   -- specification-side definitions of the document theorems (Mathlib-free)
import Genshi.Model.OutputWsForest
import Genshi.Lemmas.OutputWsSpec     -- `normForest`, `wsDom`: specification side of the strip theorems (Mathlib-free)
import Genshi.Lemmas.ReaderTreeMixed  -- `forestMixedOk`, `forestPiecesXM`: mixed-namespace tree theorems (Mathlib-free)
import Genshi.Lemmas.ReaderXmlViewMixed  -- `forestPiecesQ`, `mergeGoQ` (Mathlib-free)
import Genshi.Lemmas.OutputMarkupForest  -- `plainF`, `mkDom`: Markup text leaves (Mathlib-free)
namespace Driver.C08
open Genshi Genshi.Reader Genshi.Output Genshi.Sexp

def strLt : List Char → List Char → Bool
  | [], [] => false
  | [], _ :: _ => true
  | _ :: _, [] => false
  | a :: as, b :: bs => if a.toNat < b.toNat then true else if a.toNat > b.toNat then false else strLt as bs

def insertBy {α : Type} (key : α → List Char) (x : α) : List α → List α
  | [] => [x]
  | y :: ys => if strLt (key x) (key y) then x :: y :: ys else y :: insertBy key x ys

def sortBy {α : Type} (key : α → List Char) (xs : List α) : List α :=
  xs.foldl (fun acc x => insertBy key x acc) []

def hattrs (a : List (Str × Option Str)) : Sexp :=
  .list ((sortBy (·.1) a).map fun p => .list [.str p.1, optStr p.2])

def htok : HTok → List Sexp
  | .start n a => [.list [.atom "S", .str n, hattrs a]]
  | .selfClosed n => [.list [.atom "SELF", .str n]]
  | .end_ n => [.list [.atom "E", .str n]]
  | .text s => [.list [.atom "T", .str s]]
  | .comment s => [.list [.atom "C", .str s]]
  | .pi s => [.list [.atom "PI", .str s]]
  | .doctype n p s => [.list [.atom "DT", .str n, optStr p, optStr s]]
  | .badDecl s => [.list [.atom "OTHER", .str s]]

def xtok : XTok → Sexp
  | .start n a =>
      .list [.atom "S", .str n.text,
             .list ((sortBy (·.1) (a.map fun p => (p.1.text, p.2))).map fun p => .list [.str p.1, .str p.2])]
  | .end_ n => .list [.atom "E", .str n.text]
  | .text s => .list [.atom "T", .str s]
  | .comment s => .list [.atom "C", .str s]
  | .pi t d => .list [.atom "PI", .str t, .str d]
  | .doctype n p s => .list [.atom "DT", .str n, optStr p, optStr s]
  | .xmlDecl v e s => .list [.atom "XD", .str v, optStr e, .str (toString s).toList]

/-! ### `expect`: the right-hand sides of the document-level round-trip theorems
    (`html_roundtrip_doc_partial`, `xhtml_roundtrip_doc_partial`), computed from the stream -/

/-- a well-nested stream as a forest; `none` when it is not well nested -/
def parseNodes : Nat → Stream → Option (List Node × Stream)
  | 0, _ => none
  | _ + 1, [] => some ([], [])
  | _ + 1, .end_ t :: rest => some ([], .end_ t :: rest)
  | fuel + 1, .start t a :: rest =>
      match parseNodes fuel rest with
      | some (kids, .end_ _ :: rest') =>
          (match parseNodes fuel rest' with
           | some (sibs, r) => some (.elem t a kids :: sibs, r)
           | none => none)
      | _ => none
  | fuel + 1, e :: rest =>
      match parseNodes fuel rest with
      | some (ns, r) => some (.leaf e :: ns, r)
      | none => none

def forestOf (s : Stream) : Option (List Node) :=
  match parseNodes (s.length + 1) s with
  | some (ns, []) => some ns
  | _ => none

/-- leading XML declaration and DOCTYPE split off -/
def splitProlog (ns : List Node) : Option DeclT × Option DocTypeT × List Node :=
  let r1 : Option DeclT × List Node := match ns with
    | .leaf (.xmlDecl v e s) :: r => (some (v, e, s), r)
    | r => (none, r)
  let r2 : Option DocTypeT × List Node := match r1.2 with
    | .leaf (.doctype n p s) :: r => (some (n, p, s), r)
    | r => (none, r)
  (r1.1, r2.1, r2.2)

/-- the namespace of the first element (the theorems are about forests in one namespace) -/
def firstNs : List Node → Str
  | [] => []
  | .elem t _ _ :: _ => t.ns
  | .leaf _ :: rest => firstNs rest

def doctype? : Sexp → Option (Option DocTypeT)
  | .atom "N" => some none
  | .list [.atom "name", .str n] => (docTypeGet n).map some
  | .list [.atom "tuple", .str n, p, s] => do
      let p ← optStr? p; let s ← optStr? s; pure (some (n, p, s))
  | _ => none

def out (why : String) : Sexp := .list [.atom "out", .atom why]

/-- does the forest hold a Markup (pre-escaped) text leaf -/
def hasMarkup (ns : List Node) : Bool :=
  (flattenList ns).any fun e => match e with
    | .text _ true => true
    | _ => false

def expectHtml (strip : Bool) (dopt : Option DocTypeT) (s : Stream) : Sexp :=
  match forestOf s with
  | none => out "not-nested"
  | some ns =>
    let (_, dt, body0) := splitProlog ns
    let u := firstNs body0
    -- with `strip_whitespace=True` the theorems speak about the normalised forest (`*_strip_partial`)
    -- Markup text leaves, strip off: the theorems speak about the plain form (`*_markup_partial`)
    let mk := !strip && hasMarkup body0 && forestUniformNs u body0
    let body := if strip then normForest .html body0 else if mk then plainF .html false body0 else body0
    if u == xmlNs then out "xml-namespace"
    else if mk && !mkDom .html body0 then out "markup-domain"
    else if !okList body0 then out "not-a-forest"
    -- forests that mix namespaces: `html_roundtrip_doc_mixed_partial` / `…_mixed_strip_partial` (same right-hand side)
    else if !forestUniformNs u body0 && !forestMixedOk body0 then out "mixed-namespaces-xml"
    else if strip && !wsDom .html body0 then out "whitespace-domain"
    else if !htmlForestOkP body then out "body-hypotheses"
    else if !dtOkOf (winDt dopt dt) || !dtNoGtOf (winDt dopt dt) then out "doctype-fields"
    else .list [.atom "ok", .list ((htmlDocView (winDt dopt dt) (forestPiecesP body)).flatMap htok)]

def expectXhtml (strip : Bool) (dropd : Bool) (dopt : Option DocTypeT) (s : Stream) : Sexp :=
  match forestOf s with
  | none => out "not-nested"
  | some ns =>
    let (decl, dt, body0) := splitProlog ns
    let u := firstNs body0
    let mk := !strip && hasMarkup body0 && forestUniformNs u body0
    let body := if strip then normForest .xhtml body0 else if mk then plainF .xhtml false body0 else body0
    if u == xmlNs then out "xml-namespace"
    else if mk && !mkDom .xhtml body0 then out "markup-domain"
    else if !docNcr u dopt decl dt body then out "carriage-return"
    else if !attrValOkB u then out "namespace-uri"
    else if !okList body0 then out "not-a-forest"
    else if !forestUniformNs u body0 then
      -- forests that mix namespaces: `xhtml_roundtrip_tree_mixed_qnames(_strip)_partial` — every element in its own
      -- namespace (`forestPiecesQ`)
      (if dopt.isSome || ns.length != body0.length || !dropd then out "mixed-namespaces"
       else if !forestMixedOk body0 then out "mixed-namespaces-xml"
       else if strip && !wsDom .xhtml body0 then out "whitespace-domain"
       else if !xhtmlForestOk body || !forestNsValsOk body then out "mixed-body-hypotheses"
       else if !xmlForestOk true body then out "mixed-not-resolvable"
       else .list [.atom "ok", .list ((mergeGoQ [] (forestPiecesQ body)).map xtok)])
    else if strip && !wsDom .xhtml body0 then out "whitespace-domain"
    else if !xKidsOkP false body then out "body-hypotheses"
    else if !xmlForestOkP true body then out "not-resolvable"
    else if !xdViewOk ⟨dropd⟩ decl then out "xmldecl-fields"
    else if !dtOkOf (winDt dopt dt) then out "doctype-fields"
    else .list [.atom "ok", .list ((xdXOf ⟨dropd⟩ decl ++ (dtXOf (winDt dopt dt) ++
      (assemble (forestPiecesXP u false body)).flatMap (xmlMapTok u))).map xtok)]

def method? : String → Option Method
  | "html" => some .html
  | "xhtml" => some .xhtml
  | "xml" => some .xml
  | _ => none

/-- `wsforest`: `WhitespaceFilter` as a function on the forest (`wsForest`), flattened again, and the
    normalised forest of the specification (`normForest`) with its domain -/
def wsForestAnswer (m : Method) (s : Stream) : Sexp :=
  match forestOf s with
  | none => out "not-nested"
  | some ns =>
    if !okList ns then out "not-a-forest"
    else .list [.atom "ok", streamToSexp (flattenList (wsForest (wsCfg m) ns)),
                (if wsDom m ns then .atom "T" else .atom "F"), streamToSexp (flattenList (normForest m ns))]

def handle : List Sexp → Option Sexp
  -- expect <method> <strip> <drop_xml_decl> <doctype> <stream>
  | [.atom "expect", .atom m, strip, dropd, dt, s] => do
      let strip ← strip.toBool?
      let dropd ← dropd.toBool?
      let s ← streamOfSexp? s
      match doctype? dt with
      | none => pure (.atom "unmodelled")
      | some dt =>
        if m == "html" then pure (expectHtml strip dt s)
        else if m == "xhtml" then pure (expectXhtml strip dropd dt s)
        else none
  -- wsforest <method> <stream>
  | [.atom "wsforest", .atom m, s] => do
      let m ← method? m
      let s ← streamOfSexp? s
      pure (wsForestAnswer m s)
  | [.atom "read", .atom "html", .str s] =>
      match readHtml s with
      | some ts => some (.list (ts.flatMap htok))
      | none => some (.atom "error")
  | [.atom "read", .atom "xhtml", .str s] =>
      match readXml s with
      | some ts => some (.list (ts.map xtok))
      | none => some (.atom "error")
  | _ => none

end Driver.C08

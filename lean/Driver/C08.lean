import Genshi.Wire
namespace Driver.C08
open Genshi

/-- stub: the model driver for C08 is not built yet -/
def handle : List Sexp → Option Sexp := fun _ => none

end Driver.C08

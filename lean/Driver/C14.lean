import Genshi.Wire
namespace Driver.C14
open Genshi

/-- stub: the model driver for C14 is not built yet -/
def handle : List Sexp → Option Sexp := fun _ => none

end Driver.C14

import Genshi.Model.ExecLru
import Genshi.Wire
import Genshi.Model.Exec
import Genshi.Model.ExecGraph
import Genshi.Model.ExecParse
import Genshi.Model.ExecShape
import Genshi.Model.ExecMemo
namespace Driver.C14
open Genshi Genshi.Exec Genshi.Sexp

def cls? : Sexp → Option Cls
  | .atom "Markup" => some .markup
  | .atom "Newtext" => some .newtext
  | .atom "Oldtext" => some .oldtext
  | _ => none

def src? : Sexp → Option Src
  | .atom "Str" => some .str
  | .atom "Bytes" => some .bytes
  | .atom "File" => some .file
  | .atom "Stream" => some .stream
  | _ => none

def req? : Sexp → Option Req
  | .atom "Dflt" => some .dflt
  | .atom "Off" => some .off
  | .atom "On" => some .on
  | _ => none

def parse? : Sexp → Option Parse
  | .atom "Same" => some .same
  | .atom "Xml" => some .xml
  | .atom "Text" => some .text
  | _ => none

def plugin? : Sexp → Option Plugin
  | .atom "Markup" => some .markup
  | .atom "Text" => some .text
  | .atom "Newtext" => some .newtext
  | _ => none

def opt? : Sexp → Option Opt
  | .list [.atom "Absent"] => some .absent
  | .list [.atom "None"] => some .none
  | .list [.atom "Bool", b] => b.toBool?.map .bool
  | .list [.atom "Int", n] => n.toNat?.map .int
  | .list [.atom "Str", .str s] => some (.str s)
  | _ => none

def root? : Sexp → Option Root
  | .list [.atom "Direct", c, s, own] => do
      let c ← cls? c; let s ← src? s; let own ← own.toBool?; pure (.direct c s own)
  | .list [.atom "Load", c, d] => do
      let c ← cls? c; let d ← d.toBool?; pure (.load c d)
  | .list [.atom "Pfile", p] => do let p ← plugin? p; pure (.pluginFile p)
  | .list [.atom "Pstr", p] => do let p ← plugin? p; pure (.pluginString p)
  | _ => none

def cfg? (t l o ar : Sexp) : Option Config := do
  let t ← req? t; let l ← req? l; let o ← opt? o; let ar ← ar.toBool?
  pure ⟨t, l, o, ar⟩

def clsOut : Cls → Sexp
  | .markup => .atom "markup" | .newtext => .atom "newtext" | .oldtext => .atom "oldtext"

def verdictOut : Verdict → Sexp
  | .exec => .atom "exec" | .reject => .atom "reject" | .inert => .atom "inert" | .failed => .atom "failed"

def optResOut : OptRes → Sexp
  | .allow => .atom "allow" | .deny => .atom "deny" | .confError => .atom "confError" | .failed => .atom "failed"

def nodeOut : Option Node → Sexp
  | none => .atom "none"
  | some n => .list [clsOut n.cls, verdictOut n.verdict, ofBool n.loaderFlag, ofBool n.autoReload]

/-- every prefix of the include chain, root first -/
def prefixes (r : Reach) : List Parse → List Reach
  | [] => [r]
  | p :: ps => r :: prefixes (.incl r p) ps

def item? : Sexp → Option Item
  | .list [.atom "T", i] => i.toNat?.map .text
  | .list [.atom "E", i] => i.toNat?.map .expr
  | .list [.atom "C", i, m] => do let i ← i.toNat?; let m ← m.toNat?; pure (.code i m)
  | .list [.atom "I", n, p, d] => do
      let n ← n.toNat?; let p ← parse? p; let d ← d.toBool?; pure (.incl n p d)
  | _ => none

def file? : Sexp → Option (Nat × File)
  | .list [n, c, .list items] => do
      let n ← n.toNat?; let c ← cls? c; let items ← items.mapM item?; pure (n, ⟨c, items⟩)
  | _ => none

def errOut : Option Err → Sexp
  | none => .atom "ok"
  | some (.syntax n) => .list [.atom "Syntax", ofNat n]
  | some (.notFound n) => .list [.atom "notfound", ofNat n]
  | some .diverge => .atom "diverge"
  | some .config => .atom "config"
  | some .unmodelled => .atom "unmodelled"

mutual
def sk? : Sexp → Option Sk
  | .atom "V" => some .ev
  | .atom "X" => some .exec
  | .list (.atom "S" :: body) => (sklAux body).map .sub
  | .list (.atom "I" :: fb) => (sklAux fb).map .incl
  | _ => none
def sklAux : List Sexp → Option (List Sk)
  | [] => some []
  | x :: xs => match sk? x, sklAux xs with
      | some a, some b => some (a :: b)
      | _, _ => none
end

def skl? : Sexp → Option (List Sk)
  | .list xs => sklAux xs
  | _ => none

def natsOut (xs : List Nat) : Sexp := .list (xs.map ofNat)

/-! parse-level model: the environment (interpolate / Suite / directive table) arrives as tables -/
open Genshi.Exec.Parse in
def tev? : Sexp → Option TEv
  | .list [.atom "T", .str s] => some (.text s)
  | .list [.atom "E", .str s] => some (.expr s)
  | _ => none

open Genshi.Exec.Parse in
def interpRow? : Sexp → Option (List Char × Except PErr (List TEv))
  | .list [.str s, .atom "Err"] => some (s, .error .badExpr)
  | .list [.str s, .list evs] => do let evs ← evs.mapM tev?; pure (s, .ok evs)
  | _ => none

open Genshi.Exec.Parse in
def mkEnv (interp : List (List Char × Except PErr (List TEv))) (good : List (List Char))
    (dirs : List (List Char)) : Env :=
  { interp := fun s => match interp.lookup s with
      | some r => r
      | none => .ok [.text s],
    compiles := fun s => good.contains s,
    knownDirective := fun c => dirs.contains c }

open Genshi.Exec.Parse in
def xev? : Sexp → Option XEv
  | .list [.atom "T", .str s] => some (.text s)
  | .list [.atom "P", .str t, .str d] => some (.pi t d)
  | .list [.atom "C", .str s] => some (.comment s)
  | .list [.atom "O", n] => n.toNat?.map .other
  | _ => none

open Genshi.Exec.Parse in
def seg? : Sexp → Option Seg
  | .list [.atom "T", .str s] => some (.text s)
  | .list [.atom "D", .str c, .str v] => some (.dir c v)
  | .list [.atom "C"] => some .comment
  | _ => none

open Genshi.Exec.Parse in
partial def tevOut : TEv → Sexp
  | .text _ => .atom "T"
  | .expr _ => .atom "E"
  | .exec _ => .atom "X"
  | .comment _ => .atom "C"
  | .pi _ _ => .atom "P"
  | .other n => .list [.atom "O", ofNat n]
  | .incl _ => .atom "I"
  | .sub d _ body => .list [.atom "S", .str d, .list (body.map tevOut)]

open Genshi.Exec.Parse in
def perrOut : PErr → Sexp
  | .notAllowed => .atom "notAllowed"
  | .badCode => .atom "badCode"
  | .badExpr => .atom "badExpr"
  | .badDirective => .atom "badDirective"

open Genshi.Exec.Parse in
def parseOut : Except PErr (List TEv) → Sexp
  | .ok evs => .list [.atom "ok", .list (evs.map tevOut)]
  | .error e => .list [.atom "err", perrOut e]

def handle : List Sexp → Option Sexp
  | [.atom "pmarkup", flag, .list interp, .list good, .list evs] => do
      let flag ← flag.toBool?
      let interp ← interp.mapM interpRow?
      let good ← good.mapM Sexp.toStr?
      let evs ← evs.mapM xev?
      pure (parseOut (Genshi.Exec.Parse.parseMarkup (mkEnv interp good []) flag evs []))
  | [.atom "ptext", flag, .list interp, .list good, .list dirs, .list segs] => do
      let flag ← flag.toBool?
      let interp ← interp.mapM interpRow?
      let good ← good.mapM Sexp.toStr?
      let dirs ← dirs.mapM Sexp.toStr?
      let segs ← segs.mapM seg?
      pure (parseOut (Genshi.Exec.Parse.parseText (mkEnv interp good dirs) flag segs [] [] 0))
  | [.atom "render", t, l, o, ar, root, .list files, rootName, .list history] => do
      let cfg ← cfg? t l o ar
      let root ← root? root
      let fs ← files.mapM file?
      let rootName ← rootName.toNat?
      let history ← history.mapM Sexp.toNat?
      let fuel := fs.length + 3
      let r := run fuel fuel cfg root fs rootName history
      if r.err == some .unmodelled then pure (.atom "unmodelled") else
      pure (.list [errOut r.err, natsOut r.sentinel, natsOut r.out, .list (r.history.map errOut)])
  -- `C14 lruhist <cap> <flag> <autoReload> ( files ) ( ( name cls ) … )`: load-and-render calls
  -- through one loader with `max_cache_size = cap`; per call the error and the output, then the
  -- sentinel
  | [.atom "lruhist", cap, flag, ar, .list files, .list history] => do
      let cap ← cap.toNat?; let flag ← flag.toBool?; let ar ← ar.toBool?
      let fs ← files.mapM file?
      let history ← history.mapM fun
        | .list [n, c] => do let n ← n.toNat?; let c ← cls? c; pure (n, c)
        | _ => none
      let fuel := fs.length + 3
      let step := fun (acc : St × List Sexp × Bool) (nc : Nat × Cls) =>
        let st := acc.1
        let r := histStepB cap fuel fuel fs st nc.1 nc.2
        let out : List Nat := match loadB cap fs st nc.1 nc.2 with
          | .error _ => []
          | .ok (st', t) => (genB cap fuel fuel fs true t.cls [nc.1] t { st' with out := [] }).1.out
        (r.1, acc.2.1 ++ [.list [errOut r.2, natsOut out]], acc.2.2 || r.2 == some .unmodelled)
      let fin := history.foldl step (st0 flag ar, [], false)
      if fin.2.2 then pure (.atom "unmodelled") else
      pure (.list [.list fin.2.1, natsOut fin.1.sentinel,
        .list (fin.1.cache.map fun e => .list [ofNat e.1.1, ofBool e.1.2])])
  | [.atom "memohist", cap, flag, ar, .list files, .list history] => do
      let cap ← cap.toNat?; let flag ← flag.toBool?; let ar ← ar.toBool?
      let fs ← files.mapM file?
      let history ← history.mapM fun
        | .list [n, c] => do let n ← n.toNat?; let c ← cls? c; pure (n, c)
        | _ => none
      let fuel := fs.length + 3
      let step := fun (acc : MSt × List Sexp × Bool) (nc : Nat × Cls) =>
        let r := histStepM cap fuel fuel fs acc.1 nc.1 nc.2
        ({ r.1 with out := [] }, acc.2.1 ++ [.list [errOut r.2, natsOut (if r.2.isNone then r.1.out else [])]],
          acc.2.2 || r.2 == some .unmodelled)
      let fin := history.foldl step (mst0 flag ar, [], false)
      if fin.2.2 then pure (.atom "unmodelled") else
      pure (.list [.list fin.2.1, natsOut fin.1.sentinel,
        .list (fin.1.cache.map fun e => .list [ofNat e.1.1, ofBool e.1.2, ofBool e.2.prep.isSome])])
  | [.atom "reach", t, l, o, ar, root, .list chain] => do
      let cfg ← cfg? t l o ar
      let root ← root? root
      let chain ← chain.mapM parse?
      pure (.list ((prefixes (.root root) chain).map fun r => nodeOut (node cfg r)))
  | [.atom "objskel", sk] => do
      let sk ← skl? sk
      pure (.list [ofBool (hasExecL sk), ofBool (flatExec sk), ofNat (execDepthL sk)])
  | [.atom "reachshape", t, l, o, ar, root, .list chain, k] => do
      let cfg ← cfg? t l o ar; let r ← root? root; let chain ← chain.mapM parse?; let k ← k.toNat?
      pure (match reachRow cfg (chain.foldl Reach.incl (.root r)) k with
        | none => .atom "none"
        | some row => .list [clsOut row.cls, .atom (match row.err with | .none => "ok" | .syntax => "Syntax" | .other => "other"),
            ofBool row.ran, ofBool row.execExists, ofBool row.flag])
  | [.atom "parseopt", o] => do let o ← opt? o; pure (optResOut (parseOpt o))
  | _ => none

end Driver.C14

import Genshi.Wire
import Genshi.Model.PyAst
/-! wire form of `Genshi.Py` syntax trees and tokens (see `harness/gen_pyexpr.py:to_wire`) -/
namespace Driver.PyWire
open Genshi Genshi.Py Genshi.Sexp

def ckind? : String → Option CKind
  | "INT" => some .int | "FLOAT" => some .float | "COMPLEX" => some .complex | "STR" => some .str
  | "BYTES" => some .bytes | "TRUE" => some .true_ | "FALSE" => some .false_ | "NONE" => some .none_
  | "ELLIPSIS" => some .ellipsis | _ => none

def ckindName : CKind → String
  | .int => "INT" | .float => "FLOAT" | .complex => "COMPLEX" | .str => "STR" | .bytes => "BYTES"
  | .true_ => "TRUE" | .false_ => "FALSE" | .none_ => "NONE" | .ellipsis => "ELLIPSIS"

def optStr? : Sexp → Option (Option Str)
  | .atom "N" => some none
  | .str s => some (some s)
  | _ => none

mutual
partial def decE : Sexp → Option PyExpr
  | .list [.atom "Name", .str s] => some (.name s)
  | .list [.atom "Const", .atom k, .str t] => do let kind ← ckind? k; pure (.const ⟨kind, t⟩)
  | .list [.atom "BoolOp", .str op, .list vs] => do pure (.boolOp op (← vs.mapM decE))
  | .list [.atom "BinOp", l, .str op, r] => do pure (.binOp (← decE l) op (← decE r))
  | .list [.atom "UnaryOp", .str op, e] => do pure (.unaryOp op (← decE e))
  | .list [.atom "Lambda", .list [.atom "Args", .list po, .list ar, va, .list ko, ka], body] => do
      pure (.lambda (← po.mapM decE) (← ar.mapM decE) (← decO va) (← ko.mapM decE) (← decO ka) (← decE body))
  | .list [.atom "IfExp", t, b, o] => do pure (.ifExp (← decE t) (← decE b) (← decE o))
  | .list [.atom "Dict", .list items] => do
      pure (.dict (← items.mapM fun
        | .list [k, v] => do pure (PyExpr.dictItem (← decO k) (← decE v))
        | _ => none))
  | .list [.atom "ListComp", elt, .list gens] => do pure (.listComp (← decE elt) (← gens.mapM decE))
  | .list [.atom "GeneratorExp", elt, .list gens] => do pure (.genExp (← decE elt) (← gens.mapM decE))
  | .list [.atom "comp", t, it, .list ifs, a] => do
      pure (.comp (← decE t) (← decE it) (← ifs.mapM decE) (← a.toBool?))
  | .list [.atom "Yield", v] => do pure (.yield_ (← decO v))
  | .list [.atom "Compare", l, .list rest] => do
      pure (.compare (← decE l) (← rest.mapM fun
        | .list [.str op, e] => do pure (PyExpr.cmpRhs op (← decE e))
        | _ => none))
  | .list [.atom "Call", f, .list args, .list kws] => do
      pure (.call (← decE f) (← args.mapM decE) (← kws.mapM decE))
  | .list [.atom "kw", n, v] => do pure (.keyword (← optStr? n) (← decE v))
  | .list [.atom "param", .str n, ann, d] => do pure (.param n (← decO ann) (← decO d))
  | .list [.atom "Attribute", v, .str a] => do pure (.attribute (← decE v) a)
  | .list [.atom "Subscript", v, s] => do pure (.subscript (← decE v) (← decE s))
  | .list [.atom "Slice", l, u, s] => do pure (.slice (← decO l) (← decO u) (← decO s))
  | .list [.atom "Starred", e] => do pure (.starred (← decE e))
  | .list [.atom "List", .list es] => do pure (.list (← es.mapM decE))
  | .list [.atom "Tuple", .list es] => do pure (.tuple (← es.mapM decE))
  | .list [.atom "Unsupported", .str k] => some (.unsupported k)
  | _ => none
partial def decO : Sexp → Option (Option PyExpr)
  | .atom "N" => some none
  | x => do pure (some (← decE x))
end

def optS (o : Option Str) : Sexp := match o with | none => .atom "N" | some s => .str s

mutual
partial def encE : PyExpr → Sexp
  | .name s => .list [.atom "Name", .str s]
  | .const c => .list [.atom "Const", .atom (ckindName c.kind), .str c.text]
  | .boolOp op vs => .list [.atom "BoolOp", .str op, .list (vs.map encE)]
  | .binOp l op r => .list [.atom "BinOp", encE l, .str op, encE r]
  | .unaryOp op e => .list [.atom "UnaryOp", .str op, encE e]
  | .lambda po ar va ko ka body =>
      .list [.atom "Lambda", .list [.atom "Args", .list (po.map encE), .list (ar.map encE), encO va,
                                    .list (ko.map encE), encO ka], encE body]
  | .ifExp t b o => .list [.atom "IfExp", encE t, encE b, encE o]
  | .dict items => .list [.atom "Dict", .list (items.map fun
      | .dictItem k v => .list [encO k, encE v]
      | e => encE e)]
  | .listComp elt gens => .list [.atom "ListComp", encE elt, .list (gens.map encE)]
  | .genExp elt gens => .list [.atom "GeneratorExp", encE elt, .list (gens.map encE)]
  | .comp t it ifs a => .list [.atom "comp", encE t, encE it, .list (ifs.map encE), ofBool a]
  | .yield_ v => .list [.atom "Yield", encO v]
  | .compare l rest => .list [.atom "Compare", encE l, .list (rest.map fun
      | .cmpRhs op e => .list [.str op, encE e]
      | e => encE e)]
  | .call f args kws => .list [.atom "Call", encE f, .list (args.map encE), .list (kws.map encE)]
  | .keyword n v => .list [.atom "kw", optS n, encE v]
  | .param n ann d => .list [.atom "param", .str n, encO ann, encO d]
  | .attribute v a => .list [.atom "Attribute", encE v, .str a]
  | .subscript v s => .list [.atom "Subscript", encE v, encE s]
  | .slice l u s => .list [.atom "Slice", encO l, encO u, encO s]
  | .starred e => .list [.atom "Starred", encE e]
  | .list es => .list [.atom "List", .list (es.map encE)]
  | .tuple es => .list [.atom "Tuple", .list (es.map encE)]
  | .unsupported k => .list [.atom "Unsupported", .str k]
  | .dictItem k v => .list [.atom "dictItem", encO k, encE v]
  | .cmpRhs op e => .list [.atom "cmpRhs", .str op, encE e]
partial def encO : Option PyExpr → Sexp
  | none => .atom "N"
  | some e => encE e
end

def alias? : Sexp → Option (Str × Option Str)
  | .list [.str n, a] => do pure (n, ← optStr? a)
  | _ => none

mutual
partial def decS : Sexp → Option PyStmt
  | .list [.atom "Expr", e] => do pure (.expr (← decE e))
  | .list [.atom "Assign", .list ts, v] => do pure (.assign (← ts.mapM decE) (← decE v))
  | .list [.atom "AugAssign", t, .str op, v] => do pure (.augAssign (← decE t) op (← decE v))
  | .list [.atom "Return", v] => do pure (.return_ (← decO v))
  | .list [.atom "Delete", .list ts] => do pure (.delete (← ts.mapM decE))
  | .list [.atom "Pass"] => some .pass_
  | .list [.atom "Break"] => some .break_
  | .list [.atom "Continue"] => some .continue_
  | .list [.atom "Assert", t, m] => do pure (.assert_ (← decE t) (← decO m))
  | .list [.atom "Raise", e, c] => do pure (.raise_ (← decO e) (← decO c))
  | .list [.atom "Global", .list ns] => do pure (.global_ (← ns.mapM Sexp.toStr?))
  | .list [.atom "Import", .list ns] => do pure (.import_ (← ns.mapM alias?))
  | .list [.atom "ImportFrom", m, .list ns, lvl] => do
      pure (.importFrom (← optStr? m) (← ns.mapM alias?) (← lvl.toNat?))
  | .list [.atom "If", t, .list b, .list o] => do pure (.if_ (← decE t) (← b.mapM decS) (← o.mapM decS))
  | .list [.atom "While", t, .list b, .list o] => do pure (.while_ (← decE t) (← b.mapM decS) (← o.mapM decS))
  | .list [.atom "For", t, it, .list b, .list o] => do
      pure (.for_ (← decE t) (← decE it) (← b.mapM decS) (← o.mapM decS))
  | .list [.atom "With", .list items, .list b] => do
      pure (.with_ (← items.mapM fun
        | .list [c, v] => do pure ((← decE c), (← decO v))
        | _ => none) (← b.mapM decS))
  | .list [.atom "Try", .list b, .list hs, .list o, .list f] => do
      pure (.try_ (← b.mapM decS) (← hs.mapM decS) (← o.mapM decS) (← f.mapM decS))
  | .list [.atom "handler", t, n, .list b] => do pure (.handler (← decO t) (← optStr? n) (← b.mapM decS))
  | .list [.atom "FunctionDef", .str name, .list [.atom "Args", .list po, .list ar, va, .list ko, ka],
           .list body, .list decos, ret, tp] => do
      pure (.functionDef name (← po.mapM decE) (← ar.mapM decE) (← decO va) (← ko.mapM decE) (← decO ka)
              (← body.mapM decS) (← decos.mapM decE) (← decO ret) (← tp.toBool?))
  | .list [.atom "ClassDef", .str name, .list bases, .list kws, .list body, .list decos, tp] => do
      pure (.classDef name (← bases.mapM decE) (← kws.mapM decE) (← body.mapM decS) (← decos.mapM decE) (← tp.toBool?))
  | .list [.atom "UnsupportedStmt", .str k] => some (.unsupported k)
  | _ => none
end

def encTok : Tok → Sexp
  | .name s => .list [.atom "NAME", .str s]
  | .op s => .list [.atom "OP", .str s]
  | .num s => .list [.atom "NUM", .str s]
  | .str s => .list [.atom "STR", .str s]

def decTok : Sexp → Option Tok
  | .list [.atom "NAME", .str s] => some (.name s)
  | .list [.atom "OP", .str s] => some (.op s)
  | .list [.atom "NUM", .str s] => some (.num s)
  | .list [.atom "STR", .str s] => some (.str s)
  | _ => none

def encLine (l : Line) : Sexp := .list [ofNat l.indent, .list (l.toks.map encTok)]

def decLine : Sexp → Option Line
  | .list [n, .list ts] => do pure ⟨← n.toNat?, ← ts.mapM decTok⟩
  | _ => none

def optE (o : Option PyExpr) : Sexp := encO o

def encAlias (a : Str × Option Str) : Sexp := .list [.str a.1, optS a.2]

def encArgs (po ar : List PyExpr) (va : Option PyExpr) (ko : List PyExpr) (ka : Option PyExpr) : Sexp :=
  .list [.atom "Args", .list (po.map encE), .list (ar.map encE), encO va, .list (ko.map encE), encO ka]

partial def encS : PyStmt → Sexp
  | .expr e => .list [.atom "Expr", encE e]
  | .assign ts v => .list [.atom "Assign", .list (ts.map encE), encE v]
  | .augAssign t op v => .list [.atom "AugAssign", encE t, .str op, encE v]
  | .return_ v => .list [.atom "Return", encO v]
  | .delete ts => .list [.atom "Delete", .list (ts.map encE)]
  | .pass_ => .list [.atom "Pass"]
  | .break_ => .list [.atom "Break"]
  | .continue_ => .list [.atom "Continue"]
  | .assert_ t m => .list [.atom "Assert", encE t, encO m]
  | .raise_ e c => .list [.atom "Raise", encO e, encO c]
  | .global_ ns => .list [.atom "Global", .list (ns.map .str)]
  | .import_ ns => .list [.atom "Import", .list (ns.map encAlias)]
  | .importFrom m ns lvl => .list [.atom "ImportFrom", optS m, .list (ns.map encAlias), ofNat lvl]
  | .if_ t b o => .list [.atom "If", encE t, .list (b.map encS), .list (o.map encS)]
  | .while_ t b o => .list [.atom "While", encE t, .list (b.map encS), .list (o.map encS)]
  | .for_ t it b o => .list [.atom "For", encE t, encE it, .list (b.map encS), .list (o.map encS)]
  | .with_ items b => .list [.atom "With", .list (items.map fun (c, v) => .list [encE c, encO v]), .list (b.map encS)]
  | .try_ b hs o f => .list [.atom "Try", .list (b.map encS), .list (hs.map encS), .list (o.map encS), .list (f.map encS)]
  | .handler t n b => .list [.atom "handler", encO t, optS n, .list (b.map encS)]
  | .functionDef name po ar va ko ka body decos ret tp =>
      .list [.atom "FunctionDef", .str name, encArgs po ar va ko ka, .list (body.map encS), .list (decos.map encE), encO ret, ofBool tp]
  | .classDef name bases kws body decos tp =>
      .list [.atom "ClassDef", .str name, .list (bases.map encE), .list (kws.map encE), .list (body.map encS), .list (decos.map encE), ofBool tp]
  | .unsupported k => .list [.atom "UnsupportedStmt", .str k]

end Driver.PyWire

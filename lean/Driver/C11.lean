import Genshi.Wire
import Genshi.Model.Incl
namespace Driver.C11
open Genshi Genshi.Incl Genshi.Sexp

/-
  verbs
    render <inline|inline-marked|runtime> <fuel> <files> <entry> <markup|text> <data>
        (inline: prepared streams as the code leaves them; inline-marked: with the cost markers of the exact-fuel theorem)
        files = ( dir … )   dir = ( ( name kind body ) … )   body = N (ill-formed) | ( node … )
        node  = ( text s ) ( var x ) ( elem tag ( node … ) ) ( if ( var|not x ) ( node … ) )
                ( for x xs ( node … ) ) ( def m ( node … ) ) ( call m ) ( match tag ( node … ) ) ( content )
                ( include href cls fb )      href = ( fix s ) | ( dyn ( lit s ) | ( var x ) … )
                                             cls = markup|text    fb = N | ( node … )
        data  = ( ( name value ) … )   value = ( v str ) | ( l value … )
      → ( ok ( S tag ) | ( E tag ) | ( T s ) … ) | ( err NotFound|Syntax|Undefined ) | fuel | unmodelled
    chain <inline|inline-marked|runtime> <fuel> <files> ( ( entry kind data ) … )
        → ( outcome … ) : the requests answered one after the other through one loader
    loads <files> ( ( name kind ) … ) → ( ( ok | ( err … ) ( prepared … ) ) … ) : loads without rendering, through one loader
    kept <files> <entry> <kind>   → ( ok target … ) | err : resolved targets of the statically named includes
                                    still present in the prepared entry, in document order
    inh <files>            → T | F     (the theorem's hypothesis, with T = all match tags of the file set)
    inh <files> w          → ( T|F T|F T|F )   inH, inHW (the hypothesis without "every file is well-formed"), inHS (the
                                               hypothesis of runtime = specification with match templates)
    resolve <pos> <href>   → name | N
-/

def kind? : Sexp → Option Kind
  | .atom "markup" => some .markup
  | .atom "text" => some .text
  | _ => none

def part? : Sexp → Option Part
  | .list [.atom "lit", .str s] => some (.lit s)
  | .list [.atom "var", .str x] => some (.var x)
  | _ => none

def href? : Sexp → Option Href
  | .list [.atom "fix", .str s] => some (.static s)
  | .list (.atom "dyn" :: ps) => (ps.mapM part?).map .dyn
  | _ => none

def cond? : Sexp → Option Cond
  | .list [.atom "var", .str x] => some (.var x)
  | .list [.atom "not", .str x] => some (.notVar x)
  | _ => none

mutual
partial def node? (pos : Name) : Sexp → Option Node
  | .list [.atom "text", .str s] => some (.text s)
  | .list [.atom "var", .str x] => some (.var x)
  | .list [.atom "call", .str m] => some (.call m)
  | .list [.atom "content"] => some .select
  | .list [.atom "elem", .str t, .list b] => (nodes? pos b).map (.elem t)
  | .list [.atom "if", c, .list b] => do let c ← cond? c; let b ← nodes? pos b; pure (.cond c b)
  | .list [.atom "for", .str x, .str xs, .list b] => (nodes? pos b).map (.loop x xs)
  | .list [.atom "def", .str m, .list b] => (nodes? pos b).map (.defn m)
  | .list [.atom "match", .str t, .list b] => (nodes? pos b).map (.matchT t)
  | .list [.atom "include", h, k, .atom "N"] => do
      let h ← href? h; let k ← kind? k; pure (.include h k false [] pos)
  | .list [.atom "include", h, k, .list fb] => do
      let h ← href? h; let k ← kind? k; let fb ← nodes? pos fb; pure (.include h k true fb pos)
  | _ => none
partial def nodes? (pos : Name) (xs : List Sexp) : Option (List Node) := xs.mapM (node? pos)
end

def file? : Sexp → Option (Name × File)
  | .list [.str name, k, .atom "N"] => do let k ← kind? k; pure (name, ⟨k, none⟩)
  | .list [.str name, k, .list b] => do let k ← kind? k; let b ← nodes? name b; pure (name, ⟨k, some b⟩)
  | _ => none

def files? : Sexp → Option Files
  | .list ds => ds.mapM fun
    | .list fs => fs.mapM file?
    | _ => none
  | _ => none

partial def value? : Sexp → Option Value
  | .list [.atom "v", .str s] => some (.str s)
  | .list (.atom "l" :: vs) => (vs.mapM value?).map .list
  | _ => none

def data? : Sexp → Option (List (Name × Value))
  | .list kvs => kvs.mapM fun
    | .list [.str k, v] => do let v ← value? v; pure (k, v)
    | _ => none
  | _ => none

/-- what a text template can express (no syntax for elements and match templates; an include
carries the template's own class and the empty fallback) -/
partial def textOk : List Node → Bool
  | [] => true
  | n :: ns =>
    (match n with
     | .text _ | .var _ | .call _ => true
     | .cond _ b | .loop _ _ b | .defn _ b => textOk b
     | .include _ cls hasFb fb _ => cls == .text && hasFb && fb.isEmpty
     | _ => false) && textOk ns

def modelled (files : Files) : Bool :=
  files.all fun d => d.all fun e =>
    match e.2.kind, e.2.body with
    | .text, some b => textOk b
    | _, _ => true

def evOut : Ev → Sexp
  | .start t => .list [.atom "S", .str t]
  | .stop t => .list [.atom "E", .str t]
  | .text s => .list [.atom "T", .str s]

def resOut : Res (List Ev) → Sexp
  | .fuel => .atom "fuel"
  | .err .unmodelled => .atom "unmodelled"
  | .err .notFound => .list [.atom "err", .atom "NotFound"]
  | .err .syntaxErr => .list [.atom "err", .atom "Syntax"]
  | .err .undefined => .list [.atom "err", .atom "Undefined"]
  | .ok evs => .list (.atom "ok" :: evs.map evOut)

def handle : List Sexp → Option Sexp
  | [.atom "render", .atom mode, fuel, files, .str entry, kind, data] => do
      let fuel ← fuel.toNat?
      let files ← files? files
      let kind ← kind? kind
      let data ← data? data
      if !modelled files then pure (.atom "unmodelled") else
      match mode with
      | "inline" => pure (resOut (renderInlineReal files entry kind data fuel))
      | "inline-marked" => pure (resOut (renderInline files entry kind data fuel))
      | "runtime" => pure (resOut (renderRuntime files entry kind data fuel))
      -- the specification evaluator (an include stands for its target), where `runtime_eq_spec_partial` speaks
      | "inplace" => pure (if noMtFiles files || inHS (matchTags files) files
                           then resOut (renderSpec files entry kind data fuel) else .atom "na")
      | _ => none
  | [.atom "chain", .atom mode, fuel, files, .list reqs] => do
      let fuel ← fuel.toNat?
      let files ← files? files
      let reqs ← reqs.mapM fun
        | .list [.str entry, kind, data] => do
            let kind ← kind? kind
            let data ← data? data
            pure ((entry, kind, data) : Req)
        | _ => none
      if !modelled files then pure (.atom "unmodelled") else
      let m ← match mode with
        | "inline" => some Mode.inlineU
        | "inline-marked" => some Mode.inlineM
        | "runtime" => some Mode.runtime
        | _ => none
      -- `renderSeqF`: after a failed render the loader keeps what it had loaded and prepared on the way
      pure (.list ((renderSeqF m files fuel [] reqs).map fun x => resOut x.1))
  | [.atom "chainc", .atom mode, fuel, files, .list reqs] => do
      -- the same, and after every request the names of the prepared templates the loader holds (oldest first)
      let fuel ← fuel.toNat?
      let files ← files? files
      let reqs ← reqs.mapM fun
        | .list [.str entry, kind, data] => do
            let kind ← kind? kind
            let data ← data? data
            pure ((entry, kind, data) : Req)
        | _ => none
      if !modelled files then pure (.atom "unmodelled") else
      let m ← match mode with
        | "inline" => some Mode.inlineU
        | "inline-marked" => some Mode.inlineM
        | "runtime" => some Mode.runtime
        | _ => none
      pure (.list ((renderSeqF m files fuel [] reqs).map fun x =>
        .list [resOut x.1, .list (x.2.reverse.map fun e => .str e.1)]))
  | [.atom "loads", files, .list reqs] => do
      -- `loader.load(name, cls).stream` for every name in turn through one loader with auto_reload off, nothing
      -- rendered: the outcome and the names of the prepared templates the loader holds afterwards (oldest first);
      -- a load that raises leaves what was prepared inside it (`loadInlC`)
      let files ← files? files
      let reqs ← reqs.mapM fun
        | .list [.str n, k] => do let k ← kind? k; pure (n, k)
        | _ => none
      if !modelled files then pure (.atom "unmodelled") else
      let names := fun (c : Cache) => Sexp.list (c.reverse.map fun e => .str e.1)
      let step := fun (acc : Cache × List Sexp) (q : Name × Kind) =>
        match loadInl files q.1 q.2 acc.1 with
        | .ok r => (r.2, acc.2 ++ [.list [.atom "ok", names r.2]])
        | .err e =>
          let c := loadInlC files q.1 q.2 acc.1
          (c, acc.2 ++ [.list [resOut (.err e), names c]])
        | .fuel => (acc.1, acc.2 ++ [.list [.atom "fuel", names acc.1]])
      pure (.list (reqs.foldl step ([], [])).2)
  | [.atom "kept", files, .str entry, kind] => do
      let files ← files? files
      let kind ← kind? kind
      match loadInl files entry kind [] with
      | .ok r => pure (.list (.atom "ok" :: (targetsL r.1).map .str))
      | .err _ => pure (.atom "err")
      | .fuel => pure (.atom "fuel")
  | [.atom "inh", files] => do
      let files ← files? files
      pure (ofBool (inH (matchTags files) files))
  | [.atom "inh", files, .atom "w"] => do
      -- both hypotheses: inH, and inHW (ill-formed files allowed)
      let files ← files? files
      pure (.list [ofBool (inH (matchTags files) files), ofBool (inHW (matchTags files) files),
                   ofBool (inHS (matchTags files) files)])
  | [.atom "resolve", .str pos, .str href] =>
      match resolve pos href with
      | some n => some (.str n)
      | none => some (.atom "N")
  | _ => none

end Driver.C11

import Genshi.Wire
namespace Driver.C11
open Genshi

/-- stub: the model driver for C11 is not built yet -/
def handle : List Sexp → Option Sexp := fun _ => none

end Driver.C11

import Genshi.Wire
import Genshi.WireCore
import Genshi.Model.Path
import Genshi.Model.PathParse
import Genshi.Model.PathPrint
import Genshi.Model.PathStrategy
import Genshi.Model.PathRef
/-
  Driver verbs for C05 (and shared encoders for C17):

    C05 parse  <text>                          -> ( ok <locpath>… ) | ( err <kind> )
    C05 run    <text> <nsmap> <vars> <events>  -> ( ok <item>… ) | ( err <kind> ) | unmodelled
    C05 runf <strategy> <text> …            -> the same with every location path forced onto one strategy
    C05 xp     <text> <nsmap> <vars> <events>  -> reference result ( ok <item>… ) | unmodelled
    C05 pred   <text> <nsmap> <vars> <event>   -> value of the first predicate of the first step on the event
    C05 num    <text>                          -> XPath number of a string, printed back
    C05 print | printa  <text>                 -> ( noparse ) | ( unprintable ) |   (printa: abbreviated steps)
                                                  ( ok <printed text> ( <token>… ) <parse of the printed text> <bool: same AST> )
                                                  where the AST printed is the model's parse of <text>
-/
namespace Driver.C05
open Genshi Genshi.Path Genshi.Sexp

def axisAtom : Axis → Sexp
  | .attribute => .atom "ATTRIBUTE"
  | .child => .atom "CHILD"
  | .descendant => .atom "DESCENDANT"
  | .descendantOrSelf => .atom "DESCENDANT-OR-SELF"
  | .self => .atom "SELF"

def testSexp : NodeTest → Sexp
  | .principal a => .list [.atom "P", ofBool a]
  | .qprincipal a p => .list [.atom "QP", ofBool a, .str p]
  | .localName a n => .list [.atom "L", ofBool a, .str n]
  | .qname a p n => .list [.atom "Q", ofBool a, .str p, .str n]
  | .comment => .atom "C"
  | .node => .atom "N"
  | .pi none => .list [.atom "PI", .atom "N"]
  | .pi (some t) => .list [.atom "PI", .str t]
  | .text => .atom "T"

def numAtom (x : XNum) : Sexp := .str x.toStr

def cmpAtom : CmpOp → Sexp
  | .eq => .atom "eq" | .ne => .atom "ne" | .gt => .atom "gt"
  | .ge => .atom "ge" | .lt => .atom "lt" | .le => .atom "le"

def fn0Name : Fn0 → String
  | .false_ => "false" | .true_ => "true" | .localName => "local-name" | .name => "name"
  | .namespaceUri => "namespace-uri"
def fn1Name : Fn1 → String
  | .boolean => "boolean" | .ceiling => "ceiling" | .floor => "floor" | .normalizeSpace => "normalize-space"
  | .not => "not" | .number => "number" | .round => "round" | .stringLength => "string-length"
def fn2Name : Fn2 → String
  | .contains => "contains" | .startsWith => "starts-with" | .substringAfter => "substring-after"
  | .substringBefore => "substring-before" | .substring => "substring" | .matches => "matches"
def fn3Name : Fn3 → String
  | .translate => "translate" | .substring => "substring" | .matches => "matches"

mutual
  partial def exprSexp : Expr → Sexp
    | .test t => .list [.atom "test", testSexp t]
    | .str s => .list [.atom "lit", .str s]
    | .num x => .list [.atom "num", numAtom x]
    | .var n => .list [.atom "var", .str n]
    | .fn0 f => .list [.atom "fn", .str (fn0Name f).toList]
    | .fn1 f a => .list [.atom "fn", .str (fn1Name f).toList, exprSexp a]
    | .fn2 f a b => .list [.atom "fn", .str (fn2Name f).toList, exprSexp a, exprSexp b]
    | .fn3 f a b c => .list [.atom "fn", .str (fn3Name f).toList, exprSexp a, exprSexp b, exprSexp c]
    | .concat1 a => .list [.atom "fn", .str "concat".toList, exprSexp a]
    | .concat a r => .list (.atom "fn" :: .str "concat".toList :: exprSexp a :: concatArgs r)
    | .and_ a b => .list [.atom "and", exprSexp a, exprSexp b]
    | .or_ a b => .list [.atom "or", exprSexp a, exprSexp b]
    | .cmp op a b => .list [.atom "cmp", cmpAtom op, exprSexp a, exprSexp b]
  /-- the remaining arguments of an n-ary concat -/
  partial def concatArgs : Expr → List Sexp
    | .concat1 a => [exprSexp a]
    | .concat a r => exprSexp a :: concatArgs r
    | e => [exprSexp e]
end

def stepSexp (s : Step) : Sexp := .list [axisAtom s.axis, testSexp s.test, .list (s.preds.map exprSexp)]
def pathSexp (p : LocPath) : Sexp := .list (p.map stepSexp)

def errAtom : PErr → Sexp
  | .syntax => .atom "PathSyntaxError"
  | .index => .atom "IndexError"
  | .type => .atom "TypeError"
  | .key => .atom "KeyError"
  | .attribute => .atom "AttributeError"
  | .fuel => .atom "fuel"
  | .unmodelled => .atom "unmodelled"

def valSexp : Val → Sexp
  | .none => .atom "N"
  | .bool b => .list [.atom "b", ofBool b]
  | .num x => .list [.atom "n", numAtom x]
  | .str s => .list [.atom "x", .str s]
  | .attrs a => .list [.atom "a", attrsToSexp a]
  | .event e => .list [.atom "e", e.toSexp]

def itemSexp : Item → Sexp
  | .ev e => .list [.atom "ev", e.toSexp]
  | .attrs a => .list [.atom "at", attrsToSexp a]

def nsOfSexp? : Sexp → Option NsMap
  | .list xs => xs.mapM fun
      | .list [.str p, .str u] => some (p, u)
      | _ => none
  | _ => none

def valOfSexp? : Sexp → Option Val
  | .atom "N" => some .none
  | .list [.atom "b", b] => b.toBool?.map .bool
  | .list [.atom "n", .str s] => some (.num (XNum.parse s))
  | .list [.atom "x", .str s] => some (.str s)
  | _ => none

def varsOfSexp? : Sexp → Option Vars
  | .list xs => xs.mapM fun
      | .list [.str n, v] => do let v ← valOfSexp? v; pure (n, v)
      | _ => none
  | _ => none

def toXVars (vs : Vars) : Ref.XVars :=
  vs.filterMap fun (n, v) =>
    match v with
    | .bool b => some (n, .bool b)
    | .num x => some (n, .num x)
    | .str s => some (n, .str s)
    | _ => none

/-- characters the tokenizer model covers: ASCII outside string literals -/
def textCovered (text : List Char) : Bool :=
  (tokenize text).all fun t => isQuoted t && t.length > 1 || t.all fun c => c.toNat < 128

/-- numerals with at most 15 significant digits (a double is exact there) -/
def numeralOk (x : XNum) : Bool :=
  match x with
  | .nan => true
  | .dec _ m _ => m < 1000000000000000

mutual
  partial def exprOk : Expr → Bool
    | .num x => numeralOk x
    | .fn1 _ a | .concat1 a => exprOk a
    | .fn2 _ a b | .concat a b | .and_ a b | .or_ a b | .cmp _ a b => exprOk a && exprOk b
    | .fn3 _ a b c => exprOk a && exprOk b && exprOk c
    | _ => true
end

def pathsCovered (ps : List LocPath) : Bool :=
  ps.all fun p => p.all fun s => s.preds.all fun e => e.covered && exprOk e

/-- attribute values that look numeric must be short enough to be exact as doubles -/
def attrOk (v : List Char) : Bool := numeralOk (XNum.parse v)

def eventsCovered (es : List Event) : Bool :=
  es.all fun e => match e with
    | .start t a => a.all (fun p => attrOk p.2) && !(t.ns == noneStr)
    | _ => true

def nsCovered (ns : NsMap) : Bool := ns.all fun p => !p.2.isEmpty

def strategyOf? : Sexp → Option (Option Strategy)
  | .atom "auto" => some none
  | .atom "Single" => some (some .single)
  | .atom "Simple" => some (some .simple)
  | .atom "Generic" => some (some .generic)
  | _ => none

def runSelect (force : Option Strategy) (text : List Char) (ns : NsMap) (vs : Vars) (es : List Event) : Sexp :=
  if !textCovered text || !nsCovered ns || !eventsCovered es then .atom "unmodelled" else
  match parse text with
  | .error .fuel | .error .unmodelled => .atom "unmodelled"
  | .error k => .list [.atom "err", errAtom k]
  | .ok ps =>
    if !pathsCovered ps then .atom "unmodelled"
    else if (match force with
             | some s => !(ps.all fun p => s.supports p)
             | none => false) then .atom "unsupported"
    else .list (.atom "ok" :: (select ps ns vs es force).map itemSexp)

def runXp (text : List Char) (ns : NsMap) (vs : Vars) (es : List Event) : Sexp :=
  if !textCovered text || !nsCovered ns || !eventsCovered es then .atom "unmodelled" else
  match parse text with
  | .error _ => .atom "unmodelled"
  | .ok ps =>
    if !pathsCovered ps then .atom "unmodelled" else
    match Ref.buildForest es with
    | some [root] =>
        let a := Ref.xpSelect ps ns (toXVars vs) root
        if a == Ref.xpSelectSets ps ns (toXVars vs) root then .list (.atom "ok" :: a.map itemSexp)
        else .atom "reference-formulations-differ"
    | _ => .atom "unmodelled"

/-- model parse of `text`, print the AST (`abbr`: `Print.printPathsA`, else `Print.printPaths`), parse again -/
def runPrint (abbr : Bool) (text : List Char) : Sexp :=
  if !textCovered text then .atom "unmodelled" else
  match parse text with
  | .error _ => .list [.atom "noparse"]
  | .ok ps =>
    if !Print.pathsOk ps then .list [.atom "unprintable"] else
    let t := if abbr then Print.printPathsA ps else Print.printPaths ps
    let toks := if abbr then Print.pathsToksA ps else Print.pathsToks ps
    let back := parse t
    let backS := match back with
      | .ok qs => Sexp.list (.atom "ok" :: qs.map pathSexp)
      | .error k => .list [.atom "err", errAtom k]
    .list [.atom "ok", .str t, .list (toks.map .str), backS,
      ofBool (decide (back = .ok ps) && decide (tokenize t = toks))]

def handle : List Sexp → Option Sexp
  | [.atom "parse", .str text] =>
      if !textCovered text then some (.atom "unmodelled") else
      match parse text with
      | .error .fuel | .error .unmodelled => some (.atom "unmodelled")
      | .error k => some (.list [.atom "err", errAtom k])
      | .ok ps => some (.list (.atom "ok" :: ps.map pathSexp))
  | [.atom "print", .str text] => some (runPrint false text)
  | [.atom "printa", .str text] => some (runPrint true text)
  | [.atom "tokens", .str text] => some (.list ((tokenize text).map .str))
  | [.atom "run", .str text, ns, vs, es] => do
      let ns ← nsOfSexp? ns; let vs ← varsOfSexp? vs; let es ← streamOfSexp? es
      pure (runSelect none text ns vs es)
  | [.atom "runf", s, .str text, ns, vs, es] => do
      let s ← strategyOf? s
      let ns ← nsOfSexp? ns; let vs ← varsOfSexp? vs; let es ← streamOfSexp? es
      pure (runSelect s text ns vs es)
  | [.atom "xp", .str text, ns, vs, es] => do
      let ns ← nsOfSexp? ns; let vs ← varsOfSexp? vs; let es ← streamOfSexp? es
      pure (runXp text ns vs es)
  | [.atom "pred", .str text, ns, vs, e] => do
      let ns ← nsOfSexp? ns; let vs ← varsOfSexp? vs; let e ← Event.ofSexp? e
      if !textCovered text || !nsCovered ns || !eventsCovered [e] then pure (.atom "unmodelled") else
      match parse text with
      | .ok ((st :: _) :: _) =>
          match st.preds with
          | p :: _ => if p.covered && exprOk p then pure (valSexp (p.eval e ns vs)) else pure (.atom "unmodelled")
          | [] => pure (.atom "unmodelled")
      | _ => pure (.atom "unmodelled")
  | [.atom "num", .str s] => some (numAtom (XNum.parse s))
  | _ => none

end Driver.C05

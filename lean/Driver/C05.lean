import Genshi.Wire
namespace Driver.C05
open Genshi

/-- stub: the model driver for C05 is not built yet -/
def handle : List Sexp → Option Sexp := fun _ => none

end Driver.C05

import Genshi.Wire
import Genshi.Model.LoaderPath
namespace Driver.C15Path
open Genshi Genshi.Sexp Genshi.LoaderP
open Genshi.Loader (File Fault Err)

/-! `C15 phist <cap> <autoReload> <hasCallback> ( path… ) ( ops… )`: histories of the loader over
  string-level path names (`Genshi/Model/LoaderPath.lean`); per load the result, the cache (keys
  and identities, most recent first), callback / parse counts, lock depth, `_uptodate` of the key,
  and the specification side (`firstOnPathF` or `cached`).
  `C15 ppath ( strings… )`: `normpath`, `dirname`, `isabs` of each string and `join` with the next. -/

def deleg? : Sexp → Option Deleg
  | .list [.atom "D", p] => do let p ← p.toStr?; pure (.dir p)
  | .list [.atom "F", p, c] => do let p ← p.toStr?; let c ← c.toBool?; pure (.fn p c)
  | _ => none

def entry? : Sexp → Option Entry
  | .list [.atom "D", p] => do let p ← p.toStr?; pure (.dir p)
  | .list [.atom "F", p, c, a] => do let p ← p.toStr?; let c ← c.toBool?; let a ← a.toBool?; pure (.fn p c a)
  | .list [.atom "P", .list ds] => do
      let ds ← ds.mapM fun
        | .list [pre, d] => do let pre ← pre.toStr?; let d ← deleg? d; pure (pre, d)
        | _ => none
      pure (.prefixed ds)
  | _ => none

def fault? : Sexp → Option Fault
  | .atom "N" => some .none
  | .atom "io" => some .io
  | .atom "other" => some .other
  | _ => none

def optStr? : Sexp → Option (Option Str)
  | .atom "N" => some none
  | x => do let s ← x.toStr?; pure (some s)

def hop? : Sexp → Option HOp
  | .list [.atom "W", p, c, bad] => do
      let p ← p.toStr?; let c ← c.toNat?; let b ← bad.toBool?; pure (.write p c b)
  | .list [.atom "T", p] => do let p ← p.toStr?; pure (.touch p)
  | .list [.atom "X", p] => do let p ← p.toStr?; pure (.delete p)
  | .list [.atom "L", fn, rel, cls, enc, cb, fault] => do
      let fn ← fn.toStr?; let rel ← optStr? rel
      let cls ← cls.toNat?; let enc ← enc.toNat?; let cb ← cb.toBool?; let fault ← fault? fault
      pure (.load ⟨fn, rel, cls, enc, cb, fault⟩)
  | _ => none

/-- `LW …`: a load during which the file it opens is rewritten in place (content new / time old) -/
def hopW? : Sexp → Option HOpW
  | .list [.atom "LW", fn, rel, cls, enc, cb, fault, c, bad] => do
      let fn ← fn.toStr?; let rel ← optStr? rel
      let cls ← cls.toNat?; let enc ← enc.toNat?; let cb ← cb.toBool?; let fault ← fault? fault
      let c ← c.toNat?; let bad ← bad.toBool?
      pure (.loadRewrite ⟨fn, rel, cls, enc, cb, fault⟩ c bad)
  | x => (hop? x).map .plain

def errS : Err → Sexp
  | .notFound => .atom "TemplateNotFound"
  | .syntaxError => .atom "TemplateSyntaxError"
  | .callback => .atom "CallbackError"
  | .loadFunc => .atom "LoadFuncError"
  | .noSearchPath => .atom "TemplateError"

def tmplS (t : Tmpl) : Sexp :=
  .list [ofNat t.obj, .str t.filepath, .str t.filename, ofNat t.content, ofNat t.cls, ofNat t.enc]

def resS : Res → Sexp
  | .ok t => .list [.atom "ok", tmplS t]
  | .err e => .list [.atom "err", errS e]

def utdS : Option Utd → Sexp
  | none => .atom "absent"
  | some .never => .atom "N"
  | some (.mtime fp m) => .list [.str fp, ofNat m]

def specS (cfg : Cfg) (w : World) (r : Req) : Sexp :=
  let key := resolve cfg.path.isEmpty r
  let hit := Genshi.Lru.alookup key w.ls.cache.items
  if hit.isSome && (!cfg.autoReload || stillCurrent w.fs w.ls key) then .atom "cached" else
  match searchPath cfg r key with
  | none => .atom "nopath"
  | some (entries, _) =>
    match firstOnPathF w.fs r.fault key entries with
    | .nothing => .atom "nothing"
    | .raised => .atom "raised"
    | .file fp name f => .list [.atom "file", .str fp, .str name, ofNat f.content, ofBool f.bad]

def histRun (cfg : Cfg) : World → List HOpW → List Sexp
  | _, [] => []
  | w, op :: ops =>
    let (w', o) := hstepW cfg w op
    let req : Option Req := match op with
      | .plain (.load r) => some r
      | .loadRewrite r _ _ => some r
      | _ => none
    let here : Sexp := match req, o with
      | some r, some res =>
        let key := resolve cfg.path.isEmpty r
        let common := [resS res, .str key,
          .list (w'.ls.cache.items.map fun (k, t) => .list [.str k, ofNat t.obj]),
          ofNat w'.ls.cbLog.length, ofNat w'.ls.parsed.length, ofNat w'.ls.lock,
          utdS (w'.ls.utd key), specS cfg w r]
        match op with
        -- a load with a rewrite also says which file was rewritten (none: no file was opened)
        | .loadRewrite _ _ _ => .list (common ++ [match wouldOpen cfg w.fs w.ls r with
            | some p => .str p | none => .atom "N"])
        | _ => .list common
      | _, _ => .atom "U"
    here :: histRun cfg w' ops

def pathFns : List Str → List Sexp
  | [] => []
  | [a] => [.list [.str (normpath a), .str (dirname a), ofBool (isabs a), .str (pjoin a a)]]
  | a :: b :: rest =>
    .list [.str (normpath a), .str (dirname a), ofBool (isabs a), .str (pjoin a b)] :: pathFns (b :: rest)

def handle : List Sexp → Option Sexp
  | [.atom "phist", cap, ar, cb, .list path, .list ops] => do
      let cap ← cap.toNat?; let ar ← ar.toBool?; let cb ← cb.toBool?
      let path ← path.mapM entry?
      let ops ← ops.mapM hopW?
      pure (.list (histRun ⟨path, ar, cap, cb⟩ (World.init cap) ops))
  | [.atom "ppath", .list strs] => do
      let strs ← strs.mapM (·.toStr?)
      pure (.list (pathFns strs))
  | _ => none

end Driver.C15Path

import Genshi.Wire
namespace Driver.C01
open Genshi

/-- stub: the model driver for C01 is not built yet -/
def handle : List Sexp → Option Sexp := fun _ => none

end Driver.C01

import Genshi.Wire
import Genshi.Model.Subst
import Genshi.Model.SubstEmit
import Genshi.Model.SubstRead
import Genshi.Model.SubstDomain
import Genshi.Model.SubstFmt
import Genshi.Model.SubstRaw
namespace Driver.C01
open Genshi Genshi.Subst Genshi.Sexp

def scalar? : Sexp → Option Scalar
  | .atom "N" => some .none
  | .list [.atom "pstr", .str s] => some (.str s)
  | .list [.atom "mk", .str s] => some (.markup s)
  | .list [.atom "num", .str s] => some (.num s)
  | .list [.atom "obj", .str s, .atom "N"] => some (.obj s none)
  | .list [.atom "obj", .str s, .str h] => some (.obj s (some h))
  | _ => none

def val? : Sexp → Option Val
  | .list [.atom "one", x] => do let x ← scalar? x; pure (.one x)
  | .list (.atom "many" :: xs) => do let xs ← xs.mapM scalar?; pure (.many xs)
  | _ => none

def atom? : Sexp → Option Atom
  | .list [.atom "lit", x] => do let x ← scalar? x; pure (.lit x)
  | .list [.atom "var", i] => do let i ← i.toNat?; pure (.var i)
  | _ => none

def vexpr? : Sexp → Option VExpr
  | .list [.atom "val", v] => do let v ← val? v; pure (.val v)
  | .list [.atom "var", i] => do let i ← i.toNat?; pure (.var i)
  | .list (.atom "list" :: xs) => do let xs ← xs.mapM atom?; pure (.listOf xs)
  | _ => none

def apart? : Sexp → Option APart
  | .list [.atom "lit", .str s] => some (.lit s)
  | .list [.atom "e", e] => do let e ← vexpr? e; pure (.expr e)
  | _ => none

def attrSpec? : Sexp → Option AttrSpec
  | .list [.atom "fixed", .str s] => some (.static s)
  | .list (.atom "interp" :: ps) => do let ps ← ps.mapM apart?; pure (.interp ps)
  | _ => none

def namedAtom? : Sexp → Option (Name × Atom)
  | .list [.str n, a] => do let a ← atom? a; pure (n, a)
  | _ => none

def fargs? : Sexp → Option FArgs
  | .list [.atom "one", a] => do let a ← atom? a; pure (.one a)
  | .list (.atom "tup" :: xs) => do let xs ← xs.mapM atom?; pure (.tup xs)
  | .list (.atom "map" :: kvs) => do let kvs ← kvs.mapM namedAtom?; pure (.map kvs)
  | _ => none

partial def bkid? : Sexp → Option BKid
  | .list [.atom "arg", e] => do let e ← vexpr? e; pure (.arg e)
  | .list [.atom "el", .str t, .list attrs, .list kids] => do
      let attrs ← attrs.mapM namedAtom?
      let kids ← kids.mapM bkid?
      pure (.el t attrs kids)
  | _ => none

def fattr? : Sexp → Option (Name × FAttr)
  | .list [.str n, .atom "hole"] => some (n, .hole)
  | .list [.str n, .list [.atom "lit", .str v]] => some (n, .lit v)
  | _ => none

def fpiece? : Sexp → Option FPiece
  | .list [.atom "T", .str s] => some (.text s)
  | .atom "H" => some .hole
  | .list [.atom "S", .str t, .list attrs] => do let attrs ← attrs.mapM fattr?; pure (.open t attrs)
  | .list [.atom "E", .str t] => some (.close t)
  | _ => none

def sexpr? : Sexp → Option SExpr
  | .list [.atom "v", e] => do let e ← vexpr? e; pure (.v e)
  | .list [.atom "add", .str m, a] => do let a ← atom? a; pure (.add m a)
  | .list [.atom "radd", .str m, a] => do let a ← atom? a; pure (.radd m a)
  | .list (.atom "join" :: .str sep :: xs) => do let xs ← xs.mapM atom?; pure (.join sep xs)
  | .list [.atom "esc", a, q] => do let a ← atom? a; let q ← q.toBool?; pure (.esc a q)
  | .list [.atom "fmt", .str f, args] => do let args ← fargs? args; pure (.fmt f args)
  | .list (.atom "fmtp" :: .list pieces :: args) => do
      let pieces ← pieces.mapM fpiece?; let args ← args.mapM atom?; pure (.fmtp pieces args)
  | .list [.atom "build", b] => do let b ← bkid? b; pure (.build b)
  | .list (.atom "frag" :: ks) => do let ks ← ks.mapM bkid?; pure (.frag ks)
  | _ => none

partial def node? : Sexp → Option Node
  | .list [.atom "lit", .str s] => some (.lit s)
  | .list [.atom "expr", e] => do let e ← sexpr? e; pure (.site e)
  | .list [.atom "el", .str t, .list attrs, pa, .list kids] => do
      let attrs ← attrs.mapM fun
        | .list [.str n, a] => do let a ← attrSpec? a; pure (n, a)
        | _ => none
      let pa ← match pa with
        | .atom "N" => some none
        | .list items => do let items ← items.mapM namedAtom?; pure (some items)
        | _ => none
      let kids ← kids.mapM node?
      pure (.el t attrs pa kids)
  | .list [.atom "loop", e, .list kids] => do
      let e ← vexpr? e; let kids ← kids.mapM node?; pure (.loop e kids)
  | .list [.atom "bind", a, .list kids] => do
      let a ← atom? a; let kids ← kids.mapM node?; pure (.bind a kids)
  | .list [.atom "cond", b, .list kids] => do
      let b ← b.toBool?; let kids ← kids.mapM node?; pure (.cond b kids)
  | _ => none

def method? : Sexp → Option Method
  | .atom "xml" => some .xml
  | .atom "xhtml" => some .xhtml
  | .atom "html" => some .html
  | _ => none

def evOut : Ev → Sexp
  | .start t a => .list [.atom "S", .str t, .list (a.map fun p => .list [.str p.1, .str p.2])]
  | .end_ t => .list [.atom "E", .str t]
  | .text s f => .list [.atom "T", .str s, ofBool f]

def ev? : Sexp → Option Ev
  | .list [.atom "S", .str t, .list a] => do
      let a ← a.mapM fun
        | .list [.str n, .str v] => some (n, v)
        | _ => none
      pure (.start t a)
  | .list [.atom "E", .str t] => some (.end_ t)
  | .list [.atom "T", .str s, f] => do let f ← f.toBool?; pure (.text s f)
  | _ => none

def handle : List Sexp → Option Sexp
  -- the event stream the template produces for the case (Template.generate)
  | [.atom "events", .list nodes] => do
      let nodes ← nodes.mapM node?
      if listOk [] nodes then pure (.list ((renderList [] nodes).map evOut)) else pure (.atom "unmodelled")
  -- the rendered text
  | [.atom "run", m, strip, .list nodes] => do
      let m ← method? m; let strip ← strip.toBool?
      let nodes ← nodes.mapM node?
      if !listOk [] nodes then pure (.atom "unmodelled") else
      let evs := renderList [] nodes
      pure (.str (serializeC m strip evs))
  -- serialization of a given START/END/TEXT stream
  | [.atom "emit", m, strip, .list evs] => do
      let m ← method? m; let strip ← strip.toBool?
      let evs ← evs.mapM ev?
      pure (.str (serializeC m strip evs))
  -- the same three ways: the loop with its event cache, the loop without, and escaping decided by the
  -- enclosing elements (`cache_unobservable`, `escaping_by_enclosing_elements`); `N` outside `rawLeafGo`
  | [.atom "emit3", m, strip, .list evs] => do
      let m ← method? m; let strip ← strip.toBool?
      let evs ← evs.mapM ev?
      let toks := emptyTags evs
      let toks := if strip then wsFilter (preserveElems m) (noescapeElems m) 0 false [] toks else toks
      pure (.list [.str (serToksC m [] false toks), .str (serToks m false toks),
                   if rawLeafGo m [] toks then .str (serEncl m [] toks) else .atom "N"])
  -- the specification side: what re-reading must give, when the case is inside the hypotheses of
  -- `structure_preserved`
  | [.atom "expect", m, strip, .list nodes] => do
      let m ← method? m; let strip ← strip.toBool?
      let nodes ← nodes.mapM node?
      if (if strip then nodesOkW m nodes else nodesOkM m nodes) && listOk [] nodes then
        let evs := expectedList [] nodes
        pure (.list ((if strip then coalesceStrip m evs else coalesce evs).map evOut))
      else pure (.atom "outside")
  -- the specification for templates WITH raw-text elements (`structure_preserved_rawtext_partial`): what
  -- re-reading must give, raw-text elements holding the emitted strings; `outside` its hypotheses
  | [.atom "expectr", m, .list nodes] => do
      let m ← method? m
      let nodes ← nodes.mapM node?
      if nodesOkR m [] nodes && listOk [] nodes then
        pure (.list ((coalesceR m (expectedListR m [] nodes)).map evOut))
      else pure (.atom "outside")
  -- `reread_rawtext_nostrip` on a given (the real) event stream: inside its hypotheses?  what must re-reading
  -- give, and the raw-text contents
  | [.atom "rawreread", m, .list evs] => do
      let m ← method? m
      let evs ← evs.mapM ev?
      if rawOkGo m none evs && emptyOkGo m none evs then
        pure (.list [.list ((coalesceR m evs).map evOut), .list ((rawSegs m evs).map Sexp.str)])
      else pure (.atom "outside")
  -- `Markup(fmt) % operands` from the author's pieces: the format string, the operator's result,
  -- and what `markup_format_site` says re-reading it gives
  | [.atom "fmtsite", .list pieces, .list args] => do
      let pieces ← pieces.mapM fpiece?
      let args ← args.mapM Sexp.toStr?
      let f := fmtString pieces
      let res := match Genshi.Escape.mMod Genshi.Escape.escapePy f (.tup (args.map Genshi.Escape.Opnd.plain)) with
        | .ok s => Sexp.str s
        | .error _ => .atom "raises"
      let evs := match fillEsc pieces args with
        | some toks => Sexp.list ((coalesce (toks.flatMap tokEvents)).map evOut)
        | none => .atom "N"
      pure (.list [.str f, res, evs])
  -- the specification-side reader on a document
  | [.atom "read", m, .str doc] => do
      let m ← method? m
      match readDoc m doc with
      | some evs => pure (.list (evs.map evOut))
      | none => pure (.atom "rejected")
  | [.atom "text", m, .str v] => do let m ← method? m; pure (.str (emitText m v))
  | [.atom "attr", .str v] => some (.str (emitAttr v))
  | _ => none

end Driver.C01

import Genshi.Wire
import Genshi.WireCore
import Genshi.Model.ParseHtml
import Genshi.Model.ParseXml
/-
  C07 driver verbs (see harness/props/c07.py):

    C07 html ( read... ) ( item... ) ( ( value ( ok stripped ) | ( err Name ) )... )
        read = ( T item... ) | B | ( F sName T|F )   (item verbs are upper-case on the wire: ST SE ET D C PI CR ER DECL RAISE)
        item = ( st tag ( ( name value|N )... ) ) | ( se tag attrs ) | ( et tag ) | ( d text ) | ( c text )
             | ( pi data ) | ( cr name ) | ( er name ) | ( decl text ) | ( raise Name T|F )
    C07 xml ( read... ) ( item... )
        read = ( t item... ) | ( f Name T|F ) | unenc
        item = ( se name ( ( n v )... ) ) | ( ee name ) | ( cd text ) | ( xd version enc|N standalone )
             | ( dt name sysid|N pubid|N T|F ) | ( ns pfx|N uri|N ) | ( ens pfx|N ) | sc | ec | ( pi t d )
             | ( cm text ) | ( df text line col ) | ( xerr line col ) | ( raise Name T|F )
    answer: ( ( event... ) ok ) | ( ( event... ) ( parseError line col ) ) | ( ( event... ) ( propagate Name ) )
            | unmodelled
-/
namespace Driver.C07
open Genshi Genshi.Parse Genshi.Sexp

def exc? (name : Str) : Sexp → Option PyExc
  | .atom "T" => some (.exc name)
  | .atom "F" => some (.base name)
  | _ => none

def hattrs? : Sexp → Option (List (Str × Option Str))
  | .list xs => xs.mapM fun
      | .list [.str n, v] => do let v ← optStr? v; pure (n, v)
      | _ => none
  | _ => none

def htmlItem? : Sexp → Option (Item HtmlCb)
  | .list [.atom "ST", .str tag, a] => do let a ← hattrs? a; pure (.cb (.starttag tag a))
  | .list [.atom "SE", .str tag, a] => do let a ← hattrs? a; pure (.cb (.startendtag tag a))
  | .list [.atom "ET", .str tag] => some (.cb (.endtag tag))
  | .list [.atom "D", .str s] => some (.cb (.data s))
  | .list [.atom "C", .str s] => some (.cb (.comment s))
  | .list [.atom "PI", .str s] => some (.cb (.pi s))
  | .list [.atom "CR", .str s] => some (.cb (.charref s))
  | .list [.atom "ER", .str s] => some (.cb (.entityref s))
  | .list [.atom "DECL", .str s] => some (.cb (.decl s))
  | .list [.atom "RAISE", .str n, b] => do let e ← exc? n b; pure (.raise e)
  | _ => none

def htmlRead? : Sexp → Option HtmlRead
  | .atom "B" => some .bytes
  | .list (.atom "T" :: items) => do let l ← items.mapM htmlItem?; pure (.text l)
  | .list [.atom "F", .str n, b] => do let e ← exc? n b; pure (.fail e)
  | _ => none

def stripRow? : Sexp → Option (Str × Except PyExc Str)
  | .list [.str v, .list [.atom "ok", .str r]] => some (v, .ok r)
  | .list [.str v, .list [.atom "err", .str n]] => some (v, .error (.exc n))
  | _ => none

def stripOf (tbl : List (Str × Except PyExc Str)) (v : Str) : Except PyExc Str :=
  match tbl.find? (fun p => p.1 = v) with
  | some p => p.2
  | none => .error (.base "missing-strip-row".toList)

def itemModelled : Item HtmlCb → Bool
  | .cb (.charref n) => charrefModelled n
  | _ => true

def readModelled : HtmlRead → Bool
  | .text l => l.all itemModelled
  | _ => true

def raisedOut : Option Raised → Sexp
  | none => .atom "ok"
  | some (.parseError l c) => .list [.atom "parseError", ofInt l, ofInt c]
  | some (.propagate n) => .list [.atom "propagate", .str n]

def answer (r : Stream × Option Raised) : Sexp := .list [streamToSexp r.1, raisedOut r.2]

def xattrs? : Sexp → Option (List (Str × Str))
  | .list xs => xs.mapM fun
      | .list [.str n, .str v] => some (n, v)
      | _ => none
  | _ => none

def xmlItem? : Sexp → Option (Item XmlCb)
  | .list [.atom "SE", .str n, a] => do let a ← xattrs? a; pure (.cb (.startElement n a))
  | .list [.atom "EE", .str n] => some (.cb (.endElement n))
  | .list [.atom "CD", .str s] => some (.cb (.characterData s))
  | .list [.atom "XD", .str v, e, s] => do let e ← optStr? e; let s ← s.toInt?; pure (.cb (.xmlDecl v e s))
  | .list [.atom "DT", .str n, s, p, h] => do
      let s ← optStr? s; let p ← optStr? p; let h ← h.toBool?; pure (.cb (.startDoctype n s p h))
  | .list [.atom "NS", p, u] => do let p ← optStr? p; let u ← optStr? u; pure (.cb (.startNs p u))
  | .list [.atom "ENS", p] => do let p ← optStr? p; pure (.cb (.endNs p))
  | .atom "SC" => some (.cb .startCdata)
  | .atom "EC" => some (.cb .endCdata)
  | .list [.atom "PI", .str t, .str d] => some (.cb (.pi t d))
  | .list [.atom "CM", .str s] => some (.cb (.comment s))
  | .list [.atom "DF", .str s, l, c] => do let l ← l.toInt?; let c ← c.toInt?; pure (.cb (.default_ s l c))
  | .list [.atom "XERR", l, c] => do let l ← l.toInt?; let c ← c.toInt?; pure (.raise (.expat l c))
  | .list [.atom "RAISE", .str n, b] => do let e ← exc? n b; pure (.raise e)
  | _ => none

def xmlRead? : Sexp → Option XmlRead
  | .atom "UNENC" => some .unencodable
  | .list (.atom "T" :: items) => do let l ← items.mapM xmlItem?; pure (.chunk l)
  | .list [.atom "F", .str n, b] => do let e ← exc? n b; pure (.fail e)
  | _ => none

def handle : List Sexp → Option Sexp
  | [.atom "html", .list reads, .list close, .list tbl] => do
      let reads ← reads.mapM htmlRead?
      let close ← close.mapM htmlItem?
      let tbl ← tbl.mapM stripRow?
      if !(reads.all readModelled && close.all itemModelled) then pure (.atom "unmodelled") else
      let env : Env := { strip := stripOf tbl, lower := asciiLower, void := Genshi.Gen.Output.parserEmptyElems }
      pure (answer (htmlParse env reads close))
  | [.atom "xml", .list reads, .list close] => do
      let reads ← reads.mapM xmlRead?
      let close ← close.mapM xmlItem?
      pure (answer (xmlParse reads close))
  | [.atom "qname", .str s] => some (mkQName s).toSexp
  | [.atom "coalesce", f, s] => do
      let f ← f.toBool?; let s ← streamOfSexp? s; pure (streamToSexp (coalesceGo f none s))
  | _ => none

end Driver.C07

import Genshi.Wire
namespace Driver.C07
open Genshi

/-- stub: the model driver for C07 is not built yet -/
def handle : List Sexp → Option Sexp := fun _ => none

end Driver.C07

import Genshi.Wire
import Genshi.WireCore
import Genshi.Model.ParseHtml
import Genshi.Model.ParseXml
import Genshi.Model.ParseEnv
/-
  C07 driver verbs (see harness/props/c07.py):

    C07 html ( read... ) ( item... )          -- in the real environment `realEnv`: san's `stripentities`, full `str.lower`
        read = ( T item... ) | B | ( F sName T|F )   (item verbs are upper-case on the wire: ST SE ET D C PI CR ER DECL RAISE)
        item = ( st tag ( ( name value|N )... ) ) | ( se tag attrs ) | ( et tag ) | ( d text ) | ( c text )
             | ( pi data ) | ( cr name ) | ( er name ) | ( decl text ) | ( raise Name T|F )
    C07 xml ( read... ) ( item... )
        read = ( t item... ) | ( f Name T|F )
        item = ( se name ( ( n v )... ) ) | ( ee name ) | ( cd text ) | ( xd version enc|N standalone )
             | ( dt name sysid|N pubid|N T|F ) | ( ns pfx|N uri|N ) | ( ens pfx|N ) | sc | ec | ( pi t d )
             | ( cm text ) | ( df text line col ) | ( xerr line col ) | ( xenc line col ) | ( raise Name T|F )
    C07 lower text                            -- `str.lower` (`pyLower`); answer: the string
    C07 unent text                            -- `stripentities` (`stripReal`); answer: ( ok text ) | ( err Name )
    C07 qname text                            -- `QName(text)` (`mkQName`); answer: ( ns local )
    C07 pi text                               -- `handle_pi(text)` (`piEvent`); answer: ( target data )
    Every callback item carries the tokenizer's position as two trailing atoms: ( ST tag attrs line col ) ...
    answer: ( ( ( event line col )... ) ok ) | ( ( ... ) ( parseError line col ) ) | ( ( ... ) ( propagate sName ) )
            | unmodelled
-/
namespace Driver.C07
open Genshi Genshi.Parse Genshi.Sexp

def exc? (name : Str) : Sexp → Option PyExc
  | .atom "T" => some (.exc name)
  | .atom "F" => some (.base name)
  | _ => none

def hattrs? : Sexp → Option (List (Str × Option Str))
  | .list xs => xs.mapM fun
      | .list [.str n, v] => do let v ← optStr? v; pure (n, v)
      | _ => none
  | _ => none

def pos? (l c : Sexp) : Option Pos := do let l ← l.toInt?; let c ← c.toInt?; pure (l, c)

def htmlItem? : Sexp → Option (Item (HtmlCb × Pos))
  | .list [.atom "ST", .str tag, a, l, c] => do let a ← hattrs? a; let p ← pos? l c; pure (.cb (.starttag tag a, p))
  | .list [.atom "SE", .str tag, a, l, c] => do let a ← hattrs? a; let p ← pos? l c; pure (.cb (.startendtag tag a, p))
  | .list [.atom "ET", .str tag, l, c] => do let p ← pos? l c; pure (.cb (.endtag tag, p))
  | .list [.atom "D", .str s, l, c] => do let p ← pos? l c; pure (.cb (.data s, p))
  | .list [.atom "C", .str s, l, c] => do let p ← pos? l c; pure (.cb (.comment s, p))
  | .list [.atom "PI", .str s, l, c] => do let p ← pos? l c; pure (.cb (.pi s, p))
  | .list [.atom "CR", .str s, l, c] => do let p ← pos? l c; pure (.cb (.charref s, p))
  | .list [.atom "ER", .str s, l, c] => do let p ← pos? l c; pure (.cb (.entityref s, p))
  | .list [.atom "DECL", .str s, l, c] => do let p ← pos? l c; pure (.cb (.decl s, p))
  | .list [.atom "RAISE", .str n, b] => do let e ← exc? n b; pure (.raise e)
  | _ => none

def htmlRead? : Sexp → Option HtmlReadP
  | .atom "B" => some .bytes
  | .list (.atom "T" :: items) => do let l ← items.mapM htmlItem?; pure (.text l)
  | .list [.atom "F", .str n, b] => do let e ← exc? n b; pure (.fail e)
  | _ => none

def itemModelled : Item (HtmlCb × Pos) → Bool
  | .cb (.charref n, _) => charrefModelled n
  | _ => true

def readModelled : HtmlReadP → Bool
  | .text l => l.all itemModelled
  | _ => true

def raisedOut : Option Raised → Sexp
  | none => .atom "ok"
  | some (.parseError l c) => .list [.atom "parseError", ofInt l, ofInt c]
  | some (.propagate n) => .list [.atom "propagate", .str n]

def pevToSexp (e : PEvent) : Sexp := .list [e.1.toSexp, ofInt e.2.1, ofInt e.2.2]

def answer (r : PStream × Option Raised) : Sexp := .list [.list (r.1.map pevToSexp), raisedOut r.2]

def xattrs? : Sexp → Option (List (Str × Str))
  | .list xs => xs.mapM fun
      | .list [.str n, .str v] => some (n, v)
      | _ => none
  | _ => none

def xmlItem? : Sexp → Option (Item (XmlCb × Pos))
  | .list [.atom "SE", .str n, a, l, c] => do let a ← xattrs? a; let p ← pos? l c; pure (.cb (.startElement n a, p))
  | .list [.atom "EE", .str n, l, c] => do let p ← pos? l c; pure (.cb (.endElement n, p))
  | .list [.atom "CD", .str s, l, c] => do let p ← pos? l c; pure (.cb (.characterData s, p))
  | .list [.atom "XD", .str v, e, s, l, c] => do
      let e ← optStr? e; let s ← s.toInt?; let p ← pos? l c; pure (.cb (.xmlDecl v e s, p))
  | .list [.atom "DT", .str n, s, pb, h, l, c] => do
      let s ← optStr? s; let pb ← optStr? pb; let h ← h.toBool?; let p ← pos? l c
      pure (.cb (.startDoctype n s pb h, p))
  | .list [.atom "NS", pf, u, l, c] => do
      let pf ← optStr? pf; let u ← optStr? u; let p ← pos? l c; pure (.cb (.startNs pf u, p))
  | .list [.atom "ENS", pf, l, c] => do let pf ← optStr? pf; let p ← pos? l c; pure (.cb (.endNs pf, p))
  | .list [.atom "SC", l, c] => do let p ← pos? l c; pure (.cb (.startCdata, p))
  | .list [.atom "EC", l, c] => do let p ← pos? l c; pure (.cb (.endCdata, p))
  | .list [.atom "PI", .str t, .str d, l, c] => do let p ← pos? l c; pure (.cb (.pi t d, p))
  | .list [.atom "CM", .str s, l, c] => do let p ← pos? l c; pure (.cb (.comment s, p))
  | .list [.atom "DF", .str s, l, c] => do let p ← pos? l c; pure (.cb (.default_ s p.1 p.2, p))
  | .list [.atom "XERR", l, c] => do let l ← l.toInt?; let c ← c.toInt?; pure (.raise (.expat l c))
  | .list [.atom "XENC", l, c] => do let l ← l.toInt?; let c ← c.toInt?; pure (.raise (.codec l c))
  | .list [.atom "RAISE", .str n, b] => do let e ← exc? n b; pure (.raise e)
  | _ => none

def xmlRead? : Sexp → Option XmlReadP
  | .list (.atom "T" :: items) => do let l ← items.mapM xmlItem?; pure (.chunk l)
  | .list [.atom "F", .str n, b] => do let e ← exc? n b; pure (.fail e)
  | _ => none

def decl? : Sexp → Option (Option Str × Option Str)
  | .list [p, u] => do let p ← optStr? p; let u ← optStr? u; pure (p, u)
  | _ => none

/-- document trees on the wire: ( E name attrs ( ( pfx|N uri|N )... ) ( node... ) ) | ( CH piece... ) |
    ( CDS piece... ) | ( CM s ) | ( PI t d ) | ( XD v enc|N standalone ) | ( DT name sysid|N pubid|N T|F ) | ( IGN s line col ) -/
partial def xnode? : Sexp → Option XNode
  | .list [.atom "E", .str n, a, .list ds, .list ks] => do
      let a ← xattrs? a; let ds ← ds.mapM decl?; let ks ← ks.mapM xnode?; pure (.elem n a ds ks)
  | .list (.atom "CH" :: ps) => do let ps ← ps.mapM Sexp.toStr?; pure (.chars ps)
  | .list (.atom "CDS" :: ps) => do let ps ← ps.mapM Sexp.toStr?; pure (.cdata ps)
  | .list [.atom "CM", .str s] => some (.comment s)
  | .list [.atom "PI", .str t, .str d] => some (.pi t d)
  | .list [.atom "XD", .str v, e, s] => do let e ← optStr? e; let s ← s.toInt?; pure (.decl v e s)
  | .list [.atom "DT", .str n, s, pb, h] => do
      let s ← optStr? s; let pb ← optStr? pb; let h ← h.toBool?; pure (.doctype n s pb h)
  | .list [.atom "IGN", .str s, l, c] => do let l ← l.toInt?; let c ← c.toInt?; pure (.ignorable s l c)
  | _ => none

def handle : List Sexp → Option Sexp
  | [.atom "html", .list reads, .list close] => do
      let reads ← reads.mapM htmlRead?
      let close ← close.mapM htmlItem?
      if !(reads.all readModelled && close.all itemModelled) then pure (.atom "unmodelled") else
      pure (answer (htmlParseP realEnv reads close))
  | [.atom "lower", .str s] => some (.str (pyLower s))
  | [.atom "unent", .str s] =>
      match stripReal s with
      | .ok r => some (.list [.atom "ok", .str r])
      | .error (.exc n) => some (.list [.atom "err", .str n])
      | .error _ => some (.atom "err")
  | [.atom "xml", .list reads, .list close] => do
      let reads ← reads.mapM xmlRead?
      let close ← close.mapM xmlItem?
      pure (answer (xmlParseP reads close))
  | [.atom "xmltree", .list doc, .list items] => do
      -- is the recorded sequence of handler calls the traversal of this forest (hypothesis of xml_layer_tree)?
      let doc ← doc.mapM xnode?
      let items ← items.mapM xmlItem?
      pure (ofBool (wfList doc && decide (items.map (Item.map Prod.fst) = (callbacksList doc).map Item.cb)))
  | [.atom "qname", .str s] => some (mkQName s).toSexp
  | [.atom "pi", .str s] =>
      match piEvent s with
      | .pi t d => some (.list [.str t, .str d])
      | _ => none
  | [.atom "coalesce", f, s] => do
      let f ← f.toBool?; let s ← streamOfSexp? s; pure (streamToSexp (coalesceGo f none s))
  | [.atom "linecount", .str s] => some (ofNat (lineCount s))
  | _ => none

end Driver.C07

import Genshi.Wire
import Driver.C01
import Driver.C02
import Driver.C03
import Driver.C04
import Driver.C05
import Driver.C06
import Driver.C07
import Driver.C08
import Driver.C09
import Driver.C10
import Driver.C11
import Driver.C12
import Driver.C13
import Driver.C14
import Driver.C15
import Driver.C16
import Driver.C17
import Driver.C18
import Driver.C19
import Driver.C20
open Genshi

/-- dispatch on the property tag (first token); the rest is the property's own verb -/
def dispatch : List Sexp → Option Sexp
  | .atom "C01" :: rest => Driver.C01.handle rest
  | .atom "C02" :: rest => Driver.C02.handle rest
  | .atom "C03" :: rest => Driver.C03.handle rest
  | .atom "C04" :: rest => Driver.C04.handle rest
  | .atom "C05" :: rest => Driver.C05.handle rest
  | .atom "C06" :: rest => Driver.C06.handle rest
  | .atom "C07" :: rest => Driver.C07.handle rest
  | .atom "C08" :: rest => Driver.C08.handle rest
  | .atom "C09" :: rest => Driver.C09.handle rest
  | .atom "C10" :: rest => Driver.C10.handle rest
  | .atom "C11" :: rest => Driver.C11.handle rest
  | .atom "C12" :: rest => Driver.C12.handle rest
  | .atom "C13" :: rest => Driver.C13.handle rest
  | .atom "C14" :: rest => Driver.C14.handle rest
  | .atom "C15" :: rest => Driver.C15.handle rest
  | .atom "C16" :: rest => Driver.C16.handle rest
  | .atom "C17" :: rest => Driver.C17.handle rest
  | .atom "C18" :: rest => Driver.C18.handle rest
  | .atom "C19" :: rest => Driver.C19.handle rest
  | .atom "C20" :: rest => Driver.C20.handle rest
  | [.atom "ping"] => some (.atom "pong")
  | _ => none

partial def loop (hin hout : IO.FS.Stream) : IO Unit := do
  let line ← hin.getLine
  if line.isEmpty then return ()
  let ans :=
    match Sexp.parseLine line with
    | none => "bad-line"
    | some xs =>
      match dispatch xs with
      | some r => r.render
      | none => "bad-op"
  hout.putStrLn ans
  loop hin hout

def main : IO Unit := do
  let hin ← IO.getStdin
  let hout ← IO.getStdout
  loop hin hout
  hout.flush

import Genshi.Wire
import Driver.C18
open Genshi

/-- dispatch on the property tag (first token), then the verb -/
def dispatch : List Sexp → Option Sexp
  | .atom "C18" :: rest => Driver.C18.handle rest
  | [.atom "ping"] => some (.atom "pong")
  | _ => none

partial def loop (hin hout : IO.FS.Stream) : IO Unit := do
  let line ← hin.getLine
  if line.isEmpty then return ()
  let ans :=
    match Sexp.parseLine line with
    | none => "bad-line"
    | some xs =>
      match dispatch xs with
      | some r => r.render
      | none => "bad-op"
  hout.putStrLn ans
  loop hin hout

def main : IO Unit := do
  let hin ← IO.getStdin
  let hout ← IO.getStdout
  loop hin hout
  hout.flush

import Genshi.Wire
namespace Driver.C10
open Genshi

/-- stub: the model driver for C10 is not built yet -/
def handle : List Sexp → Option Sexp := fun _ => none

end Driver.C10

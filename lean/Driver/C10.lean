import Genshi.Wire
import Genshi.WireCore
import Genshi.Model.HeapWorld
namespace Driver.C10
open Genshi Genshi.Heap Genshi.Sexp

/-! wire format (see harness/props/c10.py `wire_*`):
  val    N | T | F | <int> | s<hex> | ( L atom* ) | ( F s<tag> )
  expr   ( v s<name> ) | ( l val ) | ( eq e e ) | ( not e ) | ( call s<f> ) | ( call s<f> e )
         | ( fmt1 s<s0> e s<s1> ) | ( fmt2 s<s0> e s<s1> e s<s2> ) | ( gen body s<x> src ) | ( lam s<x> body )
  ref    ( t n ) | ( p n )
  ev     ( O <event> ) | ( X expr ) | ( S ref ref ) | ( I t|N ref|N ) | U
         | ( G s<name> s<x> src body )     EXEC: `def name():` / `for x in src:` / `yield body`
         | ( A qname ( ( qname s<plain> ) | ( qname ref ) )* )      START with interpolated attribute values
  aspec  ( D ( s<key> expr )* ) | ( P ( s<key> expr )* ) | ( X expr )     the expression of py:attrs
  dir    ( id kind args* )
  cell   ( E ev* ) | ( D dir* )
  act    a | ( o ( ( s<key> val )* ) ) | ( n i ) | x | p | r     (atoms must not start with `s`)
-/

def atom? : Sexp → Option Atom
  | .atom "N" => some .none
  | .atom "T" => some (.bool true)
  | .atom "F" => some (.bool false)
  | .atom a => a.toInt?.map .int
  | .str s => some (.str s)
  | _ => none

def lit? : Sexp → Option Lit
  | .list (.atom "L" :: xs) => (xs.mapM atom?).map .list
  | x => (atom? x).map .atom

def val? : Sexp → Option Val
  | .list [.atom "F", .str t] => some (.opaque t)
  | x => (lit? x).map Lit.val

partial def expr? : Sexp → Option Expr
  | .list [.atom "v", .str n] => some (.var n)
  | .list [.atom "l", v] => (lit? v).map .lit
  | .list [.atom "call", .str f] => some (.call0 f)
  | .list [.atom "call", .str f, a] => do let a ← expr? a; pure (.call1 f a)
  | .list [.atom "eq", a, b] => do let a ← expr? a; let b ← expr? b; pure (.eq a b)
  | .list [.atom "not", a] => do let a ← expr? a; pure (.not a)
  | .list [.atom "fmt1", .str s0, a, .str s1] => do let a ← expr? a; pure (.fmt1 s0 a s1)
  | .list [.atom "fmt2", .str s0, a, .str s1, b, .str s2] => do
      let a ← expr? a; let b ← expr? b; pure (.fmt2 s0 a s1 b s2)
  | .list [.atom "gen", body, .str x, src] => do let body ← expr? body; let src ← expr? src; pure (.genexp body x src)
  | .list [.atom "lam", .str x, body] => do let body ← expr? body; pure (.lam x body)
  | _ => none

def optExpr? : Sexp → Option (Option Expr)
  | .atom "N" => some none
  | x => (expr? x).map some

def ref? : Sexp → Option Ref
  | .list [.atom "t", n] => n.toNat?.map .tmpl
  | .list [.atom "p", n] => n.toNat?.map .priv
  | _ => none

def aval? : Sexp → Option (QName × AVal)
  | .list [n, .str v] => (QName.ofSexp? n).map fun n => (n, .plain v)
  | .list [n, r] => do let n ← QName.ofSexp? n; let r ← ref? r; pure (n, .interp r)
  | _ => none

def entries? (kvs : List Sexp) : Option (List (Str × Expr)) :=
  kvs.mapM fun
    | .list [.str k, e] => (expr? e).map fun e => (k, e)
    | _ => none

def aspec? : Sexp → Option AttrsSpec
  | .list (.atom "D" :: kvs) => (entries? kvs).map .dict
  | .list (.atom "P" :: kvs) => (entries? kvs).map .pairs
  | .list [.atom "X", e] => (expr? e).map .expr
  | _ => none

def tev? : Sexp → Option TEv
  | .list [.atom "O", e] => (Event.ofSexp? e).map .out
  | .list [.atom "A", t, .list attrs] => do
      let t ← QName.ofSexp? t; let attrs ← attrs.mapM aval?; pure (.startI t attrs)
  | .list [.atom "X", e] => (expr? e).map .expr
  | .list [.atom "S", d, b] => do let d ← ref? d; let b ← ref? b; pure (.sub d b)
  | .atom "U" => some .other
  | .list [.atom "G", .str name, .str x, src, body] => do
      let src ← expr? src; let body ← expr? body; pure (.execGen name x src body)
  | .list [.atom "I", t, fb] => do
      let t : Option Nat ← (match t with | .atom "N" => some none | x => x.toNat?.map some)
      let fb : Option Ref ← (match fb with | .atom "N" => some none | x => (ref? x).map some)
      pure (.incl t fb)
  | _ => none

def dir? : Sexp → Option Dir
  | .list (idx :: .atom k :: args) => do
    let id ← idx.toNat?
    let kind : DirKind ← match k, args with
      | "if", [e] => (expr? e).map .pyIf
      | "for", [.str v, e] => (expr? e).map (.pyFor v)
      | "with", [.list bs] => do
          let bs ← bs.mapM fun
            | .list [.str n, e] => (expr? e).map fun e => (n, e)
            | _ => none
          pure (.pyWith bs)
      | "choose", [e] => (optExpr? e).map .pyChoose
      | "when", [e] => (optExpr? e).map .pyWhen
      | "otherwise", [] => some .pyOtherwise
      | "unwrap", [e] => (optExpr? e).map .pyStrip
      | "match", [.str n, once] => once.toBool?.map (.pyMatch n)
      | "attrs", [a] => (aspec? a).map .pyAttrs
      | "def", [.str n, .list ps] => do
          let ps ← ps.mapM fun
            | .list [.str pn, d] => (optExpr? d).map fun d => (pn, d)
            | _ => none
          pure (.pyDef n ps)
      | "domain", [.str d] => some (.i18nDomain d)
      | "comment", [.str c] => some (.i18nComment c)
      | "ctxt", [.str c] => some (.i18nCtxt c)
      | "msg", [] => some .i18nMsg
      | "ichoose", [] => some .i18nChoose
      | "branch", [] => some .i18nBranch
      | "other", [] => some .pyOther
      | _, _ => none
    pure ⟨id, kind⟩
  | _ => none

def cell? : Sexp → Option Cell
  | .list (.atom "E" :: es) => (es.mapM tev?).map .evs
  | .list (.atom "D" :: ds) => (ds.mapM dir?).map .dirs
  | _ => none

def frame? : Sexp → Option Frame
  | .list kvs => kvs.mapM fun
      | .list [.str k, v] => (val? v).map fun v => (k, v)
      | _ => none
  | _ => none

def act? : Sexp → Option Act
  | .atom "a" => some .access
  | .atom "x" => some .extract
  | .atom "p" => some .pickle
  | .atom "r" => some .register
  | .list [.atom "o", d] => (frame? d).map .open
  | .list [.atom "n", i] => i.toNat?.map .step
  | _ => none

def atomOut : Atom → Sexp
  | .none => .atom "N"
  | .bool b => ofBool b
  | .int n => ofInt n
  | .str s => .str s

def valOut : Val → Sexp
  | .atom a => atomOut a
  | .list xs => .list (.atom "L" :: xs.map atomOut)
  | .opaque t => .list [.atom "F", .str t]
  | .macro m => .list [.atom "F", .str m.name]
  | .gen0 _ => .atom "G"
  | .gen1 _ _ => .atom "G"
  | .genx _ _ _ => .atom "Z"
  | .genf _ _ _ => .atom "Z"
  | .genfn _ _ _ _ => .atom "Z"
  | .lam _ _ => .atom "Z"

/-- a value under its key in a frame: the harness shows a function there as `( F key )` (`wire_val(v, key)`),
    anywhere else (choice stack) as `Z` -/
def valOutK (k : Str) : Val → Sexp
  | .lam _ _ => .list [.atom "F", .str k]
  | .genfn _ _ _ _ => .list [.atom "F", .str k]
  | .macro _ => .list [.atom "F", .str k]
  | v => valOut v

def errName : Err → String
  | .undefined => "UndefinedError"
  | .typeError => "TypeError"
  | .attribute => "AttributeError"
  | .runtime => "TemplateRuntimeError"
  | .stopIter => "RuntimeError"
  | .notFound => "TemplateNotFound"
  | .unmodelled => "unmodelled"
  | .fuel => "fuel"

def stepOut : StepOut → Sexp
  | .ev e => .list [.atom "ev", e.toSexp]
  | .done => .atom "done"
  | .err e => .list [.atom "err", .atom (errName e)]
  | .stopped => .atom "halted"

def ctxOut (c : Ctx) : Sexp :=
  .list [ .list (c.frames.map fun f => .list (f.map fun (k, v) => .list [.str k, valOutK k v])),
          .list (c.choice.map fun ch =>
            .list [ofBool ch.matched, ofBool ch.hasTest,
                   match ch.value with | some v => valOut v | none => .atom "N"]),
          .list (c.mts.map fun mt => .list [.str mt.name, ofBool mt.once]) ]

/-- template cells that differ (the write footprint of an action) -/
def changed (a b : Heap) : List Nat :=
  (List.range (max a.length b.length)).filter fun i => a[i]? != b[i]?

/-- `_stream` holds the prepared list / `_prepared`, for every template of the loader -/
def flags (w : World) : Sexp := .list (w.tmpls.map fun x => .list [ofBool x.streamPrepared, ofBool x.prepared])

/-- renders other than `i` whose private state changed (always empty: the model's shape) -/
def obsOut (w0 w1 : World) : Obs → Sexp
  | .unit => .list [.atom "unit", .list ((changed w0.heap w1.heap).map ofNat), flags w1]
  | .raised e => .list [.atom "raised", .atom (errName e)]
  | .opened i => .list [.atom "opened", ofNat i, .list ((changed w0.heap w1.heap).map ofNat), flags w1]
  | .out i o =>
    .list [.atom "out", ofNat i, stepOut o,
           (match w1.renders[i]? with | some r => ctxOut r.ctx | none => .atom "N"),
           .list ((changed w0.heap w1.heap).map ofNat),
           -- `len(stack)` inside `_flatten`: the suspended iterators (the model's list includes the current one)
           (match w1.renders[i]? with
            | some r => (match r.frames.getLast? with | some f => ofNat f.stack.length | none => .atom "N")
            | none => .atom "N"),
           flags w1]
  | .extracted tr e =>
    .list [.atom "extracted", .list (tr.map ofNat),
           (match e with | some e => .atom (errName e) | none => .atom "ok"),
           .list ((changed w0.heap w1.heap).map ofNat), flags w1]

def runAll (v : Variant) (fuel : Nat) : World → List Act → List Sexp
  | _, [] => []
  | w, a :: as =>
    let (w1, o) := exec v fuel w a
    obsOut w w1 o :: runAll v fuel w1 as

/-- does the iterator tree hold a suspended lazily evaluated scope (the generator object of a generator
    expression with items left)? -/
partial def lazyIn : It → Bool
  | .genexp _ (_ :: _) _ => true
  | .genfNew _ _ _ => true
  | .forNextG _ _ (_ :: _) _ _ _ _ => true
  | .forRunG _ _ xs _ _ _ _ inner => !xs.isEmpty || lazyIn inner
  | .forRun _ _ _ _ _ inner => lazyIn inner
  | .popAfter inner => lazyIn inner
  | .chooseRun inner => lazyIn inner
  | .forNew _ _ src _ | .withNew _ src _ | .chooseNew _ src _ | .pushNew _ src _ | .stripNew _ src
  | .stripRun _ src | .attrsNew _ src => lazyIn src
  | _ => false

/-- per action: after it, is render `i` (the one stepped) suspended inside a lazily evaluated scope with items
    left — the situation in which other renders' evaluations come between two runs of one body -/
def runLazy (v : Variant) (fuel : Nat) : World → List Act → List Sexp
  | _, [] => []
  | w, a :: as =>
    let (w1, _) := exec v fuel w a
    let flag : Bool := match a with
      | .step i => (match w1.renders[i]? with
                    | some r => r.live && r.frames.any (fun f => f.stack.any lazyIn)
                    | none => false)
      | _ => false
    ofBool flag :: runLazy v fuel w1 as

def handle : List Sexp → Option Sexp
  | [.atom "runlazy", cc, xc, tr, fuel, .list roots, .list cells, .list acts] => do
      let cc ← cc.toBool?; let xc ← xc.toBool?; let tr ← tr.toBool?; let fuel ← fuel.toNat?
      let roots ← roots.mapM Sexp.toNat?
      let image ← cells.mapM cell?
      let acts ← acts.mapM act?
      pure (.list (runLazy ⟨cc, xc⟩ fuel (World.init image roots tr) acts))
  | [.atom "run", cc, xc, tr, fuel, .list roots, .list cells, .list acts] => do
      let cc ← cc.toBool?; let xc ← xc.toBool?; let tr ← tr.toBool?; let fuel ← fuel.toNat?
      let roots ← roots.mapM Sexp.toNat?
      let image ← cells.mapM cell?
      let acts ← acts.mapM act?
      pure (.list (runAll ⟨cc, xc⟩ fuel (World.init image roots tr) acts))
  | [.atom "race", n, .list sched] => do
      let n ← n.toNat?
      let sched ← sched.mapM Sexp.toNat?
      let s := raceRun (RaceSt.init n) sched
      pure (.list [ofBool s.streamPrepared, ofBool s.prepared,
                   .list (s.pcs.map fun pc => .atom (match pc with
                     | .l455 => "l455" | .l474 => "l474" | .l475 => "l475" | .l475run _ => "l475run" | .l476 => "l476"
                     | .finished => "finished" | .raised => "raised"))])
  | _ => none

end Driver.C10

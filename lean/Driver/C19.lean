import Genshi.Wire
namespace Driver.C19
open Genshi

/-- stub: the model driver for C19 is not built yet -/
def handle : List Sexp → Option Sexp := fun _ => none

end Driver.C19

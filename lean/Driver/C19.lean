import Genshi.Wire
import Genshi.WireCore
import Genshi.Model.I18nTranslate
import Genshi.Model.I18nExtract
import Genshi.Model.I18nChoose
import Genshi.Model.I18nPyExpr
import Genshi.Model.I18nPyStream
namespace Driver.C19
open Genshi Genshi.I18n Genshi.Sexp

/-! wire format of template events (harness/props/c19.py `tev`):
    ( S qn ( ( qn ( av "v" ) | ( ap ( ( t "x" ) | ( x codemsgs ) ... ) ) ) ... ) )   ( E qn )   ( T "x" )
    ( X id codemsgs )   ( XC codemsgs )   ( SUB ( dir ... ) ( event ... ) )   ( O "label" )
    codemsgs = ( ( "func" val ) ... ),  val = ( one "s"|N ) | ( many "s"|N ... )
    dir = ( domain "d" ) ( comment "c" ) ( ctxt "c" ) ( msg "p" ... ) ( choose "p" ... ) Singular Plural Strip ( other "n" ) -/

def strs? (xs : List Sexp) : Option (List Str) := xs.mapM Sexp.toStr?

def msgVal? : Sexp → Option MsgVal
  | .list [.atom "one", v] => do let v ← optStr? v; pure (.one v)
  | .list (.atom "many" :: vs) => do let vs ← vs.mapM optStr?; pure (.many vs)
  | _ => none

def codeMsgs? : Sexp → Option (List CodeMsg)
  | .list xs => xs.mapM fun
      | .list [.str f, v] => do let v ← msgVal? v; pure ⟨f, v⟩
      | _ => none
  | _ => none

def dir? : Sexp → Option Dir
  | .list [.atom "domain", .str d] => some (.domain d)
  | .list [.atom "comment", .str c] => some (.comment c)
  | .list [.atom "ctxt", .str c] => some (.ctxt c)
  | .list (.atom "msg" :: ps) => do let ps ← strs? ps; pure (.msg ps)
  | .list (.atom "choose" :: ps) => do let ps ← strs? ps; pure (.choose ps)
  | .atom "Singular" => some .singular
  | .atom "Plural" => some .plural
  | .atom "Strip" => some .strip
  | .list [.atom "other", .str n] => some (.other n)
  | _ => none

def apart? : Sexp → Option APart
  | .list [.atom "t", .str s] => some (.text s)
  | .list [.atom "x", m] => do let m ← codeMsgs? m; pure (.expr m)
  | _ => none

def aval? : Sexp → Option AVal
  | .list [.atom "av", .str v] => some (.str v)
  | .list [.atom "ap", .list ps] => do let ps ← ps.mapM apart?; pure (.parts ps)
  | _ => none

def tattrs? : Sexp → Option TAttrs
  | .list xs => xs.mapM fun
      | .list [n, v] => do let n ← QName.ofSexp? n; let v ← aval? v; pure (n, v)
      | _ => none
  | _ => none

partial def tev? : Sexp → Option TEvent
  | .list [.atom "S", t, a] => do let t ← QName.ofSexp? t; let a ← tattrs? a; pure (.start t a)
  | .list [.atom "E", t] => do let t ← QName.ofSexp? t; pure (.end_ t)
  | .list [.atom "T", .str s] => some (.text s)
  | .list [.atom "X", i, m] => do let i ← i.toNat?; let m ← codeMsgs? m; pure (.expr i m)
  | .list [.atom "XC", m] => do let m ← codeMsgs? m; pure (.exec m)
  | .list [.atom "SUB", .list ds, .list body] => do
      let ds ← ds.mapM dir?
      let body ← body.mapM tev?
      pure (.sub ds body)
  | .list [.atom "O", .str l] => some (.other l)
  | _ => none

def tstream? : Sexp → Option TStream
  | .list xs => xs.mapM tev?
  | _ => none

def ofOptStr : Option Str → Sexp
  | some s => .str s
  | none => .atom "N"

def msgValOut : MsgVal → Sexp
  | .one v => .list [.atom "one", ofOptStr v]
  | .many vs => .list (.atom "many" :: vs.map ofOptStr)

def codeMsgsOut (ms : List CodeMsg) : Sexp := .list (ms.map fun m => .list [.str m.func, msgValOut m.val])

def dirOut : Dir → Sexp
  | .domain d => .list [.atom "domain", .str d]
  | .comment c => .list [.atom "comment", .str c]
  | .ctxt c => .list [.atom "ctxt", .str c]
  | .msg ps => .list (.atom "msg" :: ps.map .str)
  | .choose ps => .list (.atom "choose" :: ps.map .str)
  | .singular => .atom "Singular"
  | .plural => .atom "Plural"
  | .strip => .atom "Strip"
  | .other n => .list [.atom "other", .str n]

def apartOut : APart → Sexp
  | .text s => .list [.atom "t", .str s]
  | .expr m => .list [.atom "x", codeMsgsOut m]

def avalOut : AVal → Sexp
  | .str v => .list [.atom "av", .str v]
  | .parts ps => .list [.atom "ap", .list (ps.map apartOut)]

partial def tevOut : TEvent → Sexp
  | .start t a => .list [.atom "S", t.toSexp, .list (a.map fun (n, v) => .list [n.toSexp, avalOut v])]
  | .end_ t => .list [.atom "E", t.toSexp]
  | .text s => .list [.atom "T", .str s]
  | .expr i m => .list [.atom "X", ofNat i, codeMsgsOut m]
  | .exec m => .list [.atom "XC", codeMsgsOut m]
  | .sub ds body => .list [.atom "SUB", .list (ds.map dirOut), .list (body.map tevOut)]
  | .other l => .list [.atom "O", .str l]

def tstreamOut (s : TStream) : Sexp := .list (s.map tevOut)

def cfg? : Sexp → Option Cfg
  | .list [.list ig, .list inc, et] => do
      let ig ← strs? ig; let inc ← strs? inc; let et ← et.toBool?
      pure ⟨ig, inc, et⟩
  | _ => none

def frame? : Sexp → Option Frame
  | .list [.atom "d", .str d] => some (.domain d)
  | .list [.atom "c", .str c] => some (.context c)
  | _ => none

def ctx? : Sexp → Option Ctx
  | .list xs => xs.mapM frame?
  | _ => none

/-- catalogue families both sides compute: `id`; `wrap` = `<domain|context|msg>`;
    `pad` = ` msg ` (white space at the edges); `const` = `X`; `dup` = `msgmsg` -/
def cat? : Sexp → Option Catalog
  | .atom "id" => some Catalog.id
  | .atom "wrap" => some ⟨fun d c s => '<' :: (d.getD []) ++ '|' :: (c.getD []) ++ '|' :: s ++ ['>']⟩
  | .atom "pad" => some ⟨fun _ _ s => ' ' :: s ++ [' ']⟩
  | .atom "const" => some ⟨fun _ _ _ => ['X']⟩
  | .atom "dup" => some ⟨fun _ _ s => s ++ s⟩
  | _ => none

def errOut : Err → Sexp
  | .indexError => .list [.atom "err", .atom "IndexError"]
  | .keyError => .list [.atom "err", .atom "KeyError"]
  | .typeError => .list [.atom "err", .atom "TypeError"]
  | .stopIteration => .list [.atom "err", .atom "RuntimeError"]
  | .attributeError => .list [.atom "err", .atom "AttributeError"]

def lookupOut (l : Lookup) : Sexp := .list [ofOptStr l.domain, ofOptStr l.context, .str l.msgid]

def messageOut (m : Message) : Sexp :=
  .list [ofOptStr m.func, msgValOut m.val, .list (m.comments.map .str)]

def exceptOut {α} (f : α → Sexp) : Except Err α → Sexp
  | .ok a => .list [.atom "ok", f a]
  | .error e => errOut e

/-- guards: what the model does not cover is answered `unmodelled` -/
def dirsOk (ds : List Dir) : Bool :=
  (ds.filter fun d => match d with | .domain _ => true | _ => false).length ≤ 1 &&
  (ds.filter fun d => match d with | .ctxt _ => true | _ => false).length ≤ 1 &&
  (ds.filter fun d => match d with | .comment _ => true | _ => false).length ≤ 1 &&
  ds.all fun d => match d with | .ctxt c => !c.isEmpty | .domain d => !d.isEmpty | _ => true

partial def streamOk : TStream → Bool
  | [] => true
  | .sub ds body :: es => dirsOk ds && streamOk body && streamOk es
  | _ :: es => streamOk es

/-! wire format of Python syntax trees (harness/props/c19.py `py_wire`):
    ( PS "s" )  ( PB "s"|N )  ( PN "id" )  ( PC func ( arg ... ) ( kwvalue ... ) )  ( PX ( child ... ) )
    `( PB N )` is a bytes literal that is no utf-8: the model has no such tree (`none` of the
    inner option) and the verb answers `unmodelled`. -/
partial def pyExpr? : Sexp → Option (Option PyExpr)
  | .list [.atom "PS", .str s] => some (some (.str s))
  | .list [.atom "PB", .str s] => some (some (.bytes s))
  | .list [.atom "PB", .atom "N"] => some none
  | .list [.atom "PN", .str s] => some (some (.name s))
  | .list [.atom "PC", f, .list args, .list kws] => do
      let f ← pyExpr? f
      let args ← args.mapM pyExpr?
      let kws ← kws.mapM pyExpr?
      pure (do let f ← f; let args ← args.mapM id; let kws ← kws.mapM id; pure (.call f args kws))
  | .list [.atom "PX", .list cs] => do
      let cs ← cs.mapM pyExpr?
      pure (do let cs ← cs.mapM id; pure (.node cs))
  | _ => none

/-! wire format of template events whose code is a syntax tree (verb `extractp`): as `tev` with a
    `py_wire` tree in the place of every list of code messages:
    ( X id pyexpr )   ( XC pyexpr )   attribute part ( x pyexpr ) -/

/-- does the value hold a bytes literal that is no utf-8 (`( PB N )`)? the model has no such tree -/
partial def hasBadBytes : Sexp → Bool
  | .list [.atom "PB", .atom "N"] => true
  | .list xs => xs.any hasBadBytes
  | _ => false

def pyExpr1? (x : Sexp) : Option PyExpr := (pyExpr? x).bind id

def ppart? : Sexp → Option PPart
  | .list [.atom "t", .str s] => some (.text s)
  | .list [.atom "x", e] => do let e ← pyExpr1? e; pure (.expr e)
  | _ => none

def pval? : Sexp → Option PVal
  | .list [.atom "av", .str v] => some (.str v)
  | .list [.atom "ap", .list ps] => do let ps ← ps.mapM ppart?; pure (.parts ps)
  | _ => none

def pattrs? : Sexp → Option PAttrs
  | .list xs => xs.mapM fun
      | .list [n, v] => do let n ← QName.ofSexp? n; let v ← pval? v; pure (n, v)
      | _ => none
  | _ => none

partial def pev? : Sexp → Option PEvent
  | .list [.atom "S", t, a] => do let t ← QName.ofSexp? t; let a ← pattrs? a; pure (.start t a)
  | .list [.atom "E", t] => do let t ← QName.ofSexp? t; pure (.end_ t)
  | .list [.atom "T", .str s] => some (.text s)
  | .list [.atom "X", i, e] => do let i ← i.toNat?; let e ← pyExpr1? e; pure (.expr i e)
  | .list [.atom "XC", e] => do let e ← pyExpr1? e; pure (.exec e)
  | .list [.atom "SUB", .list ds, .list body] => do
      let ds ← ds.mapM dir?
      let body ← body.mapM pev?
      pure (.sub ds body)
  | .list [.atom "O", .str l] => some (.other l)
  | _ => none

def pstream? : Sexp → Option PStream
  | .list xs => xs.mapM pev?
  | _ => none

def handle : List Sexp → Option Sexp
  | [.atom "extractp", cfg, .list gf, s] => do
      let cfg ← cfg? cfg; let gf ← strs? gf
      if hasBadBytes s then pure (.atom "unmodelled") else
      let s ← pstream? s
      if !streamOk (lowerList gf s) then pure (.atom "unmodelled") else
      pure (exceptOut (fun ms => .list (ms.map messageOut)) (extractP cfg gf s))
  | [.atom "pycode", .list gf, e] => do
      let gf ← strs? gf
      match ← pyExpr? e with
      | none => pure (.atom "unmodelled")
      | some e => pure (codeMsgsOut (extractFromCode gf e))
  | [.atom "translate", cfg, cat, ctx, tt, ta, s] => do
      let cfg ← cfg? cfg; let cat ← cat? cat; let ctx ← ctx? ctx
      let tt ← tt.toBool?; let ta ← ta.toBool?; let s ← tstream? s
      if !streamOk s then pure (.atom "unmodelled") else
      pure (.list [tstreamOut (translate cfg cat ctx tt ta s),
                   .list ((lookups cfg ctx tt ta s).map lookupOut)])
  | [.atom "extractw", cfg, st, .list cs, .list xs, s] => do
      let cfg ← cfg? cfg; let st ← st.toBool?; let cs ← strs? cs; let xs ← strs? xs; let s ← tstream? s
      if !streamOk s then pure (.atom "unmodelled") else
      pure (exceptOut (fun ms => .list (ms.map messageOut)) (extractWith cfg st cs xs s))
  | [.atom "extract", cfg, s] => do
      let cfg ← cfg? cfg; let s ← tstream? s
      if !streamOk s then pure (.atom "unmodelled") else
      pure (exceptOut (fun ms => .list (ms.map messageOut)) (extract cfg s))
  | [.atom "format", .list ps, s] => do
      let ps ← strs? ps; let s ← tstream? s
      pure (exceptOut (fun (b : MB) => .str b.format) (mbAppendList (MB.new ps) s))
  | [.atom "parse", .str s] =>
      some (exceptOut (fun ps => .list (ps.map fun (p : Nat × Str) => .list [ofNat p.1, .str p.2])) (parseMsg s))
  | [.atom "mbtranslate", .list ps, s, .str tr] => do
      let ps ← strs? ps; let s ← tstream? s
      pure (exceptOut tstreamOut (do let b ← mbAppendList (MB.new ps) s; b.translate tr))
  | [.atom "msggen", .list ps, cat, s] => do
      let ps ← strs? ps; let cat ← cat? cat; let s ← tstream? s
      pure (.list [exceptOut tstreamOut (msgGenerate ps (cat.lookup none none) s),
                   exceptOut ofOptStr (msgId ps s)])
  | [.atom "choose", .list ps, pl, cat, s] => do
      let ps ← strs? ps; let pl ← pl.toBool?; let cat ← cat? cat; let s ← tstream? s
      -- the catalogue families answer with the form the numeral selects
      let ngt := fun (sg pl' : Str) => cat.lookup none none (if pl then pl' else sg)
      match chooseCall ps pl ngt s with
      | none => pure (.atom "unmodelled")
      | some r => pure (exceptOut tstreamOut r)
  | [.atom "reorder", .list ds] => do
      let ds ← ds.mapM dir?
      if !dirsOk ds then pure (.atom "unmodelled") else
      pure (.list ((reorder ds).dirs.map dirOut))
  | _ => none

end Driver.C19

import Genshi.Wire
import Genshi.Model.Conc
import Genshi.Model.ConcNested
import Genshi.Model.LockOrder
import Driver.C15
namespace Driver.C16
open Genshi Genshi.Sexp Genshi.Lru Genshi.Loader Genshi.Conc

/-! `C16 trace <cap> <autoReload> <callback> ( path ) ( setup ops ) ( programs ) ( events )`

  trace validation: the events recorded from real threads (lock proxy, cache subclass, load
  wrapper) must be an execution of the interleaving model.  Each event is matched against the
  next *visible* step of its thread (silent steps — decision, parse, end of callback — are taken
  on demand; they belong to the lock holder and commute with everything the others may do). -/

partial def creq? (pathEmpty : Bool) : Sexp → Option CReq
  | .list [.atom "Q", base, sub, absd, rel, cls, enc, cb, fault, .list children] => do
      let base ← base.toNat?; let sub ← sub.toBool?; let absd ← Driver.C15.optNat? absd
      let rel ← Driver.C15.rel? rel
      let cls ← cls.toNat?; let enc ← enc.toNat?; let cb ← cb.toBool?; let fault ← Driver.C15.fault? fault
      let r : Req := ⟨base, sub, absd, rel, cls, enc, cb, fault⟩
      let key ← resolve pathEmpty r
      let cs ← children.mapM (creq? pathEmpty)
      pure (.mk r key cs)
  | _ => none

def lockAct? : Sexp → Option Genshi.LockOrder.Act
  | .list [.atom "A", l] => do let l ← l.toNat?; pure (.acq l)
  | .list [.atom "R", l] => do let l ← l.toNat?; pure (.rel l)
  | _ => none

/-- replay recorded lock events; `some i`: event `i` is not what the model does there -/
def lockReplay (i : Nat) (g : Genshi.LockOrder.G) :
    List (Nat × String × Nat) → Option Nat × Genshi.LockOrder.G
  | [] => (none, g)
  | (t, k, l) :: rest =>
    let head := (g.threads t).prog.head?
    match k with
    | "blk" =>
      if head == some (.acq l) && (Genshi.LockOrder.step g t).isNone && t < g.n then lockReplay (i + 1) g rest
      else (some i, g)
    | _ =>
      let want : Genshi.LockOrder.Act := if k == "acq" then .acq l else .rel l
      if head == some want && (k == "acq" || k == "rel") then
        match Genshi.LockOrder.step g t with
        | some g' => lockReplay (i + 1) g' rest
        | none => (some i, g)
      else (some i, g)

inductive Label where
  | call | acq | blk | get (hit : Option Nat) | put (obj : Nat) | rel | ret (res : Option Nat) (err : String)

def label? : List Sexp → Option Label
  | [.atom "call"] => some .call
  | [.atom "acq"] => some .acq
  | [.atom "blk"] => some .blk
  | [.atom "get", .atom "N"] => some (.get none)
  | [.atom "get", n] => do let n ← n.toNat?; pure (.get (some n))
  | [.atom "put", n] => do let n ← n.toNat?; pure (.put n)
  | [.atom "rel"] => some .rel
  | [.atom "ret", .atom "ok", n] => do let n ← n.toNat?; pure (.ret (some n) "")
  | [.atom "ret", .atom "err", .atom e] => some (.ret none e)
  | _ => none

def event? : Sexp → Option (Tid × Label)
  | .list (t :: rest) => do let t ← t.toNat?; let l ← label? rest; pure (t, l)
  | _ => none

def errName : Err → String
  | .notFound => "TemplateNotFound"
  | .syntaxError => "TemplateSyntaxError"
  | .callback => "CallbackError"
  | .loadFunc => "LoadFuncError"
  | .noSearchPath => "TemplateError"

/-- what the next step of thread `t` shows: `none` = silent -/
inductive Next where
  | finished | silent | vis (ok : Label → Bool)

def nextOf (g : G) (t : Tid) : Next :=
  let th := g.threads t
  match th.stack with
  | [] => match th.todo with
    | [] => .finished
    | _ => .vis fun | .call => true | _ => false
  | ⟨q, pc⟩ :: _ =>
    match pc with
    | .start => .vis fun | .acq => true | _ => false
    | .acquired =>
      let hit := (alookup q.key g.ls.cache.items).map (·.obj)
      .vis fun | .get h => h == hit | _ => false
    | .looked _ => .silent
    | .found _ _ _ _ => .silent
    | .calling _ _ (_ :: _) => .vis fun | .call => true | _ => false
    | .calling _ _ [] => .silent
    | .called tm _ => .vis fun | .put o => o == tm.obj | _ => false
    | .done _ => .vis fun | .rel => true | _ => false
    | .released res =>
      .vis fun
        | .ret (some o) _ => (match res with | .ok tm => tm.obj == o | _ => false)
        | .ret none e => (match res with | .err er => errName er == e | _ => false)
        | _ => false

/-- match one event; `none`: rejected -/
def matchEvent (c : CCfg) : Nat → G → Tid → Label → Option G
  | 0, _, _, _ => none
  | fuel + 1, g, t, l =>
    match l with
    | .blk =>
      -- the thread found the lock taken: in the model its acquire step must be disabled
      match (g.threads t).stack with
      | ⟨_, .start⟩ :: _ => if (step c g t).isNone then some g else none
      | _ => none
    | _ =>
      match nextOf g t with
      | .finished => none
      | .silent => match step c g t with
        | none => none
        | some g' => matchEvent c fuel g' t l
      | .vis ok => if ok l then step c g t else none

def runEvents (c : CCfg) : Nat → G → List (Tid × Label) → Except Nat G
  | _, g, [] => .ok g
  | i, g, (t, l) :: more =>
    match matchEvent c 8 g t l with
    | none => .error i
    | some g' => runEvents c (i + 1) g' more

def resS (r : Res) : Sexp :=
  match r with
  | .ok t => .list [.atom "ok", ofNat t.obj]
  | .err e => .list [.atom "err", .atom (errName e)]

def handle : List Sexp → Option Sexp
  | [.atom "trace", cap, ar, cb, .list path, .list setup, .list progs, .list events] => do
      let cap ← cap.toNat?; let ar ← ar.toBool?; let cb ← cb.toBool?
      let path ← path.mapM Driver.C15.entry?
      let setup ← setup.mapM Driver.C15.hop?
      let cfg : Cfg := ⟨path, ar, cap, cb⟩
      let progs ← progs.mapM fun
        | .list qs => qs.mapM (creq? path.isEmpty)
        | _ => none
      let events ← events.mapM event?
      let w := (hrun cfg (World.init cap) setup).1
      let c : CCfg := ⟨cfg, w.fs, true⟩
      let g0 := G.init w.ls progs
      match runEvents c 0 g0 events with
      | .error i => pure (.list [.atom "reject", ofNat i])
      | .ok g =>
        let done := (List.range g.n).all fun t => (g.threads t).finished
        pure (.list [.atom (if done then "ok" else "incomplete"),
          .list (g.ls.cache.items.map fun (k, t) => .list [Driver.C15.keyS k, ofNat t.obj]),
          .list (g.completed.map fun (t, _, r) => .list [ofNat t, resS r]),
          ofNat g.ls.nextObj, ofBool g.owner.isNone])
  -- `C16 nested <cap> <autoReload> <callback> ( path ) ( setup ops ) ( ( tid Q… ) … )`: the
  -- sequential specification with nested loads (`loadN`), one top-level load after the other
  | [.atom "nested", cap, ar, cb, .list path, .list setup, .list loads] => do
      let cap ← cap.toNat?; let ar ← ar.toBool?; let cb ← cb.toBool?
      let path ← path.mapM Driver.C15.entry?
      let setup ← setup.mapM Driver.C15.hop?
      let cfg : Cfg := ⟨path, ar, cap, cb⟩
      let loads ← loads.mapM fun
        | .list [t, q] => do let t ← t.toNat?; let q ← creq? path.isEmpty q; pure (t, q)
        | _ => none
      let w := (hrun cfg (World.init cap) setup).1
      let c : CCfg := ⟨cfg, w.fs, true⟩
      let out := seqLoadsN c w.ls [] loads
      pure (.list [.atom "ok",
        .list (out.1.cache.items.map fun (k, t) => .list [Driver.C15.keyS k, ofNat t.obj]),
        .list (out.2.map fun (t, _, r) => .list [ofNat t, resS r]),
        ofNat out.1.nextObj, ofNat out.1.lock, ofNat out.1.cbLog.length])
  -- `C16 locks ( programs ) ( events ) ( rank… )`: the lock actions recorded per thread on the real
  -- code (every lock the genshi modules create), replayed in their global order on the model with
  -- several re-entrant locks: every `acq`/`rel` must be an enabled step of its thread, every `blk`
  -- a moment at which the model blocks that thread too; then the final state, whether it is a
  -- deadlock, and whether all programs respect the numbering of the locks (`ok (byRank rank)`)
  | [.atom "locks", .list progs, .list events, .list rank] => do
      let progs ← progs.mapM fun
        | .list acts => acts.mapM lockAct?
        | _ => none
      let events ← events.mapM fun
        | .list [t, .atom k, l] => do let t ← t.toNat?; let l ← l.toNat?; pure (t, k, l)
        | _ => none
      let rank ← rank.mapM (·.toNat?)
      let rk : Genshi.LockOrder.Lock → Nat := fun l => rank.getD l 0
      let g0 := Genshi.LockOrder.G.init progs
      let verdict := lockReplay 0 g0 events
      let g := verdict.2
      pure (.list [match verdict.1 with | none => .atom "ok" | some i => .list [.atom "reject", ofNat i],
        .list ((List.range g.n).map fun t =>
          .list [.list ((g.threads t).held.map ofNat), ofNat (g.threads t).prog.length]),
        ofBool (Genshi.LockOrder.stuck g),
        ofBool (progs.all fun p => Genshi.LockOrder.ok (Genshi.LockOrder.byRank rk) [] p),
        .list ((progs.flatMap (Genshi.LockOrder.edges [])).eraseDups.map fun (a, b) => .list [ofNat a, ofNat b])])
  | _ => none

end Driver.C16

import Genshi.Wire
namespace Driver.C16
open Genshi

/-- stub: the model driver for C16 is not built yet -/
def handle : List Sexp → Option Sexp := fun _ => none

end Driver.C16

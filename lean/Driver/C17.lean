import Genshi.Wire
namespace Driver.C17
open Genshi

/-- stub: the model driver for C17 is not built yet -/
def handle : List Sexp → Option Sexp := fun _ => none

end Driver.C17

import Genshi.Wire
import Genshi.WireCore
import Genshi.Model.PathStrategy
import Genshi.Model.PathFrags
import Driver.C05
/-
  Driver verbs for C17:

    C17 trace <strategy> <ic> <skip> <text> <nsmap> <vars> <events>
        -> ( ok <val>… ) one result per event of `Path(text).test(ic)` with every location path
           forced onto <strategy> (auto = the choice of Path.__init__); with <skip> = T the caller
           behaves like Path.select / the match filter: after a `True` on a START event the events
           up to the matching END are fed update-only and reported as `SKIP`
        -> unsupported | unmodelled | ( err <kind> )
    C17 can <text>        -> ( ok ( <single> <simple> <generic> <chosen> )… ) per location path
    C17 frags <text>      -> SimplePathStrategy fragments per location path
    C17 inscope <text>      -> per location path: N (not supported by SimplePathStrategy),
                             ( none <allSStep> ) (`fragments = None`), or
                             ( <fragsOk> <isNormPath> <allSStep> ): `T T` first = the path satisfies the
                             hypotheses of simple_eq_generic_fragments_partial (`inScope_sound`);
                             <allSStep> = T: those of simple_eq_generic_spellings_partial (`allSStepM_sound`)
    C17 fullscope <text>    -> per location path: N (not supported by SimplePathStrategy) or T / F: the path
                             satisfies the hypotheses of simple_eq_generic, the full statement (`fullScope_sound`)
-/
namespace Driver.C17
open Genshi Genshi.Path Genshi.Sexp Driver.C05

def optValSexp : Option Val → Sexp
  | none => .atom "SKIP"
  | some v => valSexp v

def stratName : Strategy → String
  | .single => "Single" | .simple => "Simple" | .generic => "Generic"

def handle : List Sexp → Option Sexp
  | [.atom "trace", s, ic, skip, .str text, ns, vs, es] => do
      let force ← strategyOf? s
      let ic ← ic.toBool?; let skip ← skip.toBool?
      let ns ← nsOfSexp? ns; let vs ← varsOfSexp? vs; let es ← streamOfSexp? es
      if !textCovered text || !nsCovered ns || !eventsCovered es then pure (.atom "unmodelled") else
      match parse text with
      | .error .fuel | .error .unmodelled => pure (.atom "unmodelled")
      | .error k => pure (.list [.atom "err", errAtom k])
      | .ok ps =>
        if !pathsCovered ps then pure (.atom "unmodelled")
        else if (match force with
                 | some s => !(ps.all fun p => s.supports p)
                 | none => false) then pure (.atom "unsupported")
        else
          let (ms, sts) := pathTest ps ic force
          pure (.list (.atom "ok" :: (traceCaller ms ns vs skip sts es).map optValSexp))
  | [.atom "can", .str text] =>
      match parse text with
      | .ok ps => some (.list (.atom "ok" :: ps.map fun p =>
          .list [ofBool (singleSupports p), ofBool (simpleSupports p), ofBool true,
                 .atom (stratName ((chooseStrategy p).getD .generic))]))
      | .error _ => some (.atom "unmodelled")
  | [.atom "frags", .str text] =>
      match parse text with
      | .ok ps => some (.list (.atom "ok" :: ps.map fun p =>
          match fragments p with
          | none => .atom "N"
          | some fs => .list (fs.map fun f =>
              .list [.list (f.tests.map testSexp), .list (f.pi.map ofNat),
                     (match f.attr with | some t => testSexp t | none => .atom "N"), ofBool f.selfBeginning])))
      | .error _ => some (.atom "unmodelled")
  | [.atom "inscope", .str text] =>
      match parse text with
      | .ok ps => some (.list (.atom "ok" :: ps.map fun p =>
          if !simpleSupports p then .atom "N" else
          match FragsM.inScope p with
          | none => .list [.atom "none", ofBool (FragsM.allSStepM p)]
          | some (a, b) => .list [ofBool a, ofBool b, ofBool (FragsM.allSStepM p)]))
      | .error _ => some (.atom "unmodelled")
  | [.atom "fullscope", .str text] =>
      match parse text with
      | .ok ps => some (.list (.atom "ok" :: ps.map fun p =>
          if !simpleSupports p then .atom "N" else ofBool (FragsM.fullScopeM p)))
      | .error _ => some (.atom "unmodelled")
  | _ => none

end Driver.C17

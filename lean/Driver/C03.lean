import Genshi.Wire
import Genshi.Model.PyXform
import Genshi.Model.PyUnxf
import Genshi.Model.PyLex
import Genshi.Model.PyLookupObj
import Genshi.Model.PyEvalC
import Driver.PyWire
namespace Driver.C03
open Genshi Genshi.Py Genshi.Sexp Driver.PyWire

def pairs? (f : Sexp → Option α) : Sexp → Option (List (Str × α))
  | .list xs => xs.mapM fun
      | .list [.str k, v] => do pure (k, ← f v)
      | _ => none
  | _ => none

def optNat? : Sexp → Option (Option Nat)
  | .atom "N" => some none
  | x => do pure (some (← x.toNat?))

/-- `(obj attrs cls items)` of `Model/PyLookupObj.lean` -/
def decObj : Sexp → Option Obj.OV
  | .list [.atom "obj", attrs, cls, items] => do
      let its ← (match items with
        | .atom "N" => some none
        | x => do pure (some (← pairs? Sexp.toNat? x)))
      pure (.obj (← pairs? Sexp.toNat? attrs) (← pairs? optNat? cls) its)
  | _ => none

def decKey : Sexp → Option Obj.OV
  | .str s => some (.str s)
  | x => do pure (.val (← x.toNat?))

def encRes : Except Obj.OE Obj.OV → Sexp
  | .ok (.val n) => .list [.atom "ok", ofNat n]
  | .ok (.undef k) => .list [.atom "undefined", .str k]
  | .ok _ => .list [.atom "ok", .atom "other"]
  | .error .attributeError => .list [.atom "err", .str "AttributeError".toList]
  | .error .keyError => .list [.atom "err", .str "KeyError".toList]
  | .error .typeError => .list [.atom "err", .str "TypeError".toList]
  | .error .indexError => .list [.atom "err", .str "IndexError".toList]
  | .error (.undefinedError _) => .list [.atom "err", .str "UndefinedError".toList]
  | .error .other => .list [.atom "err", .str "other".toList]

/-! ### the concrete evaluator (`Model/PyEvalC.lean`) -/
open Genshi.Py.C in
partial def decV : Sexp → Option CV
  | .atom "N" => some .none
  | .atom "T" => some (.bool true)
  | .atom "F" => some (.bool false)
  | .str s => some (.str s)
  | .list [.atom "i", n] => do pure (.int (← n.toInt?))
  | .list (.atom "l" :: xs) => do pure (.list (← xs.mapM decV))
  | .list (.atom "t" :: xs) => do pure (.tuple (← xs.mapM decV))
  | .list (.atom "d" :: xs) => do
      let kvs ← xs.mapM fun
        | .list [k, v] => do pure ((← decV k), (← decV v))
        | _ => none
      pure (.dict (kvs.map (·.1)) (kvs.map (·.2)))
  | .list (.atom "o" :: xs) => do
      let kvs ← xs.mapM fun
        | .list [.str k, v] => do pure (k, (← decV v))
        | _ => none
      pure (.obj (kvs.map (·.1)) (kvs.map (·.2)))
  | .list [.atom "b", .str n] => some (.builtin n)
  | _ => none

open Genshi.Py.C in
def errName : CE → Option String
  | .typeError => some "TypeError" | .nameError => some "NameError" | .keyError => some "KeyError"
  | .indexError => some "IndexError" | .attributeError => some "AttributeError"
  | .zeroDivision => some "ZeroDivisionError" | .valueError => some "ValueError"
  | .undefinedError => some "UndefinedError" | .unmodelled => none | .fuel => none

open Genshi.Py.C in
/-- the value in the shape of `c03.canon` (`none`: outside the modelled domain) -/
partial def encV : CV → Option Sexp
  | .none => some (.atom "N")
  | .bool b => some (ofBool b)
  | .int i => some (.list [.atom "i", ofInt i])
  | .str s => some (.str s)
  | .list xs => do pure (.list (.atom "l" :: (← xs.mapM encV)))
  | .tuple xs => do pure (.list (.atom "t" :: (← xs.mapM encV)))
  | .dict ks vs => do
      pure (.list (.atom "d" :: (← (ks.zip vs).mapM fun (k, v) => do pure (Sexp.list [← encV k, ← encV v]))))
  | .obj _ _ => some (.list [.atom "o"])
  | .range a b => some (.list [.atom "r", ofInt a, ofInt b])
  | .undef n => some (.list [.atom "u", .str n])
  | .builtin n => if typeNames.contains n then some (.list [.atom "ty", .str n]) else some (.list [.atom "fn"])
  | .bound _ _ => some (.list [.atom "fn"])
  | .clo .. => some (.list [.atom "fn"])
  | .gen (.ok xs) => do pure (.list (.atom "g" :: (← xs.mapM encV)))
  | .gen (.error e) => do pure (.list [.atom "gx", ofString (← errName e)])
  | .slice _ _ _ => none
  | .bad => none

/-- a string constant whose `repr` has an escape sequence is outside the model -/
partial def hasEscape : Sexp → Bool
  | .list [.atom "Const", .atom "STR", .str t] => t.contains '\\'
  | .list xs => xs.any hasEscape
  | _ => false

open Genshi.Py.C in
def cevalFuel : Nat := 60

open Genshi.Py.C in
def decData : Sexp → Option (List (Str × CV))
  | .list xs => xs.mapM fun
      | .list [.str k, v] => do pure (k, (← decV v))
      | _ => none
  | _ => none

open Genshi.Py.C in
def ceval (py strict : Bool) (data : Sexp) (t : Sexp) : Sexp :=
  if hasEscape t then .atom "unmodelled" else
  match decE t, decData data with
  | some e, some d =>
      match run py strict d cevalFuel e with
      | .ok v => match encV v with
          | some x => .list [.atom "ok", x]
          | none => .atom "unmodelled"
      | .error err => match errName err with
          | some n => .list [.atom "err", ofString n]
          | none => if err = CE.fuel then .atom "unmodelled-fuel" else .atom "unmodelled"
  | _, _ => .atom "unmodelled"

/-- `ceval py strict data tree`: the concrete evaluator (`py`: Python's evaluation of the rewritten tree, else the
    documented semantics of the tree itself);
    `xform tree`: the tree after `ExpressionASTTransformer` (`unmodelled` outside the modelled syntax);
    `unxf tree`: the rewriting undone;
    `lookup attr|item strict obj key`: the lookup rules on a concrete record-like object;
    `lex text`: the chunks of `interpolation.lex` as `(T|F text)` pairs, `err`, or `unmodelled` -/
def handle : List Sexp → Option Sexp
  | [.atom "xform", t] =>
      match decE t with
      | none => some (.atom "unmodelled")
      | some e => some (.list [.atom "ok", encE (xform e)])
  | [.atom "unxf", t] =>
      match decE t with
      | none => some (.atom "unmodelled")
      | some e => some (.list [.atom "ok", encE (unxf e)])
  | [.atom "lookup", .atom which, strict, o, k] =>
      match decObj o, decKey k, strict.toBool? with
      | some obj, some key, some st =>
          if which = "attr" then
            match key with
            | .str s => some (encRes (Obj.attrOf st obj s))
            | _ => some (.atom "unmodelled")
          else some (encRes (Obj.itemOf st obj key))
      | _, _, _ => some (.atom "unmodelled")
  | [.atom "ceval", py, strict, data, t] =>
      match py.toBool?, strict.toBool? with
      | some p, some st => some (ceval p st data t)
      | _, _ => none
  | [.atom "lex", .str text] =>
      if Lex.unmodelled text then some (.atom "unmodelled") else
      match Lex.lex text with
      | .error _ => some (.atom "err")
      | .ok chunks => some (.list [.atom "ok", .list (chunks.map fun (b, s) => .list [ofBool b, .str s])])
  | _ => none

end Driver.C03

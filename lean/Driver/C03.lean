import Genshi.Wire
import Genshi.Model.PyXform
import Genshi.Model.PyUnxf
import Genshi.Model.PyLex
import Genshi.Model.PyLookupObj
import Driver.PyWire
namespace Driver.C03
open Genshi Genshi.Py Genshi.Sexp Driver.PyWire

def pairs? (f : Sexp → Option α) : Sexp → Option (List (Str × α))
  | .list xs => xs.mapM fun
      | .list [.str k, v] => do pure (k, ← f v)
      | _ => none
  | _ => none

def optNat? : Sexp → Option (Option Nat)
  | .atom "N" => some none
  | x => do pure (some (← x.toNat?))

/-- `(obj attrs cls items)` of `Model/PyLookupObj.lean` -/
def decObj : Sexp → Option Obj.OV
  | .list [.atom "obj", attrs, cls, items] => do
      let its ← (match items with
        | .atom "N" => some none
        | x => do pure (some (← pairs? Sexp.toNat? x)))
      pure (.obj (← pairs? Sexp.toNat? attrs) (← pairs? optNat? cls) its)
  | _ => none

def decKey : Sexp → Option Obj.OV
  | .str s => some (.str s)
  | x => do pure (.val (← x.toNat?))

def encRes : Except Obj.OE Obj.OV → Sexp
  | .ok (.val n) => .list [.atom "ok", ofNat n]
  | .ok (.undef k) => .list [.atom "undefined", .str k]
  | .ok _ => .list [.atom "ok", .atom "other"]
  | .error .attributeError => .list [.atom "err", .str "AttributeError".toList]
  | .error .keyError => .list [.atom "err", .str "KeyError".toList]
  | .error .typeError => .list [.atom "err", .str "TypeError".toList]
  | .error .indexError => .list [.atom "err", .str "IndexError".toList]
  | .error (.undefinedError _) => .list [.atom "err", .str "UndefinedError".toList]
  | .error .other => .list [.atom "err", .str "other".toList]

/-- `xform tree`: the tree after `ExpressionASTTransformer` (`unmodelled` outside the modelled syntax);
    `unxf tree`: the rewriting undone;
    `lookup attr|item strict obj key`: the lookup rules on a concrete record-like object;
    `lex text`: the chunks of `interpolation.lex` as `(T|F text)` pairs, `err`, or `unmodelled` -/
def handle : List Sexp → Option Sexp
  | [.atom "xform", t] =>
      match decE t with
      | none => some (.atom "unmodelled")
      | some e => some (.list [.atom "ok", encE (xform e)])
  | [.atom "unxf", t] =>
      match decE t with
      | none => some (.atom "unmodelled")
      | some e => some (.list [.atom "ok", encE (unxf e)])
  | [.atom "lookup", .atom which, strict, o, k] =>
      match decObj o, decKey k, strict.toBool? with
      | some obj, some key, some st =>
          if which = "attr" then
            match key with
            | .str s => some (encRes (Obj.attrOf st obj s))
            | _ => some (.atom "unmodelled")
          else some (encRes (Obj.itemOf st obj key))
      | _, _, _ => some (.atom "unmodelled")
  | [.atom "lex", .str text] =>
      if Lex.unmodelled text then some (.atom "unmodelled") else
      match Lex.lex text with
      | .error _ => some (.atom "err")
      | .ok chunks => some (.list [.atom "ok", .list (chunks.map fun (b, s) => .list [ofBool b, .str s])])
  | _ => none

end Driver.C03

import Genshi.Wire
import Genshi.Model.PyXform
import Genshi.Model.PyUnxf
import Genshi.Model.PyLex
import Driver.PyWire
namespace Driver.C03
open Genshi Genshi.Py Genshi.Sexp Driver.PyWire

/-- `xform tree`: the tree after `ExpressionASTTransformer` (`unmodelled` outside the modelled syntax);
    `unxf tree`: the rewriting undone;
    `lex text`: the chunks of `interpolation.lex` as `(T|F text)` pairs, `err`, or `unmodelled` -/
def handle : List Sexp → Option Sexp
  | [.atom "xform", t] =>
      match decE t with
      | none => some (.atom "unmodelled")
      | some e => some (.list [.atom "ok", encE (xform e)])
  | [.atom "unxf", t] =>
      match decE t with
      | none => some (.atom "unmodelled")
      | some e => some (.list [.atom "ok", encE (unxf e)])
  | [.atom "lex", .str text] =>
      if Lex.unmodelled text then some (.atom "unmodelled") else
      match Lex.lex text with
      | .error _ => some (.atom "err")
      | .ok chunks => some (.list [.atom "ok", .list (chunks.map fun (b, s) => .list [ofBool b, .str s])])
  | _ => none

end Driver.C03

import Genshi.Wire
namespace Driver.C03
open Genshi

/-- stub: the model driver for C03 is not built yet -/
def handle : List Sexp → Option Sexp := fun _ => none

end Driver.C03

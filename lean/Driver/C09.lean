import Genshi.Wire
import Genshi.WireCore
import Genshi.Model.OutputPipeline
import Genshi.Model.OutputMarkupAttr
namespace Driver.C09
open Genshi Genshi.Output Genshi.Sexp

def method? : Sexp → Option Method
  | .atom "xml" => some .xml
  | .atom "xhtml" => some .xhtml
  | .atom "html" => some .html
  | _ => none

/-- `N` | `( name s… )` | `( tuple name pubid|N sysid|N )`; outer `none` = unknown name -/
def doctype? : Sexp → Option (Option DocTypeT)
  | .atom "N" => some none
  | .list [.atom "name", .str n] => (docTypeGet n).map some
  | .list [.atom "tuple", .str n, p, s] => do
      let p ← optStr? p; let s ← optStr? s; pure (some (n, p, s))
  | _ => none

def okStream (m : Method) (cfg : Cfg) (s : Stream) : Bool :=
  match filtered m cfg s with
  | some fs => fs.all feOk
  | none => false

/-- an event as it reaches the main loop on the namespace-free domain: names are local names -/
def locEv : Event → FEv
  | .start t a => .start t.loc (a.map fun p => (p.1.loc, p.2))
  | .end_ t => .end_ t.loc
  | .text s f => .text s f
  | .comment s => .comment s
  | .pi t d => .pi t d
  | .doctype n p s => .doctype n p s
  | .xmlDecl v e s => .xmlDecl v e s
  | .startNs p u => .startNs p u
  | .endNs p => .endNs p
  | .startCdata => .startCdata
  | .endCdata => .endCdata

/-- `( TAG empty name ( ( attr value markup ) … ) )` or a wire event -/
def tev? : Sexp → Option TEv
  | .list [.atom "TAG", ie, .str t, .list as] => do
      let ie ← ie.toBool?
      let a ← as.mapM fun
        | .list [.str n, .str v, f] => do let f ← f.toBool?; pure (n, v, f)
        | _ => none
      pure (.tag ie t a)
  | x => (Event.ofSexp? x).map fun e => .ev (locEv e)

def handle : List Sexp → Option Sexp
  -- loopm <method> <cache> <drop_xml_decl> ( item … ): the repaired main loop on typed events
  | [.atom "loopm", m, cache, dropd, .list items] => do
      let m ← method? m
      let cache ← cache.toBool?; let dropd ← dropd.toBool?
      let evs ← items.mapM tev?
      if !(evs.all fun e => feOk e.key) then pure (.atom "unmodelled") else
      pure (.list [.atom "ok", .str (loopT m ⟨dropd⟩ cache {} evs).flatten])
  -- render <method> <strip> <cache> <drop_xml_decl> <doctype> <stream>
  | [.atom "render", m, strip, cache, dropd, dt, s] => do
      let m ← method? m
      let strip ← strip.toBool?; let cache ← cache.toBool?; let dropd ← dropd.toBool?
      let s ← streamOfSexp? s
      match doctype? dt with
      | none => pure (.atom "unmodelled")
      | some dt =>
        let cfg : Cfg := { strip := strip, cache := cache, doctype := dt, dropXmlDecl := dropd }
        if !okStream m cfg s then pure (.atom "unmodelled") else
        match render m cfg s with
        | some out => pure (.list [.atom "ok", .str out])
        | none => pure (.atom "unmodelled")
  -- spec <method> <drop_xml_decl> <stream>: serSpec over the filtered stream (strip off, no doctype)
  | [.atom "spec", m, dropd, s] => do
      let m ← method? m
      let dropd ← dropd.toBool?
      let s ← streamOfSexp? s
      let cfg : Cfg := { strip := false, cache := false, dropXmlDecl := dropd }
      if !okStream m cfg s then pure (.atom "unmodelled") else
      match filtered m cfg s with
      | some fs => pure (.list [.atom "ok", .str (serSpec m ⟨dropd⟩ {} fs).flatten])
      | none => pure (.atom "unmodelled")
  | [.atom "wsnorm", .str s] => some (.str (wsNorm s))
  | [.atom "doctypeget", .str n] =>
      match docTypeGet n with
      | some (a, b, c) => some (.list [.str a, optStr b, optStr c])
      | none => some (.atom "N")
  | _ => none

end Driver.C09

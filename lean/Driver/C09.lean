import Genshi.Wire
namespace Driver.C09
open Genshi

/-- stub: the model driver for C09 is not built yet -/
def handle : List Sexp → Option Sexp := fun _ => none

end Driver.C09

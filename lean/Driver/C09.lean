import Genshi.Wire
import Genshi.WireCore
import Genshi.Model.OutputPipeline
import Genshi.Model.OutputMarkupAttr
import Genshi.Model.OutputFlattenCache
import Genshi.Model.OutputFlatPipeline
import Genshi.Model.OutputPipelineFull
namespace Driver.C09
open Genshi Genshi.Output Genshi.Sexp

def method? : Sexp → Option Method
  | .atom "xml" => some .xml
  | .atom "xhtml" => some .xhtml
  | .atom "html" => some .html
  | _ => none

/-- `N` | `( name s… )` | `( tuple name pubid|N sysid|N )`; outer `none` = unknown name -/
def doctype? : Sexp → Option (Option DocTypeT)
  | .atom "N" => some none
  | .list [.atom "name", .str n] => (docTypeGet n).map some
  | .list [.atom "tuple", .str n, p, s] => do
      let p ← optStr? p; let s ← optStr? s; pure (some (n, p, s))
  | _ => none

def okStream (m : Method) (cfg : Cfg) (s : Stream) : Bool :=
  match filtered m cfg s with
  | some fs => fs.all feOk
  | none => false

/-- an event as it reaches the main loop on the namespace-free domain: names are local names -/
def locEv : Event → FEv
  | .start t a => .start t.loc (a.map fun p => (p.1.loc, p.2))
  | .end_ t => .end_ t.loc
  | .text s f => .text s f
  | .comment s => .comment s
  | .pi t d => .pi t d
  | .doctype n p s => .doctype n p s
  | .xmlDecl v e s => .xmlDecl v e s
  | .startNs p u => .startNs p u
  | .endNs p => .endNs p
  | .startCdata => .startCdata
  | .endCdata => .endCdata

/-- `( TAG empty name ( ( attr value markup ) … ) )` or a wire event -/
def tev? : Sexp → Option TEv
  | .list [.atom "TAG", ie, .str t, .list as] => do
      let ie ← ie.toBool?
      let a ← as.mapM fun
        | .list [.str n, .str v, f] => do let f ← f.toBool?; pure (n, v, f)
        | _ => none
      pure (.tag ie t a)
  | x => (Event.ofSexp? x).map fun e => .ev (locEv e)

/-! ### the flattener with its cache on the full namespace model (`Model/OutputFlattenCache.lean`) -/

/-- `( TAG empty qname ( ( qname value markup ) … ) )` or a wire event -/
def txev? : Sexp → Option Xml.TXEv
  | .list [.atom "TAG", ie, t, .list as] => do
      let ie ← ie.toBool?
      let t ← QName.ofSexp? t
      let a ← as.mapM fun
        | .list [n, .str v, f] => do let n ← QName.ofSexp? n; let f ← f.toBool?; pure (n, (v, f))
        | _ => none
      pure (.tag ie t a)
  | x => (Event.ofSexp? x).map .ev

def tfev : Xml.TFEv → Sexp
  | .tag ie n a => .list [.atom "TAG", ofBool ie, .str n,
      .list (a.map fun p => .list [.str p.1, .str p.2.1, ofBool p.2.2])]
  | .end_ n => .list [.atom "E", .str n]
  | .other e => e.toSexp

def cpref? : Sexp → Option (List (Str × Str))
  | .list xs => xs.mapM fun
      | .list [.str u, .str p] => some (u, p)
      | _ => none
  | _ => none

/-- how often the cached run serves a start tag from the cache (`chit` answers) and how many entries it
    stores: measures that the generated streams reach the branches the theorem is about -/
def cstats (pref : List (Str × Str)) : Xml.CSt → List Xml.TXEv → Nat × Nat → Nat × Nat
  | _, [], acc => acc
  | c, e :: es, (hits, stores) =>
      let r := Xml.cstep pref true c e
      let hit := match e with
        | .tag ie t a => (Xml.chit true c ie t a).isSome
        | .ev (.start t a) => (Xml.chit true c false t (Xml.typedOf a)).isSome
        | _ => false
      let stored := r.1.cache.length > c.cache.length
      cstats pref r.1 es (if hit then hits + 1 else hits, if stored then stores + 1 else stores)

def handle : List Sexp → Option Sexp
  -- cflat <cache> <pref> ( item … ): NamespaceFlattener(prefixes, cache) on typed events
  | [.atom "cflat", cache, p, .list items] => do
      let cache ← cache.toBool?
      let p ← cpref? p
      let evs ← items.mapM txev?
      let (hits, stores) := cstats p { st := Xml.FSt.init } evs (0, 0)
      pure (.list [.list ((Xml.cflatten p cache evs).map tfev), ofNat hits, ofNat stores])
  -- flatser <method> <cache> <drop_xml_decl> <pref> ( item … ): flattener + main loop, same cache flag
  | [.atom "flatser", m, cache, dropd, p, .list items] => do
      let m ← method? m
      let cache ← cache.toBool?; let dropd ← dropd.toBool?
      let p ← cpref? p
      let evs ← items.mapM txev?
      pure (.list [.atom "ok", .str (serT m ⟨dropd⟩ p cache evs)])
  -- loopm <method> <cache> <drop_xml_decl> ( item … ): the repaired main loop on typed events
  | [.atom "loopm", m, cache, dropd, .list items] => do
      let m ← method? m
      let cache ← cache.toBool?; let dropd ← dropd.toBool?
      let evs ← items.mapM tev?
      if !(evs.all fun e => feOk e.key) then pure (.atom "unmodelled") else
      pure (.list [.atom "ok", .str (loopT m ⟨dropd⟩ cache {} evs).flatten])
  -- render <method> <strip> <cache> <drop_xml_decl> <doctype> <stream>
  | [.atom "render", m, strip, cache, dropd, dt, s] => do
      let m ← method? m
      let strip ← strip.toBool?; let cache ← cache.toBool?; let dropd ← dropd.toBool?
      let s ← streamOfSexp? s
      match doctype? dt with
      | none => pure (.atom "unmodelled")
      | some dt =>
        let cfg : Cfg := { strip := strip, cache := cache, doctype := dt, dropXmlDecl := dropd }
        if !okStream m cfg s then pure (.atom "unmodelled") else
        match render m cfg s with
        | some out => pure (.list [.atom "ok", .str out])
        | none => pure (.atom "unmodelled")
  -- renderfull <method> <strip> <cache> <drop_xml_decl> <doctype> <stream>: the whole serializer with the full
  -- NamespaceFlattener (never `unmodelled` for namespace reasons)
  | [.atom "renderfull", m, strip, cache, dropd, dt, s] => do
      let m ← method? m
      let strip ← strip.toBool?; let cache ← cache.toBool?; let dropd ← dropd.toBool?
      let s ← streamOfSexp? s
      match doctype? dt with
      | none => pure (.atom "unmodelled")
      | some dt =>
        let cfg : Cfg := { strip := strip, cache := cache, doctype := dt, dropXmlDecl := dropd }
        if !((filteredFull m cfg s).all feOk) then pure (.atom "unmodelled") else
        pure (.list [.atom "ok", .str (renderFull m cfg s)])
  -- spec <method> <drop_xml_decl> <stream>: serSpec over the filtered stream (strip off, no doctype)
  | [.atom "spec", m, dropd, s] => do
      let m ← method? m
      let dropd ← dropd.toBool?
      let s ← streamOfSexp? s
      let cfg : Cfg := { strip := false, cache := false, dropXmlDecl := dropd }
      if !okStream m cfg s then pure (.atom "unmodelled") else
      match filtered m cfg s with
      | some fs => pure (.list [.atom "ok", .str (serSpec m ⟨dropd⟩ {} fs).flatten])
      | none => pure (.atom "unmodelled")
  | [.atom "wsnorm", .str s] => some (.str (wsNorm s))
  | [.atom "doctypeget", .str n] =>
      match docTypeGet n with
      | some (a, b, c) => some (.list [.str a, optStr b, optStr c])
      | none => some (.atom "N")
  | _ => none

end Driver.C09

import Genshi.Wire
import Genshi.Model.Escape
import Genshi.Model.MarkupOps
namespace Driver.C18
open Genshi Genshi.Escape Genshi.Sexp

def opnd? : Sexp → Option Opnd
  | .list [.atom "p", .str s] => some (.plain s)
  | .list [.atom "m", .str s] => some (.safe s)
  | .list [.atom "h", .str s] => some (.html s)
  | _ => none

def hex2 (n : Nat) : String := String.ofList [hexDigit (n / 16), hexDigit (n % 16)]

def bytesAtom (bs : List Nat) : Sexp := .atom ("b" ++ String.join (bs.map hex2))

def fmtRes : Except FmtErr (List Char) → Sexp
  | .ok s => .list [.atom "ok", .str s]
  | .error .unsupported => .atom "unmodelled"
  | .error .typeError => .list [.atom "err", .atom "TypeError"]
  | .error .keyError => .list [.atom "err", .atom "KeyError"]

def pair? : Sexp → Option (List Char × Option (List Char))
  | .list [.str n, .str v] => some (n, some v)
  | .list [.str n, .atom "N"] => some (n, none)
  | _ => none

def attrsOut (a : Attrs) : Sexp := .list (a.map fun (n, v) => .list [.str n, .str v])


/-! ### wave 4: the wider algebra (`Genshi.MarkupOps`) -/
def arg? : Sexp → Option MarkupOps.Arg
  | .list [.atom "p", .str s] => some (.str s)
  | .list [.atom "m", .str s] => some (.markup s)
  | .list [.atom "ms", .str s] => some (.msub s)
  | .list [.atom "h", .str s] => some (.html s)
  | .list [.atom "i", n] => n.toInt?.map .int
  | .atom "N" => some .none
  | _ => none

def impl? : Sexp → Option MarkupOps.Impl
  | .atom "c" => some .c
  | .atom "py" => some .py
  | _ => none

def tyAtom : MarkupOps.Ty → Sexp
  | .str => .atom "U"
  | .markup => .atom "M"
  | .msub => .atom "MS"

def errAtom : MarkupOps.PyErr → Sexp
  | .attributeError => .atom "AttributeError"
  | .typeError => .atom "TypeError"
  | .keyError => .atom "KeyError"
  | .indexError => .atom "IndexError"

def tres : Except MarkupOps.PyErr (MarkupOps.Ty × List Char) → Sexp
  | .ok (t, s) => .list [.atom "ok", tyAtom t, .str s]
  | .error e => .list [.atom "err", errAtom e]

def fres : Except MarkupOps.FmtErr (MarkupOps.Ty × List Char) → Sexp
  | .ok (t, s) => .list [.atom "ok", tyAtom t, .str s]
  | .error .unsupported => .atom "unmodelled"
  | .error (.raised e) => .list [.atom "err", errAtom e]

def sres : Except San.Err (List Char) → Sexp
  | .ok s => .list [.atom "ok", .str s]
  | .error .valueError => .list [.atom "err", .atom "ValueError"]
  | .error .overflowError => .list [.atom "err", .atom "OverflowError"]

def optInt? : Sexp → Option (Option Int)
  | .atom "N" => some none
  | x => x.toInt?.map some

def attrs? (xs : List Sexp) : Option Attrs :=
  xs.mapM fun
    | .list [.str n, .str v] => some (n, v)
    | _ => none

def qnOut (q : MarkupOps.QN) : Sexp :=
  .list [.str q.text, (match q.ns with | some n => .str n | none => .atom "N"), .str q.loc]

def handle2 : List Sexp → Option Sexp
  | [.atom "esc2", i, q, a] => do
      let i ← impl? i; let q ← q.toBool?; let a ← arg? a
      pure (tres (MarkupOps.escapeCls i (MarkupOps.escOf i) q a))
  | [.atom "escc", q, .str s] => do
      let q ← q.toBool?; pure (.str (MarkupOps.escapeC q s))
  | [.atom "add2", i, .str self, a] => do
      let i ← impl? i; let a ← arg? a
      pure (tres (MarkupOps.add i (MarkupOps.escOf i) self a))
  | [.atom "radd2", i, .str self, a] => do
      let i ← impl? i; let a ← arg? a
      pure (tres (MarkupOps.radd i (MarkupOps.escOf i) self a))
  | [.atom "mul2", .str self, a] => do
      let a ← arg? a; pure (tres (MarkupOps.mul self a))
  | [.atom "join2", i, .str sep, q, .list xs] => do
      let i ← impl? i; let q ← q.toBool?; let xs ← xs.mapM arg?
      pure (tres (MarkupOps.join i (MarkupOps.escOf i) sep q xs))
  | [.atom "mod2", i, .str fmt, .list [.atom "one", a]] => do
      let i ← impl? i; let a ← arg? a
      pure (fres (MarkupOps.mod i (MarkupOps.escOf i) fmt (.one a)))
  | [.atom "mod2", i, .str fmt, .list (.atom "tup" :: xs)] => do
      let i ← impl? i; let xs ← xs.mapM arg?
      pure (fres (MarkupOps.mod i (MarkupOps.escOf i) fmt (.tup xs)))
  | [.atom "mod2", i, .str fmt, .list (.atom "map" :: kvs)] => do
      let i ← impl? i
      let kvs ← kvs.mapM fun
        | .list [.str k, a] => do let a ← arg? a; pure (k, a)
        | _ => none
      pure (fres (MarkupOps.mod i (MarkupOps.escOf i) fmt (.map kvs)))
  | [.atom "repr", .str s] =>
      some (if MarkupOps.reprModelled s then .str (MarkupOps.markupRepr s) else .atom "unmodelled")
  | [.atom "unescm", .str s] =>
      let r := MarkupOps.unescapeM s
      some (.list [.atom "ok", tyAtom r.1, .str r.2])
  | [.atom "unescfn", a] => do
      let a ← arg? a
      match MarkupOps.unescapeFn a with
      | some r => pure (.list [.atom "ok", tyAtom r.1, .str r.2])
      | none => pure (.atom "unmodelled")
  | [.atom "ent_strip", k, .str s] => do
      let k ← k.toBool?; pure (sres (MarkupOps.stripentities k s))
  | [.atom "tag_strip", .str s] => some (.str (MarkupOps.striptags s))
  | [.atom "plaintext", k, .str s] => do
      let k ← k.toBool?; pure (sres (MarkupOps.plaintext k s))
  | [.atom "attrs_has", .list a, .str n] => do
      let a ← attrs? a; pure (ofBool (Attrs.has a n))
  | [.atom "attrs_get", .list a, .str n] => do
      let a ← attrs? a
      pure (match Attrs.get a n with | some v => .str v | none => .atom "N")
  | [.atom "attrs_idx", .list a, i] => do
      let a ← attrs? a; let i ← i.toInt?
      pure (match MarkupOps.attrsIndex a i with
        | .ok (n, v) => .list [.atom "ok", .str n, .str v]
        | .error e => .list [.atom "err", errAtom e])
  | [.atom "attrs_slice", .list a, i, j] => do
      let a ← attrs? a; let i ← optInt? i; let j ← optInt? j
      pure (attrsOut (MarkupOps.attrsSlice a i j))
  | [.atom "attrs_substr", .list a, .str n] => do
      let a ← attrs? a; pure (attrsOut (MarkupOps.attrsSubStr a n))
  | [.atom "attrs_totuple", .list a] => do
      let a ← attrs? a; pure (.str (MarkupOps.attrsTotuple a))
  | [.atom "qname", .str s] => some (qnOut (MarkupOps.qnameNew s))
  | [.atom "qname_args", .str s] => some (.str (MarkupOps.qnameNewArgs (MarkupOps.qnameNew s)))
  | [.atom "ns_get", .str uri, .str name] => some (qnOut (MarkupOps.nsGetItem uri name))
  | [.atom "ns_contains", .str uri, .str s] => some (ofBool (MarkupOps.nsContains uri (MarkupOps.qnameNew s)))
  | [.atom "ns_eq", .str uri, .str o] => some (ofBool (MarkupOps.nsEq uri o))
  | _ => none

def handle : List Sexp → Option Sexp
  | [.atom "esc", .atom "py", q, .str s] => do
      let q ← q.toBool?; pure (.str (escapePy q s))
  | [.atom "esc", .atom "spec", q, .str s] => do
      let q ← q.toBool?; pure (.str (escapeSpec q s))
  | [.atom "esc", .atom "c", q, .str s] => do
      let q ← q.toBool?
      let (out, len) := escapeCBytes q (utf8 s)
      pure (.list [bytesAtom out, ofNat len])
  | [.atom "unesc", .str s] => some (.str (unescape s))
  | [.atom "add", .str self, o] => do let o ← opnd? o; pure (.str (mAdd escapePy self o))
  | [.atom "radd", .str self, o] => do let o ← opnd? o; pure (.str (mRadd escapePy self o))
  | [.atom "mul", .str self, n] => do let n ← n.toNat?; pure (.str (mMul self n))
  | [.atom "join", .str sep, q, .list xs] => do
      let q ← q.toBool?; let os ← xs.mapM opnd?; pure (.str (mJoin escapePy sep q os))
  | [.atom "mod", .str fmt, .list [.atom "one", o]] => do
      let o ← opnd? o; pure (fmtRes (mMod escapePy fmt (.one o)))
  | [.atom "mod", .str fmt, .list (.atom "tup" :: os)] => do
      let os ← os.mapM opnd?; pure (fmtRes (mMod escapePy fmt (.tup os)))
  | [.atom "mod", .str fmt, .list (.atom "map" :: kvs)] => do
      let kvs ← kvs.mapM fun
        | .list [.str k, o] => do let o ← opnd? o; pure (k, o)
        | _ => none
      pure (fmtRes (mMod escapePy fmt (.map kvs)))
  | [.atom "attrs_or", .list self, .list other] => do
      let self ← self.mapM fun
        | .list [.str n, .str v] => some (n, v)
        | _ => none
      let other ← other.mapM pair?
      pure (attrsOut (Attrs.or self other))
  | [.atom "attrs_sub", .list self, .list names] => do
      let self ← self.mapM fun
        | .list [.str n, .str v] => some (n, v)
        | _ => none
      let names ← names.mapM Sexp.toStr?
      pure (attrsOut (Attrs.sub self names))
  | xs => handle2 xs

end Driver.C18

import Genshi.Wire
import Genshi.Model.Escape
namespace Driver.C18
open Genshi Genshi.Escape Genshi.Sexp

def opnd? : Sexp → Option Opnd
  | .list [.atom "p", .str s] => some (.plain s)
  | .list [.atom "m", .str s] => some (.safe s)
  | .list [.atom "h", .str s] => some (.html s)
  | _ => none

def hex2 (n : Nat) : String := String.ofList [hexDigit (n / 16), hexDigit (n % 16)]

def bytesAtom (bs : List Nat) : Sexp := .atom ("b" ++ String.join (bs.map hex2))

def fmtRes : Except FmtErr (List Char) → Sexp
  | .ok s => .list [.atom "ok", .str s]
  | .error .unsupported => .atom "unmodelled"
  | .error .typeError => .list [.atom "err", .atom "TypeError"]
  | .error .keyError => .list [.atom "err", .atom "KeyError"]

def pair? : Sexp → Option (List Char × Option (List Char))
  | .list [.str n, .str v] => some (n, some v)
  | .list [.str n, .atom "N"] => some (n, none)
  | _ => none

def attrsOut (a : Attrs) : Sexp := .list (a.map fun (n, v) => .list [.str n, .str v])

def handle : List Sexp → Option Sexp
  | [.atom "esc", .atom "py", q, .str s] => do
      let q ← q.toBool?; pure (.str (escapePy q s))
  | [.atom "esc", .atom "spec", q, .str s] => do
      let q ← q.toBool?; pure (.str (escapeSpec q s))
  | [.atom "esc", .atom "c", q, .str s] => do
      let q ← q.toBool?
      let (out, len) := escapeCBytes q (utf8 s)
      pure (.list [bytesAtom out, ofNat len])
  | [.atom "unesc", .str s] => some (.str (unescape s))
  | [.atom "add", .str self, o] => do let o ← opnd? o; pure (.str (mAdd escapePy self o))
  | [.atom "radd", .str self, o] => do let o ← opnd? o; pure (.str (mRadd escapePy self o))
  | [.atom "mul", .str self, n] => do let n ← n.toNat?; pure (.str (mMul self n))
  | [.atom "join", .str sep, q, .list xs] => do
      let q ← q.toBool?; let os ← xs.mapM opnd?; pure (.str (mJoin escapePy sep q os))
  | [.atom "mod", .str fmt, .list [.atom "one", o]] => do
      let o ← opnd? o; pure (fmtRes (mMod escapePy fmt (.one o)))
  | [.atom "mod", .str fmt, .list (.atom "tup" :: os)] => do
      let os ← os.mapM opnd?; pure (fmtRes (mMod escapePy fmt (.tup os)))
  | [.atom "mod", .str fmt, .list (.atom "map" :: kvs)] => do
      let kvs ← kvs.mapM fun
        | .list [.str k, o] => do let o ← opnd? o; pure (k, o)
        | _ => none
      pure (fmtRes (mMod escapePy fmt (.map kvs)))
  | [.atom "attrs_or", .list self, .list other] => do
      let self ← self.mapM fun
        | .list [.str n, .str v] => some (n, v)
        | _ => none
      let other ← other.mapM pair?
      pure (attrsOut (Attrs.or self other))
  | [.atom "attrs_sub", .list self, .list names] => do
      let self ← self.mapM fun
        | .list [.str n, .str v] => some (n, v)
        | _ => none
      let names ← names.mapM Sexp.toStr?
      pure (attrsOut (Attrs.sub self names))
  | _ => none

end Driver.C18

import Genshi.Wire
namespace Driver.C15
open Genshi

/-- stub: the model driver for C15 is not built yet -/
def handle : List Sexp → Option Sexp := fun _ => none

end Driver.C15

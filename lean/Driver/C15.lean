import Genshi.Wire
import Genshi.Model.Lru
import Genshi.Model.Loader
import Genshi.Model.LoaderRace
import Genshi.Gen.Loader
import Driver.C15Path
namespace Driver.C15
open Genshi Genshi.Sexp Genshi.Lru

/-! ### LRU container: `C15 lru <cap> <nkeys> ( ops… )` -/

def op? : Sexp → Option (Op Nat Nat)
  | .list [.atom "G", k] => do let k ← k.toNat?; pure (.get k)
  | .list [.atom "P", k, v] => do let k ← k.toNat?; let v ← v.toNat?; pure (.set k v)
  | .list [.atom "C", k] => do let k ← k.toNat?; pure (.contains k)
  | .atom "L" => some .len
  | .atom "I" => some .iter
  | _ => none

def outS : Out Nat Nat → Sexp
  | .val v => .list [.atom "v", ofNat v]
  | .keyError => .atom "KE"
  | .unit => .atom "U"
  | .bool b => ofBool b
  | .nat n => .list [.atom "n", ofNat n]
  | .keys ks => .list (.atom "k" :: ks.map ofNat)

def optS : Option Nat → Sexp
  | none => .atom "N"
  | some n => ofNat n

def idsS : Option (List Nat) → Sexp
  | none => .atom "loop"
  | some l => .list (l.map ofNat)

/-- the full linked structure: head, tail, len(_dict), the nodes along `nxt` from head
    (id prv nxt key value), the ids along `prv` from tail, the `_dict` entries over the key
    universe `0..nkeys-1`, and the model's own well-formedness verdict -/
def dumpS (c : CLru Nat Nat) (nkeys : Nat) : Sexp :=
  let fwd := walkNxt c.heap (c.size + 2) c.head
  let bwd := walkPrv c.heap (c.size + 2) c.tail
  let nodes : Sexp := match fwd with
    | none => .atom "loop"
    | some l => .list (l.map fun i =>
        let n := c.heap i
        .list [ofNat i, optS n.prv, optS n.nxt, ofNat n.key, ofNat n.val])
  let keys := List.range nkeys
  let dict : List Sexp := keys.filterMap fun k => (c.dict k).map fun i => .list [ofNat k, ofNat i]
  .list [optS c.head, optS c.tail, ofNat c.size, nodes, idsS bwd, .list dict,
         ofBool (wfCheck c keys)]

def adumpS (a : ALru Nat Nat) : Sexp := .list (a.items.map fun (k, v) => .list [ofNat k, ofNat v])

def lruRun (cap nkeys : Nat) (ops : List (Op Nat Nat)) : Sexp :=
  let (a, aouts) := arun (aempty cap) ops
  let abs := .list [.list (aouts.map outS), adumpS a]
  match crun (empty cap ⟨none, none, 0, 0⟩) ops with
  | none => .list [.atom "crash", abs]
  | some (c, outs) => .list [.list [.list (outs.map outS), dumpS c nkeys], abs]

/-- `C15 lrutrace`: output and complete structure after *every* step -/
def lruTrace (nkeys : Nat) : CLru Nat Nat → ALru Nat Nat → List (Op Nat Nat) → List Sexp
  | _, _, [] => []
  | c, a, op :: ops =>
    let (a', ao) := astep a op
    match cstep c op with
    | none => [.atom "crash"]
    | some (c', o) =>
      .list [outS o, dumpS c' nkeys, outS ao, adumpS a'] :: lruTrace nkeys c' a' ops

/-! ### loader histories: `C15 hist <cap> <autoReload> <hasCallback> ( path… ) ( ops… )` -/
section
open Genshi.Loader

def entry? : Sexp → Option Entry
  | .list [.atom "D", d, insub] => do let d ← d.toNat?; let b ← insub.toBool?; pure (.dir d b)
  | .list [.atom "F", d, c] => do let d ← d.toNat?; let c ← c.toBool?; pure (.fn d c)
  | _ => none

def optNat? : Sexp → Option (Option Nat)
  | .atom "N" => some none
  | x => do let n ← x.toNat?; pure (some n)

def rel? : Sexp → Option Rel
  | .atom "N" => some .none
  | .list [.atom "R", b] => do let b ← b.toBool?; pure (.rel b)
  | .list [.atom "A", d, b] => do let d ← d.toNat?; let b ← b.toBool?; pure (.abs d b)
  | _ => none

def fault? : Sexp → Option Fault
  | .atom "N" => some .none
  | .atom "io" => some .io
  | .atom "other" => some .other
  | _ => none

def loc? (d sub base : Sexp) : Option Loc := do
  let d ← d.toNat?; let b ← sub.toBool?; let n ← base.toNat?; pure ⟨d, b, n⟩

def hop? : Sexp → Option HOp
  | .list [.atom "W", d, sub, base, c, bad] => do
      let l ← loc? d sub base; let c ← c.toNat?; let b ← bad.toBool?; pure (.write l c b)
  | .list [.atom "T", d, sub, base] => do let l ← loc? d sub base; pure (.touch l)
  | .list [.atom "X", d, sub, base] => do let l ← loc? d sub base; pure (.delete l)
  | .list [.atom "L", base, sub, absd, rel, cls, enc, cb, fault] => do
      let base ← base.toNat?; let sub ← sub.toBool?; let absd ← optNat? absd; let rel ← rel? rel
      let cls ← cls.toNat?; let enc ← enc.toNat?; let cb ← cb.toBool?; let fault ← fault? fault
      pure (.load ⟨base, sub, absd, rel, cls, enc, cb, fault⟩)
  | _ => none

/-- `LR …`: a load during which the file it opens is replaced (before / right after `open`) -/
def hopR? : Sexp → Option HOpR
  | .list [.atom "LR", base, sub, absd, rel, cls, enc, cb, fault, before, c, bad] => do
      let base ← base.toNat?; let sub ← sub.toBool?; let absd ← optNat? absd; let rel ← rel? rel
      let cls ← cls.toNat?; let enc ← enc.toNat?; let cb ← cb.toBool?; let fault ← fault? fault
      let before ← before.toBool?; let c ← c.toNat?; let bad ← bad.toBool?
      pure (.loadRace ⟨base, sub, absd, rel, cls, enc, cb, fault⟩ ⟨before, c, bad⟩)
  -- a modification that sets an arbitrary modification time
  | .list [.atom "WA", d, sub, base, c, bad, m] => do
      let l ← loc? d sub base; let c ← c.toNat?; let b ← bad.toBool?; let m ← m.toNat?
      pure (.writeAt l c b m)
  | x => (hop? x).map .plain

def reqOf : HOpR → Option Req
  | .plain (.load r) => some r
  | .loadRace r _ => some r
  | _ => none

def errS : Err → Sexp
  | .notFound => .atom "TemplateNotFound"
  | .syntaxError => .atom "TemplateSyntaxError"
  | .callback => .atom "CallbackError"
  | .loadFunc => .atom "LoadFuncError"
  | .noSearchPath => .atom "TemplateError"

def tmplS (t : Tmpl) : Sexp :=
  .list [ofNat t.obj, ofNat t.loc.dir, ofBool t.loc.sub, ofNat t.loc.base, ofNat t.content,
         ofNat t.cls, ofNat t.enc, ofBool t.absName]

def resS : Res → Sexp
  | .ok t => .list [.atom "ok", tmplS t]
  | .err e => .list [.atom "err", errS e]

def keyS (k : Key) : Sexp := .list [optS k.absd, ofBool k.sub, ofNat k.base]

def utdS (s : LState) (keys : List Key) : Sexp :=
  .list (keys.filterMap fun k => (s.utd k).map fun u =>
    match u with
    | .never => .list [keyS k, .atom "N"]
    | .mtime loc m => .list [keyS k, .list [ofNat loc.dir, ofBool loc.sub, ofNat loc.base, ofNat m]])

/-- cache (most recent first, with identities), callbacks, parses, lock depth, and `_uptodate`
    over the keys requested so far (in order of first request) -/
def lstateS (s : LState) (keys : List Key) : Sexp :=
  .list [.list (s.cache.items.map fun (k, t) => .list [keyS k, ofNat t.obj]),
         ofNat s.cbLog.length, ofNat s.parsed.length, ofNat s.lock, utdS s keys]

/-- the model is run with what the code does about the modification time (generated constant,
    probed on `directory()`); the theorems are about `true` (`code_takes_mtime_of_opened_file`) -/
def histRun (cfg : Cfg) : World → List Key → List HOpR → List Sexp
  | _, _, [] => []
  | w, keys, op :: ops =>
    let (w', o) := hstepR Genshi.Gen.Loader.mtimeOfOpenedFile cfg w op
    let keys' := match reqOf op with
      | some r => match resolve cfg.path.isEmpty r with
        | some k => if keys.contains k then keys else keys ++ [k]
        | none => keys
      | none => keys
    let here : Sexp := match reqOf op, o with
      | some _, some res =>
        match op with
        -- a racing load also says whether (and where) the replacement landed: the clock
        | .loadRace _ _ => .list [resS res, lstateS w'.ls keys', ofNat (w'.clock - w.clock)]
        | _ => .list [resS res, lstateS w'.ls keys']
      | some _, none => .atom "unmodelled"
      | none, _ => .atom "U"
    here :: histRun cfg w' keys' ops
/-- `C15 firstspec`: the specification side on a history — for every load what the walk over the
    search path of that call comes to according to `firstOnPathF` (or `cached` when the model
    answers from the cache) -/
def specRun (cfg : Cfg) : World → List HOpR → List Sexp
  | _, [] => []
  | w, op :: ops =>
    let (w', _) := hstepR Genshi.Gen.Loader.mtimeOfOpenedFile cfg w op
    let here : Sexp := match op with
      | .plain (.load r) =>
        match resolve cfg.path.isEmpty r with
        | none => .atom "unmodelled"
        | some key =>
          let hit := Genshi.Lru.alookup key w.ls.cache.items
          if hit.isSome && (!cfg.autoReload || stillCurrent w.fs w.ls key) then .atom "cached" else
          match searchPath cfg r key with
          | none => .atom "nopath"
          | some (entries, _) =>
            match firstOnPathF w.fs r.fault key entries with
            | .nothing => .atom "nothing"
            | .raised => .atom "raised"
            | .file loc f => .list [.atom "file", ofNat loc.dir, ofBool loc.sub, ofNat loc.base,
                                    ofNat f.content, ofBool f.bad]
      | _ => .atom "U"
    here :: specRun cfg w' ops
end

def handle : List Sexp → Option Sexp
  | [.atom "firstspec", cap, ar, cb, .list path, .list ops] => do
      let cap ← cap.toNat?; let ar ← ar.toBool?; let cb ← cb.toBool?
      let path ← path.mapM entry?
      let ops ← ops.mapM hopR?
      pure (.list (specRun ⟨path, ar, cap, cb⟩ (Genshi.Loader.World.init cap) ops))
  | [.atom "hist", cap, ar, cb, .list path, .list ops] => do
      let cap ← cap.toNat?; let ar ← ar.toBool?; let cb ← cb.toBool?
      let path ← path.mapM entry?
      let ops ← ops.mapM hopR?
      pure (.list (histRun ⟨path, ar, cap, cb⟩ (Genshi.Loader.World.init cap) [] ops))
  | [.atom "lrutrace", cap, nkeys, .list ops] => do
      let cap ← cap.toNat?; let nkeys ← nkeys.toNat?
      let ops ← ops.mapM op?
      pure (.list (lruTrace nkeys (empty cap ⟨none, none, 0, 0⟩) (aempty cap) ops))
  | [.atom "lru", cap, nkeys, .list ops] => do
      let cap ← cap.toNat?; let nkeys ← nkeys.toNat?
      let ops ← ops.mapM op?
      pure (lruRun cap nkeys ops)
  | other => Driver.C15Path.handle other

end Driver.C15

import Genshi.Wire
import Genshi.Model.Lru
namespace Driver.C15
open Genshi Genshi.Sexp Genshi.Lru

/-! ### LRU container: `C15 lru <cap> <nkeys> ( ops… )` -/

def op? : Sexp → Option (Op Nat Nat)
  | .list [.atom "G", k] => do let k ← k.toNat?; pure (.get k)
  | .list [.atom "P", k, v] => do let k ← k.toNat?; let v ← v.toNat?; pure (.set k v)
  | .list [.atom "C", k] => do let k ← k.toNat?; pure (.contains k)
  | .atom "L" => some .len
  | .atom "I" => some .iter
  | _ => none

def outS : Out Nat Nat → Sexp
  | .val v => .list [.atom "v", ofNat v]
  | .keyError => .atom "KE"
  | .unit => .atom "U"
  | .bool b => ofBool b
  | .nat n => .list [.atom "n", ofNat n]
  | .keys ks => .list (.atom "k" :: ks.map ofNat)

def optS : Option Nat → Sexp
  | none => .atom "N"
  | some n => ofNat n

def idsS : Option (List Nat) → Sexp
  | none => .atom "loop"
  | some l => .list (l.map ofNat)

/-- the full linked structure: head, tail, len(_dict), the nodes along `nxt` from head
    (id prv nxt key value), the ids along `prv` from tail, the `_dict` entries over the key
    universe `0..nkeys-1`, and the model's own well-formedness verdict -/
def dumpS (c : CLru Nat Nat) (nkeys : Nat) : Sexp :=
  let fwd := walkNxt c.heap (c.size + 2) c.head
  let bwd := walkPrv c.heap (c.size + 2) c.tail
  let nodes : Sexp := match fwd with
    | none => .atom "loop"
    | some l => .list (l.map fun i =>
        let n := c.heap i
        .list [ofNat i, optS n.prv, optS n.nxt, ofNat n.key, ofNat n.val])
  let keys := List.range nkeys
  let dict : List Sexp := keys.filterMap fun k => (c.dict k).map fun i => .list [ofNat k, ofNat i]
  .list [optS c.head, optS c.tail, ofNat c.size, nodes, idsS bwd, .list dict,
         ofBool (wfCheck c keys)]

def adumpS (a : ALru Nat Nat) : Sexp := .list (a.items.map fun (k, v) => .list [ofNat k, ofNat v])

def lruRun (cap nkeys : Nat) (ops : List (Op Nat Nat)) : Sexp :=
  let (a, aouts) := arun (aempty cap) ops
  let abs := .list [.list (aouts.map outS), adumpS a]
  match crun (empty cap ⟨none, none, 0, 0⟩) ops with
  | none => .list [.atom "crash", abs]
  | some (c, outs) => .list [.list [.list (outs.map outS), dumpS c nkeys], abs]

def handle : List Sexp → Option Sexp
  | [.atom "lru", cap, nkeys, .list ops] => do
      let cap ← cap.toNat?; let nkeys ← nkeys.toNat?
      let ops ← ops.mapM op?
      pure (lruRun cap nkeys ops)
  | _ => none

end Driver.C15

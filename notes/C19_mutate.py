"""Self-test of the C19 check: apply each source mutation of genshi/filters/i18n.py in the repo
worktree (uncommitted), run the unedited test suite (tools/baseline.py) and ./check C19, revert.
usage: /venv/bin/python notes/C19_mutate.py [mutation names]   (results: notes/C19.md)"""
import subprocess, sys, os, json
REPO='/tmp/wp/i18n2/repo'; VERIF='/tmp/wp/i18n2/verif'
F=os.path.join(REPO,'genshi/filters/i18n.py')
MUTS={
 'M1-no-xml-lang': ("                if tag in self.ignore_tags or \\\n                        isinstance(attrs.get(xml_lang), six.string_types):\n                    skip += 1\n                    yield kind, data, pos\n                    continue",
                    "                if tag in self.ignore_tags:\n                    skip += 1\n                    yield kind, data, pos\n                    continue"),
 'M2-skip-reset': ("                elif kind is END:\n                    skip -= 1\n                yield kind, data, pos\n                continue", "                elif kind is END:\n                    skip = 0\n                yield kind, data, pos\n                continue"),
 'M3-extract-isupper': ("if text and [ch for ch in text if ch.isalpha()]:", "if text and [ch for ch in text if ch.isupper()]:"),
 'M4-pop-last-group': ("                events = events.pop(0)\n", "                events = events.pop()\n"),
 'M5-parse-drop-empty': ("        if mo.start() or stack[-1]:\n", "        if mo.start():\n"),
 'M6-extract-skip-summary': ("                if name in self.include_attrs:\n                    text = value.strip()", "                if name in self.include_attrs and name != 'summary':\n                    text = value.strip()"),
 'M7-translate-all-attrs': ("                        if translate_attrs and name in include_attrs and text:", "                        if translate_attrs and text:"),
 'M8-order-not-incremented': ("                self.depth += 1\n                self.order += 1\n", "                self.depth += 1\n                self.order += 1 if self.depth < 3 else 0\n"),
 'M9-extract-skip-in-ctxt': ("                    elif isinstance(directive, ContextDirective):\n                        in_context = True\n                        context_stack.append(directive.context)\n                        if len(directives) == 1:", "                    elif isinstance(directive, ContextDirective):\n                        in_context = True\n                        context_stack.append(directive.context)\n                        if len(directives) == 0:"),
 'M10-text-drop-space': ("                    data = data.replace(text, six.text_type(gettext(text)))", "                    data = six.text_type(gettext(text))"),
 'M11-skip-no-nesting': ("            if skip:\n                if kind is START:\n                    skip += 1\n                elif kind is END:\n                    skip -= 1\n                yield kind, data, pos\n                continue", "            if skip:\n                if kind is END:\n                    skip -= 1\n                yield kind, data, pos\n                continue"),
 'M12-parse-no-lookbehind': ("regex=re.compile(r'(?:\\[(\\d+)\\:)|(?<!\\\\)\\]')", "regex=re.compile(r'(?:\\[(\\d+)\\:)|\\]')"),
 'M13-values-first-wins': ("            self.values[param] = (kind, data, pos)", "            self.values.setdefault(self.orig_params[0], (kind, data, pos))"),
 'M14-extract-no-code-in-attrs': ("                for message in self.extract(_ensure(value), gettext_functions,\n                                            search_text=False):\n                    yield message", "                for message in ():\n                    yield message"),
 'M15-no-code-in-msg': ("        for funcname, strings in extract_from_code(event[1],\n                                                   gettext_functions):\n            yield event[2][1], funcname, strings, []", "        for funcname, strings in ():\n            yield event[2][1], funcname, strings, []"),
 'M16-choose-last-child': ("            stream = chain(stream, [None])", "            stream = chain(stream, [])"),
 'M17-excluded-attr-code': ("                                                   search_text=search_text\n                                                               and not skip):", "                                                   search_text=search_text\n                                                               and not skip) if not skip else ():"),
 # --- second wave (work package i18n, 2nd round)
 'N1-format-no-strip': ("        return ''.join(self.string).strip()\n", "        return ''.join(self.string)\n"),
 'N2-escape-open-only': ("                data = data.replace('[', r'\\[').replace(']', r'\\]')\n", "                data = data.replace('[', r'\\[')\n"),
 'N3-any-i18n-directive-stops-text': ("                is_i18n_directive = any([\n                    isinstance(d, ExtractableI18NDirective)\n", "                is_i18n_directive = any([\n                    isinstance(d, I18NDirective)\n"),
 'N4-msg-extract-strip-flag': ("        if not strip:\n            if previous[0] is EXPR:\n                for message in translator._extract_code(previous,\n                                                        gettext_functions):\n                    yield message\n            msgbuf.append(*previous)\n\n        yield contextify(\n            self.lineno, None,", "        if strip:\n            if previous[0] is EXPR:\n                for message in translator._extract_code(previous,\n                                                        gettext_functions):\n                    yield message\n            msgbuf.append(*previous)\n\n        yield contextify(\n            self.lineno, None,"),
 'N5-extract-ignores-ignore_tags': ("                    if tag in self.ignore_tags or \\\n                            isinstance(attrs.get(xml_lang), six.string_types):\n                        skip += 1\n\n", "                    if isinstance(attrs.get(xml_lang), six.string_types):\n                        skip += 1\n\n"),
 'N6-extract-attrs-no-strip': ("                    text = value.strip()\n                    if text:\n                        yield event[2][1], None, text, []", "                    text = value\n                    if text.strip():\n                        yield event[2][1], None, text, []"),
 'N7-choose-numeral-ignored': ("                        translation = ngettext(singular_msgbuf.format(),\n                                               plural_msgbuf.format(),\n                                               numeral)", "                        translation = ngettext(singular_msgbuf.format(),\n                                               plural_msgbuf.format(),\n                                               1)"),
 'N8-comment-not-popped': ("                                    context_stack=context_stack):\n                                yield message\n                        directives.pop(idx)\n                    elif isinstance(directive, ContextDirective):", "                                    context_stack=context_stack):\n                                yield message\n                    elif isinstance(directive, ContextDirective):"),
 'N9-choose-context-swapped': ("        yield contextify(self.lineno, 'ngettext', \\\n            (singular_msgbuf.format(), plural_msgbuf.format()), \\", "        yield contextify(self.lineno, 'ngettext', \\\n            (plural_msgbuf.format(), singular_msgbuf.format()), \\"),
 'N10-code-no-nested-calls': ("        if node._fields:\n            children = []", "        elif node._fields:\n            children = []"),
 'N11-starred-in-place': ("        return _new(_ast.Starred, self.visit(node.value), node.ctx)\n", "        node.value = self.visit(node.value)\n        return node\n"),
 # --- wave 4 (work package i18n2): directive combinations on an element without a message directive
 'P1-second-loop-skips-py-directives': ("                    else:\n                        for message in self.extract(\n                                substream, gettext_functions,\n                                search_text=search_text and not skip,\n                                comment_stack=comment_stack,\n                                context_stack=context_stack):\n                            yield message\n\n                if in_comment:", "                    elif isinstance(directive, I18NDirective):\n                        for message in self.extract(\n                                substream, gettext_functions,\n                                search_text=search_text and not skip,\n                                comment_stack=comment_stack,\n                                context_stack=context_stack):\n                            yield message\n\n                if in_comment:"),
 'P2-comment-alone-test': ("                        comment_stack.append(directive.comment)\n                        if len(directives) == 1:", "                        comment_stack.append(directive.comment)\n                        if len(directives) == 2:"),
 'P3-second-loop-no-text': ("                    else:\n                        for message in self.extract(\n                                substream, gettext_functions,\n                                search_text=search_text and not skip,\n                                comment_stack=comment_stack,\n                                context_stack=context_stack):\n                            yield message\n\n                if in_comment:", "                    else:\n                        for message in self.extract(\n                                substream, gettext_functions,\n                                search_text=False,\n                                comment_stack=comment_stack,\n                                context_stack=context_stack):\n                            yield message\n\n                if in_comment:"),
 'P4-ctxt-pop-takes-next': ("                                    context_stack=context_stack):\n                                yield message\n                        directives.pop(idx)\n                    elif not isinstance(directive, I18NDirective):", "                                    context_stack=context_stack):\n                                yield message\n                        directives.pop(idx)\n                        del directives[idx:idx + 1]\n                    elif not isinstance(directive, I18NDirective):"),
 'R4-harmless-copy': ("                directives = list(directives)\n                in_comment = False", "                directives = directives[:]\n                in_comment = False"),
 'R3-harmless-swap-escapes': ("                data = data.replace('[', r'\\[').replace(']', r'\\]')\n", "                data = data.replace(']', r'\\]').replace('[', r'\\[')\n"),
 'T1-table-drop-style': ("        QName('style'), QName('http://www.w3.org/1999/xhtml}style')\n", "        QName('http://www.w3.org/1999/xhtml}style')\n"),
 'T2-table-drop-title': ("        'abbr', 'alt', 'label', 'prompt', 'standby', 'summary', 'title',\n", "        'abbr', 'alt', 'label', 'prompt', 'standby', 'summary',\n"),
 'T3-table-contexted': ("    None: 'pgettext',\n", "    None: 'pgettext_',\n"),
 'T4-table-directive-order': ("        ('msg', MsgDirective),\n        ('choose', ChooseDirective),", "        ('choose', ChooseDirective),\n        ('msg', MsgDirective),"),
 'R1-harmless-rename': ("                        text = value.strip()\n                        if translate_attrs and name in include_attrs and text:\n                            newval = gettext(text)", "                        stripped = value.strip()\n                        if translate_attrs and name in include_attrs and stripped:\n                            newval = gettext(stripped)"),
 'R2-harmless-reorder': ("        ignore_tags = self.ignore_tags\n        include_attrs = self.include_attrs\n        skip = 0\n", "        skip = 0\n        include_attrs = self.include_attrs\n        ignore_tags = self.ignore_tags\n"),
}
which=sys.argv[1:] or list(MUTS)
for name in which:
    a,b=MUTS[name]
    F=os.path.join(REPO,'genshi/template/eval.py' if name.startswith('N11') else 'genshi/filters/i18n.py')
    src=open(F).read()
    if src.count(a)!=1:
        print(name,'PATTERN COUNT',src.count(a)); continue
    open(F,'w').write(src.replace(a,b))
    try:
        r=subprocess.run([os.path.join(VERIF,'tools/baseline.py'),REPO],capture_output=True,text=True)
        base=[l for l in r.stdout.split('\n') if l.startswith('passing') or l.startswith('LOST')]
        r=subprocess.run(['./check','C19'],cwd=VERIF,capture_output=True,text=True)
        out=[l for l in r.stdout.split('\n') if l.startswith('VIOLATION') or l.startswith('BROKEN') or l.startswith('FAILING') or l.startswith('C19 tier')]
        print('=====',name,'rc',r.returncode); print('  baseline:',' | '.join(base)[:300])
        for l in out: print('  ',l[:600])
    finally:
        subprocess.run(['git','checkout','--','.'],cwd=REPO)
    if r.returncode == 1 and not name.startswith('T'):
        # the shrunk failing input must be quiet on the clean tree (it stays inside the hypotheses)
        r2=subprocess.run(['./check','C19','--replay','replays/C19-0.json'],cwd=VERIF,capture_output=True,text=True)
        print('   replay on the clean tree: rc',r2.returncode)

"""Sensitivity self-test of work package `xmlidem` (not part of the check): small mutations of the genshi code the
second-pass / idempotence / encoding models mirror, each followed by `./check C02 --tier quick`.
usage: python notes/C02_mutate_idem.py [names…]   (REPO / VERIF from the environment or the defaults below)"""
import subprocess, sys, os
REPO = os.environ.get('MUT_REPO', '/tmp/wp/xmlidem/repo')
VERIF = os.environ.get('MUT_VERIF', '/tmp/wp/xmlidem/verif')
F = 'genshi/output.py'
MUTS = {
    # _gen_prefix: the made-up prefix is no XML name
    'P1-gen-prefix-not-a-name': (F, "                yield 'ns%d' % val\n", "                yield '%dns' % val\n"),
    # _declare: a made-up / preferred prefix is taken although it is bound in this scope
    'P2-gen-prefix-bound-not-skipped': (F, "                while not prefix or _lookup(prefix)[1] is not None:\n",
                                        "                while not prefix:\n"),
    # ns_attrs hand-over: declarations written in reverse order (harmless for one pass; the second pass reverses again)
    'P3-ns-attrs-reversed': (F, "                ns_attrs = [_make_ns_attr(*decl) for decl in declared]\n",
                             "                ns_attrs = [_make_ns_attr(*decl) for decl in reversed(declared)]\n"),
    # ns_attrs hand-over: only the first declaration is written
    'P4-ns-attrs-first-only': (F, "                ns_attrs = [_make_ns_attr(*decl) for decl in declared]\n",
                               "                ns_attrs = [_make_ns_attr(*decl) for decl in declared[:1]]\n"),
    # _find_prefix: elements no longer prefer the default namespace (first pass fine, second pass picks the prefix)
    'P5-default-not-preferred': (F, "            if not for_attr and _lookup('')[1] == uri:\n                return ''\n",
                                 "            if False and not for_attr and _lookup('')[1] == uri:\n                return ''\n"),
    # EmptyTagFilter: START directly followed by END gives EMPTY *and* the END
    'P6-emptytag-keeps-end': (F, "                    prev = EMPTY, prev[1], prev[2]\n                    yield prev\n                    continue\n",
                              "                    prev = EMPTY, prev[1], prev[2]\n                    yield prev\n"),
    # EmptyTagFilter: the held-back START is dropped when a non-END follows a START that follows a START
    'P7-emptytag-start-after-start-lost': (F, "                else:\n                    yield prev\n            if ev[0] is not START:\n",
                                           "                elif ev[0] is not START:\n                    yield prev\n            if ev[0] is not START:\n"),
    # pending declarations: an explicit declaration that repeats the binding in force is written again
    'P8-redundant-declaration-kept': (F, "                    if _lookup(prefix)[1] != uri and (\n", "                    if (\n"),
    # encode(): unencodable characters are dropped instead of written as references
    'P9-encode-ignore': (F, "            errors = 'xmlcharrefreplace'\n", "            errors = 'ignore'\n"),
    'R2-harmless-refactor': (F, None, None),
}


def apply(name):
    f, old, new = MUTS[name]
    p = os.path.join(REPO, f)
    s = open(p).read()
    if name == 'R2-harmless-refactor':
        s2 = s.replace("            bindings.append((prefix, uri, True))\n            declared.append((prefix, uri))\n            return prefix\n",
                       "            chosen = prefix\n            declared.append((chosen, uri))\n            bindings.append((chosen, uri, True))\n            return chosen\n")
        s2 = s2.replace("        def _gen_prefix():\n            val = 0\n            while 1:\n                val += 1\n                yield 'ns%d' % val\n",
                        "        def _gen_prefix():\n            counter = 1\n            while True:\n                yield 'ns%d' % counter\n                counter += 1\n")
        s2 = s2.replace("                ns_attrs = [_make_ns_attr(*decl) for decl in declared]\n                output = tagname, Attrs(ns_attrs + new_attrs)\n",
                        "                decl_attrs = []\n                for p_, u_ in declared:\n                    decl_attrs.append(_make_ns_attr(p_, u_))\n                output = tagname, Attrs(decl_attrs + new_attrs)\n")
        assert s2 != s and s2.count('chosen') == 4 and 'decl_attrs' in s2 and 'counter += 1' in s2
        open(p, 'w').write(s2)
        return
    assert s.count(old) == 1, (name, s.count(old))
    open(p, 'w').write(s.replace(old, new))


def restore():
    subprocess.run(['git', 'checkout', '--', '.'], cwd=REPO, check=True)


def run(name):
    restore()
    apply(name)
    b = subprocess.run(['/venv/bin/python', VERIF + '/tools/baseline.py', REPO], stdout=subprocess.PIPE).stdout.decode().strip().split('\n')
    c = subprocess.run(['./check', 'C02', '--tier', 'quick'], cwd=VERIF, stdout=subprocess.PIPE, stderr=subprocess.STDOUT)
    out = c.stdout.decode()
    lines = [l for l in out.split('\n') if l.startswith(('VIOLATION', 'FAILING', 'BROKEN', 'C02 tier'))]
    print('=====', name, '| tests:', b[-1] if b else '?', '| exit', c.returncode)
    for l in lines:
        print('   ', l[:400])
    sys.stdout.flush()
    restore()


if __name__ == '__main__':
    for n in (sys.argv[1:] or list(MUTS)):
        run(n)

"""Self-test of work package xml2 (wave 4): mutations of genshi/input.py / output.py in /tmp/wp/xml2/repo, each run
through `./check C02 --tier quick`.  Not part of the check.  usage: python notes/C02_mutate_xml2.py [name...]"""
import subprocess, sys, os
REPO = '/tmp/wp/xml2/repo'
VERIF = '/tmp/wp/xml2/verif'
MUTS = {
    'X1-coalesce-merges-adjacent-cdata': 'patch:/tmp/seed/C02-4.patch',
    'X3-coalesce-drops-end-cdata-of-empty-section': ('genshi/input.py',
        "            if kind:\n                yield kind, data, pos\n",
        "            if kind is END_CDATA and last is START_CDATA:\n                last = kind\n                continue\n"
        "            last = kind\n            if kind:\n                yield kind, data, pos\n"),
    'X5-serializer-escapes-text-inside-cdata': ('genshi/output.py',
        "            if kind is TEXT and (in_cdata or isinstance(data, Markup)):\n                yield data\n                continue\n            cached = _get((kind, data))\n            if cached is not None:\n                yield cached\n            elif kind is START or kind is EMPTY:\n                tag, attrib = data\n                buf = ['<', tag]\n                for attr, value in attrib:\n                    buf += [' ', attr, '=\"', escape(value), '\"']",
        "            if kind is TEXT and isinstance(data, Markup):\n                yield data\n                continue\n            if kind is TEXT and in_cdata:\n                yield escape(data, quotes=False)\n                continue\n            cached = _get((kind, data))\n            if cached is not None:\n                yield cached\n            elif kind is START or kind is EMPTY:\n                tag, attrib = data\n                buf = ['<', tag]\n                for attr, value in attrib:\n                    buf += [' ', attr, '=\"', escape(value), '\"']"),
    'X6-ET-tail-before-end': ('genshi/input.py',
        "    yield END, tag_name, (None, -1, -1)\n    if element.tail:\n        yield TEXT, element.tail, (None, -1, -1)\n",
        "    if element.tail:\n        yield TEXT, element.tail, (None, -1, -1)\n    yield END, tag_name, (None, -1, -1)\n"),
    'X7-handle-other-keeps-reference-text': ('genshi/input.py',
        "                text = six.unichr(entities.name2codepoint[text[1:-1]])\n                self._enqueue(TEXT, text)\n",
        "                six.unichr(entities.name2codepoint[text[1:-1]])\n                self._enqueue(TEXT, text)\n"),
    'X8-doctype-ids-swapped': ('genshi/input.py',
        "        self._enqueue(DOCTYPE, (name, pubid, sysid))\n",
        "        self._enqueue(DOCTYPE, (name, sysid, pubid))\n"),
    'X9-start-ns-empty-string-for-none': ('genshi/input.py',
        "        self._enqueue(START_NS, (prefix or '', uri))\n",
        "        self._enqueue(START_NS, (prefix or '', uri or ''))\n"),
    'X10-coalesce-text-swallows-start-cdata': ('genshi/input.py',
        "        if kind is TEXT:\n            textbuf.append(data)\n",
        "        if kind is START_CDATA and textbuf:\n            continue\n        if kind is TEXT:\n            textbuf.append(data)\n"),
    'R3-harmless-coalesce-refactor': ('genshi/input.py',
        "    textbuf = []\n    textpos = None\n    for kind, data, pos in chain(stream, [(None, None, None)]):\n        if kind is TEXT:\n            textbuf.append(data)\n            if textpos is None:\n                textpos = pos\n",
        "    textpos = None\n    textbuf = []\n    for kind, data, pos in chain(stream, [(None, None, None)]):\n        if kind is TEXT:\n            if textpos is None:\n                textpos = pos\n            textbuf += [data]\n"),
}


def restore():
    subprocess.run(['git', 'checkout', '--', '.'], cwd=REPO, check=True)


def apply(name):
    m = MUTS[name]
    if isinstance(m, str):
        subprocess.run(['git', 'apply', m[6:]], cwd=REPO, check=True)
        return
    f, old, new = m
    p = os.path.join(REPO, f)
    s = open(p).read()
    if name.startswith('X3'):
        s = s.replace("    textbuf = []\n    textpos = None\n    for kind, data, pos in chain(stream", "    textbuf = []\n    textpos = None\n    last = None\n    for kind, data, pos in chain(stream", 1)
    assert s.count(old) == 1, (name, s.count(old))
    open(p, 'w').write(s.replace(old, new))


for name in (sys.argv[1:] or sorted(MUTS)):
    restore()
    apply(name)
    c = subprocess.run(['./check', 'C02', '--tier', 'quick'], cwd=VERIF, stdout=subprocess.PIPE, stderr=subprocess.STDOUT)
    out = c.stdout.decode()
    print('=====', name, '| exit', c.returncode, flush=True)
    for l in out.split('\n'):
        if l.startswith(('VIOLATION', 'FAILING', 'BROKEN', 'C02 tier')):
            print('   ', l[:420], flush=True)
    restore()

import subprocess, sys, os, json, re
REPO='/tmp/wp/xml/repo'; VERIF='/tmp/wp/xml/verif'
MUTS = {
 'M1-end-does-not-pop': ('genshi/output.py', "                    if count:\n                        del bindings[-count:]\n                        cache.clear()\n", "                    if count:\n                        cache.clear()\n"),
 'M2-shadowed-prefix-used': ('genshi/output.py', "                if bound_uri == uri and (prefix or not for_attr) \\\n                        and _lookup(prefix)[1] == uri:\n", "                if bound_uri == uri and (prefix or not for_attr):\n"),
 'M3-attr-quotes-not-escaped': ('genshi/output.py', "                    buf += [' ', attr, '=\"', escape(value), '\"']\n                buf.append(kind is EMPTY and '/>' or '>')\n                yield _emit(kind, data, Markup(''.join(buf)))\n\n            elif kind is END:\n                yield _emit(kind, data, Markup('</%s>' % data))\n\n            elif kind is TEXT:\n                yield _emit(kind, data, escape(data, quotes=False))\n\n            elif kind is COMMENT:\n                yield _emit(kind, data, Markup('<!--%s-->' % data))\n\n            elif kind is XML_DECL and not have_decl:\n                version, encoding, standalone = data\n                buf = ['<?xml version=\"%s\"' % version]\n                if encoding:\n                    buf.append(' encoding=\"%s\"' % encoding)\n                if standalone != -1:\n                    standalone = standalone and 'yes' or 'no'\n                    buf.append(' standalone=\"%s\"' % standalone)\n                buf.append('?>\\n')\n                yield Markup(''.join(buf))\n                have_decl = True\n\n            elif kind is DOCTYPE and not have_doctype:\n                name, pubid, sysid = data\n                buf = ['<!DOCTYPE %s']\n                if pubid:\n                    buf.append(' PUBLIC \"%s\"')\n                elif sysid:\n                    buf.append(' SYSTEM')\n                if sysid:\n                    buf.append('\"' in sysid and \" '%s'\" or ' \"%s\"')\n                buf.append('>\\n')\n                yield Markup(''.join(buf) % tuple([p for p in data if p]))\n                have_doctype = True\n\n            elif kind is START_CDATA:\n                yield Markup('<![CDATA[')", None),
 'M4-encode-replace': ('genshi/output.py', "            errors = 'xmlcharrefreplace'\n", "            errors = 'replace'\n"),
 'M5-pi-no-space': ('genshi/output.py', "                yield _emit(kind, data, Markup('<?%s %s?>' % data))\n\n\nclass XHTMLSerializer", "                yield _emit(kind, data, Markup('<?%s%s?>' % data))\n\n\nclass XHTMLSerializer"),
 'M6-cache-start-with-declarations': ('genshi/output.py', "                if not declared:\n                    _emit(kind, data, output)\n                elif kind is START:\n                    cache.clear()\n", "                _emit(kind, data, output)\n                if declared and kind is START:\n                    pass\n"),
 'M7-default-ns-always-preferred': ('genshi/output.py', "            if not for_attr and _lookup('')[1] == uri:\n                return ''\n", "            if _lookup('')[1] == uri:\n                return ''\n"),
 'M8-coalesce-drops-empty-join': ('genshi/input.py', "                yield TEXT, ''.join(textbuf), textpos\n", "                yield TEXT, textbuf[0], textpos\n"),
 'M9-end-cdata-in-text-escaped': ('genshi/output.py', "            if kind is TEXT and (in_cdata or isinstance(data, Markup)):\n                yield data\n                continue\n            cached = _get((kind, data))\n            if cached is not None:\n                yield cached\n            elif kind is START or kind is EMPTY:\n                tag, attrib = data\n                buf = ['<', tag]\n                for attr, value in attrib:\n                    buf += [' ', attr, '=\"', escape(value), '\"']\n                buf.append(kind is EMPTY and '/>' or '>')\n                yield _emit(kind, data, Markup(''.join(buf)))\n\n            elif kind is END:\n                yield _emit(kind, data, Markup('</%s>' % data))\n\n            elif kind is TEXT:\n                yield _emit(kind, data, escape(data, quotes=False))\n\n            elif kind is COMMENT:\n                yield _emit(kind, data, Markup('<!--%s-->' % data))\n\n            elif kind is XML_DECL and not have_decl:", None),
 'M10-attr-may-use-default-prefix': ('genshi/output.py', "                if bound_uri == uri and (prefix or not for_attr) \\\n                        and _lookup(prefix)[1] == uri:\n", "                if bound_uri == uri \\\n                        and _lookup(prefix)[1] == uri:\n"),
 'M13-no-undeclare-of-made-up-default': ('genshi/output.py', "                    if uri and auto:\n", "                    if uri and auto and False:\n"),
 'M16-doctype-escaped-again': ('genshi/output.py', "                yield Markup(''.join(buf) % tuple([p for p in data if p]))\n                have_doctype = True\n\n            elif kind is START_CDATA:\n                yield Markup('<![CDATA[')\n                in_cdata = True\n", "                yield Markup(''.join(buf)) % tuple([p for p in data if p])\n                have_doctype = True\n\n            elif kind is START_CDATA:\n                yield Markup('<![CDATA[')\n                in_cdata = True\n"),
 'M17-standalone-swapped': ('genshi/output.py', "                    standalone = standalone and 'yes' or 'no'\n                    buf.append(' standalone=\"%s\"' % standalone)\n                buf.append('?>\\n')\n                yield Markup(''.join(buf))\n                have_decl = True\n\n            elif kind is DOCTYPE and not have_doctype:\n                name, pubid, sysid = data\n                buf = ['<!DOCTYPE %s']\n                if pubid:\n                    buf.append(' PUBLIC \"%s\"')\n                elif sysid:\n                    buf.append(' SYSTEM')\n                if sysid:\n                    buf.append('\"' in sysid and \" '%s'\" or ' \"%s\"')\n                buf.append('>\\n')\n                yield Markup(''.join(buf) % tuple([p for p in data if p]))\n                have_doctype = True\n\n            elif kind is START_CDATA:", None),
 'M21-cdata-flag-never-reset': ('genshi/output.py', "                yield Markup(']]>')\n                in_cdata = False\n\n            elif kind is PI:\n                yield _emit(kind, data, Markup('<?%s %s?>' % data))\n\n\nclass XHTMLSerializer", "                yield Markup(']]>')\n\n            elif kind is PI:\n                yield _emit(kind, data, Markup('<?%s %s?>' % data))\n\n\nclass XHTMLSerializer"),
 'T1-xml-namespace-constant': ('genshi/core.py', "XML_NAMESPACE = Namespace('http://www.w3.org/XML/1998/namespace')", "XML_NAMESPACE = Namespace('http://www.w3.org/XML/1998/namespaces')"),
 'T2-no-emptytag-filter': ('genshi/output.py', "        self.filters = [EmptyTagFilter()]\n        if strip_whitespace:\n            self.filters.append(WhitespaceFilter(self._PRESERVE_SPACE))\n        self.filters.append(NamespaceFlattener(prefixes=namespace_prefixes,\n                                               cache=cache))\n        if doctype:\n            self.filters.append(DocTypeInserter(doctype))\n        self.cache = cache\n\n    def _prepare_cache", "        self.filters = []\n        if strip_whitespace:\n            self.filters.append(WhitespaceFilter(self._PRESERVE_SPACE))\n        self.filters.append(NamespaceFlattener(prefixes=namespace_prefixes,\n                                               cache=cache))\n        if doctype:\n            self.filters.append(DocTypeInserter(doctype))\n        self.cache = cache\n\n    def _prepare_cache"),
 'T3-flattener-default-prefix-table': ('genshi/output.py', "        self.prefixes = {XML_NAMESPACE.uri: 'xml'}\n", "        self.prefixes = {XML_NAMESPACE.uri: 'xml', 'http://www.w3.org/1999/xhtml': 'h'}\n"),
 'R1-harmless-refactor': ('genshi/output.py', None, None),
}
def apply(name):
    f, old, new = MUTS[name]
    p=os.path.join(REPO,f); s=open(p).read()
    if name=='M3-attr-quotes-not-escaped':
        old="                    buf += [' ', attr, '=\"', escape(value), '\"']\n                buf.append(kind is EMPTY and '/>' or '>')\n                yield _emit(kind, data, Markup(''.join(buf)))\n\n            elif kind is END:\n                yield _emit(kind, data, Markup('</%s>' % data))\n\n            elif kind is TEXT:\n                yield _emit(kind, data, escape(data, quotes=False))"
        new=old.replace("escape(value)", "escape(value, quotes=False)")
        assert s.count(old)==1, s.count(old)
    elif name=='M9-end-cdata-in-text-escaped':
        # in_cdata text goes through the cache again (the repaired defect #1)
        old="            if kind is TEXT and (in_cdata or isinstance(data, Markup)):\n                yield data\n                continue\n            cached = _get((kind, data))\n            if cached is not None:\n                yield cached\n            elif kind is START or kind is EMPTY:\n                tag, attrib = data\n                buf = ['<', tag]"
        new=old.replace("if kind is TEXT and (in_cdata or isinstance(data, Markup)):", "if kind is TEXT and isinstance(data, Markup):")
        assert s.count(old)==1
        s=s.replace(old,new)
        old2="            elif kind is TEXT:\n                yield _emit(kind, data, escape(data, quotes=False))\n\n            elif kind is COMMENT:\n                yield _emit(kind, data, Markup('<!--%s-->' % data))\n\n            elif kind is XML_DECL and not have_decl:\n                version, encoding, standalone = data\n                buf = ['<?xml version=\"%s\"' % version]"
        new2=old2.replace("                yield _emit(kind, data, escape(data, quotes=False))\n","                if in_cdata:\n                    yield _emit(kind, data, data)\n                else:\n                    yield _emit(kind, data, escape(data, quotes=False))\n",1)
        assert s.count(old2)==1
        s=s.replace(old2,new2); open(p,'w').write(s); return
    elif name=='M17-standalone-swapped':
        old="                    standalone = standalone and 'yes' or 'no'\n                    buf.append(' standalone=\"%s\"' % standalone)\n                buf.append('?>\\n')\n                yield Markup(''.join(buf))\n                have_decl = True\n\n            elif kind is DOCTYPE and not have_doctype:\n                name, pubid, sysid = data\n                buf = ['<!DOCTYPE %s']\n                if pubid:\n                    buf.append(' PUBLIC \"%s\"')\n                elif sysid:\n                    buf.append(' SYSTEM')\n                if sysid:\n                    buf.append('\"' in sysid and \" '%s'\" or ' \"%s\"')\n                buf.append('>\\n')\n                yield Markup(''.join(buf) % tuple([p for p in data if p]))\n                have_doctype = True\n\n            elif kind is START_CDATA:"
        new=old.replace("standalone and 'yes' or 'no'","standalone and 'no' or 'yes'")
        assert s.count(old)==1, s.count(old)
    elif name=='R1-harmless-refactor':
        # rename locals, reorder independent statements in the flattener
        s2=s.replace("declared", "decls_on_tag").replace("        bindings = [('xml', XML_NAMESPACE.uri, False)]\n        # declarations requested by `START_NS` events for the next start tag\n        pending = []\n", "        # declarations requested by `START_NS` events for the next start tag\n        pending = []\n        bindings = [('xml', XML_NAMESPACE.uri, False)]\n")
        s2=s2.replace("                tagname = tag.localname\n                tagns = tag.namespace\n","                tagns = tag.namespace\n                tagname = tag.localname\n")
        assert s2!=s
        open(p,'w').write(s2); return
    assert s.count(old)==1, (name, s.count(old))
    open(p,'w').write(s.replace(old,new))
def restore():
    subprocess.run(['git','checkout','--','.'],cwd=REPO,check=True)
def run(name):
    restore(); apply(name)
    b=subprocess.run(['/venv/bin/python',VERIF+'/tools/baseline.py',REPO],stdout=subprocess.PIPE).stdout.decode().strip().split('\n')
    c=subprocess.run(['./check','C02','--tier','quick'],cwd=VERIF,stdout=subprocess.PIPE,stderr=subprocess.STDOUT)
    out=c.stdout.decode()
    lines=[l for l in out.split('\n') if l.startswith(('VIOLATION','FAILING','BROKEN','C02 tier'))]
    print('=====',name,'| tests:',b[0],'| exit',c.returncode)
    for l in lines: print('   ',l[:600])
    restore()
if __name__=='__main__':
    for n in sys.argv[1:]:
        run(n)
